#!/usr/bin/env python3
"""Regenerate /verif/MANIFEST.json from the table below + which checks/cNN.py exist."""
import json
import os

VERIF = os.path.dirname(os.path.dirname(os.path.abspath(__file__)))

T = {
    "C01": ("reference-model monitor: dense NumPy oracle over harness-generated block structures, accessor cross-checks",
            "Every tensor operation named by the property is executed on operands whose dense truth the harness built itself "
            "(never via to_numpy) in random lazy/fused states and policies; result values, legs and charge are compared with NumPy "
            "and an independent group law, and all accessors of every result are cross-checked.  Held on the executions explored "
            "(thousands of distinct block structures per run), not a proof.",
            "Trusts NumPy arithmetic on small arrays and the harness model in vmon/dense.py, vmon/groups.py."),
    "C02": ("invariant monitor at the API boundary (interposed call/return events) + per-op charge post-conditions",
            "Every Tensor returned by any interposed public call (random operation programs, other properties' workloads, and in the "
            "thorough tier the repository's own test-suite run as a workload) is checked against an independent well-formedness "
            "invariant set and the algebraically required total charge.",
            "Invariant set in vmon/wellformed.py re-derives the selection rule with vmon/groups.py; bypassed bindings are counted."),
    "C03": ("metamorphic monitor: fused vs unfused dense truth, must-reject classes",
            "Round trips, norms and binary operations over fused legs are compared with the unfused dense truth for enumerated "
            "partitions/orders/depths and equal/overlapping/disjoint sector sets; precisely characterised incompatible fusions must raise.",
            "Trusts the unfused dense images built by the harness."),
    "C04": ("reference-model monitor: dense reconstruction, isometry and ordering oracles on factorisations",
            "svd/qr/eigh/eig results are converted to dense and reconstruction, (co-)isometry, ordering, triangularity, charge and "
            "position/signature of the new leg are checked against NumPy.",
            "Trusts NumPy/LAPACK on the dense side."),
    "C05": ("reference-model monitor: explicit parity signs and Jordan-Wigner matrices; all contraction orders",
            "swap_gate signs are recomputed per dense element from leg charges; ncon networks with swaps are evaluated for every "
            "contraction order and compared with an einsum carrying explicit parity matrices; fkron is compared with JW matrices.",
            "Trusts vmon/groups.py parities and NumPy einsum."),
    "C06": ("reference-model monitor: dense vectors/matrices of MPS/MPO expression trees", "see DESIGN.md 4/C06", "NumPy dense algebra; to_tensor cross-validated in-run"),
    "C07": ("reference-model monitor: explicit Jordan-Wigner matrices vs generate_mpo / measure_* / rdm / sample", "see DESIGN.md 4/C07", "vmon/jw.py convention as documented by the library"),
    "C08": ("reference-model + history monitor over canonisation/truncation programs", "see DESIGN.md 4/C08", "NumPy SVD of the dense state"),
    "C09": ("online monitor of dmrg_ sweeps against dense sector Hamiltonian", "see DESIGN.md 4/C09", "NumPy eigvalsh on the sector"),
    "C10": ("online monitor of tdvp_ snapshots against scipy expm", "see DESIGN.md 4/C10", "scipy.linalg.expm"),
    "C11": ("reference-model monitor: expm of JW Hamiltonians vs gates; dense gate application vs apply_gate_", "see DESIGN.md 4/C11", "vmon/pepsref.py JW model; scipy expm"),
    "C12": ("reference-model monitor: dense expectation values vs exact environments; metric PSD monitor", "see DESIGN.md 4/C12", "dense state from to_tensor validated in-run"),
    "C13": ("specification monitor on truncation masks (set-theoretic oracle) + dense error identity",
            "The boolean mask returned by truncation_mask / *_with_truncation is judged against the set-theoretic specification "
            "(limits respected, maximal weight, ties free) over a grid of limits and spectra; the truncation error identity is "
            "checked on dense operands.", "Specification written from the docstrings."),
    "C14": ("differential monitor: same program under two configurations must give identical observations",
            "Random operation programs are executed under every tensordot_policy x default_fusion x lazy-perturbation and compared "
            "step by step on (legs, charge, dense values); contract_with_unroll is compared across paths/unrollings with einsum.",
            "Trusts nothing but equality of observations (and NumPy einsum for contract_with_unroll)."),
    "C15": ("history monitor: byte-level digests of every argument before/after every interposed call; copy-independence histories",
            "All arguments of every interposed public call are snapshotted before and after; only documented in-place receivers are exempt.",
            "Exemption table derived from docstrings (printed in evidence)."),
    "C16": ("history + differential monitor on the lru caches: recomputation on first hit, digest on every hit, cold/warm/perturbed runs",
            "Every cache hit is compared with a fresh computation (first hit per key) and with the digest at insertion (every hit); "
            "programs are re-run cold, size-1, warm after adversarial twins and with injected clear/resize.",
            "Bit-exact equality; single-threaded BLAS."),
    "C17": ("round-trip monitor over all serialisation paths with observational equality", "see DESIGN.md 4/C17", "observation = legs, n, dtype, dense, follow-up contraction"),
    "C18": ("reference-model monitor: dense expm/eig/solve on the sector vs Krylov solvers", "see DESIGN.md 4/C18", "scipy/numpy dense linear algebra"),
    "C19": ("exhaustive enumeration monitor against independent group laws; Leg argument grid vs validity predicate", "see DESIGN.md 4/C19", "vmon/groups.py"),
    "C20": ("exhaustive enumeration monitor against a brute-force lattice model", "see DESIGN.md 4/C20", "brute-force Z^2 model"),
}


READY = os.path.join(VERIF, "tools", "ready.txt")   # ids validated on the unchanged tree (one per line)


def main():
    checks, na = [], []
    ready = set(open(READY).read().split()) if os.path.exists(READY) else set()
    for pid in sorted(T):
        tech, text, note = T[pid]
        if pid in ready and os.path.exists(os.path.join(VERIF, "checks", pid.lower() + ".py")):
            checks.append({
                "property_id": pid,
                "quick_cmd": f"./check {pid} quick",
                "thorough_cmd": f"./check {pid} thorough",
                "evidence_file": f"/verif/evidence/{pid}.json",
                "replay_cmd_template": f"./check {pid} --replay {{path}}",
                "engine": "vmon",
                "level_claimed": {"category": "exploration", "text": text, "design_ref": f"DESIGN.md section 4 ({pid})"},
                "level_note": note,
                "technique": tech,
            })
        else:
            na.append({"property_id": pid, "reason": "check not built yet in this session (design in DESIGN.md section 4); runtime monitoring does apply"})
    m = {
        "version": 1,
        "setup_cmd": "mkdir -p evidence replays && /venv/bin/python -m compileall -q vmon checks >/dev/null 2>&1; /venv/bin/python -c 'import numpy, scipy' ",
        "hooks": {"guard": "YASTN_VERIF", "enable": "none needed: all monitors interpose from the harness at the public API boundary (no source hooks in /repo)",
                  "baseline_off_cmd": "cd /repo && /venv/bin/python -m pytest -ra -q -p no:cacheprovider --timeout=900 --continue-on-collection-errors",
                  "source_commits": [], "add_only": True},
        "engines": [{"name": "vmon", "path": "/verif/vmon", "serves_properties": [c["property_id"] for c in checks],
                     "kind_free_text": "runtime monitors (reference-model, invariant, history, differential) over seeded generated workloads, sharded over subprocesses"}],
        "checks": checks,
        "notes": "Exit codes: 0 held, 1 VIOLATION, 2 INCONCLUSIVE (reach floors unmet / silent canary).  VERIF_SEED, VERIF_TIER, VERIF_REPO, VERIF_SHARDS honoured.",
        "not_applicable": na,
    }
    with open(os.path.join(VERIF, "MANIFEST.json"), "w") as f:
        json.dump(m, f, indent=1)
    print("checks:", [c["property_id"] for c in checks], "na:", [x["property_id"] for x in na])


if __name__ == "__main__":
    main()
