#!/usr/bin/env python3
"""Regenerate /verif/MANIFEST.json from the table below + which checks/cNN.py exist."""
import json
import os

VERIF = os.path.dirname(os.path.dirname(os.path.abspath(__file__)))

T = {
    "C01": ("reference-model monitor: dense NumPy oracle over harness-generated block structures, accessor cross-checks",
            "Every tensor operation named by the property is executed on operands whose dense truth the harness built itself "
            "(never via to_numpy) in random lazy/fused states and policies; result values, legs and charge are compared with NumPy "
            "and an independent group law, and all accessors of every result are cross-checked.  Held on the executions explored "
            "(thousands of distinct block structures per run), not a proof.",
            "Trusts NumPy arithmetic on small arrays and the harness model in vmon/dense.py, vmon/groups.py."),
    "C02": ("invariant monitor at the API boundary (interposed call/return events) + per-op charge post-conditions",
            "Every Tensor returned by any interposed public call (random operation programs, other properties' workloads, and in the "
            "thorough tier the repository's own test-suite run as a workload) is checked against an independent well-formedness "
            "invariant set and the algebraically required total charge.",
            "Invariant set in vmon/wellformed.py re-derives the selection rule with vmon/groups.py; bypassed bindings are counted."),
    "C03": ("metamorphic monitor: fused vs unfused dense truth, must-reject classes",
            "Round trips, norms and binary operations over fused legs are compared with the unfused dense truth for enumerated "
            "partitions/orders/depths and equal/overlapping/disjoint sector sets; precisely characterised incompatible fusions must raise.",
            "Trusts the unfused dense images built by the harness."),
    "C04": ("reference-model monitor: dense reconstruction, isometry and ordering oracles on factorisations",
            "svd/qr/eigh/eig results are converted to dense and reconstruction, (co-)isometry, ordering, triangularity, charge and "
            "position/signature of the new leg are checked against NumPy; the input object is compared with its pre-call record (buffer, metadata).",
            "Trusts NumPy/LAPACK on the dense side."),
    "C05": ("reference-model monitor: explicit parity signs and Jordan-Wigner matrices; all contraction orders",
            "swap_gate signs are recomputed per dense element from leg charges; ncon networks with swaps are evaluated for every "
            "contraction order and compared with an einsum carrying explicit parity matrices; fkron is compared with JW matrices.",
            "Trusts vmon/groups.py parities and NumPy einsum."),
    "C06": ("reference-model monitor: dense vectors/matrices of MPS/MPO expression trees",
            "Random expression trees over MPS/MPO leaves (sums with amplitudes in any container order, scalars incl. 0, products, conj/T/H, "
            "reverse_sites, product states, mps_from_tensor, zipper, compression_, central-block states, site tensors scaled over 40 orders of "
            "magnitude, copies swept in place) are evaluated by the library and by NumPy on harness-built dense images; measure_overlap / "
            "measure_mpo are compared with the dense inner products, all relatively.", "NumPy dense algebra; to_tensor cross-validated in-run"),
    "C07": ("reference-model monitor: explicit Jordan-Wigner matrices vs generate_mpo / measure_* / rdm / sample",
            "generate_mpo and the LaTeX Generator (also as one Generator object used through a history with in-place edits of returned "
            "objects) are compared with sums of explicit Jordan-Wigner matrices for every operator family and symmetry, amplitudes over 24 "
            "orders of magnitude, zero terms, custom fermionic maps; measure_1site/2site/nsite (operator dicts and pair lists in any "
            "insertion order, empty containers), rdm (with factors) and sample are compared with the dense state.",
            "vmon/jw.py convention as documented by the library"),
    "C08": ("reference-model + history monitor over canonisation/truncation programs",
            "Random programs of canonize_/orthogonalize_site_/absorb_central_/diagonalize_central_/truncate_ (all directions, normalize, "
            "option sets incl. per-sector dictionaries, defaults omitted) on MPS/MPO with graded, rank-deficient, vanishing and scaled "
            "states: after every step the dense state, norm, isometry of site tensors, Schmidt values and entropies (also while a central "
            "block is present on non-canonical states) and the reported discarded weight are judged relatively against NumPy.",
            "NumPy SVD of the dense state"),
    "C09": ("online monitor of dmrg_ sweeps against dense sector Hamiltonian",
            "Every record yielded by dmrg_ (1site/2site, iterator and direct forms, omitted arguments, opts_eigs with and without 'which', H "
            "as MPO / list in any order / scaled over 16 orders of magnitude / zero / identity, start states with factors, project= in all "
            "documented entry forms) is judged online: variational bound and monotone energy against the dense sector spectrum, reported "
            "energy = <psi|H|psi> of the returned state, normalisation, bookkeeping, penalised levels and orthogonality.",
            "NumPy eigvalsh on the sector"),
    "C10": ("online monitor of tdvp_ snapshots against scipy expm",
            "Every snapshot yielded by tdvp_ (1site/2site/12site, 2nd/4th order, real/imaginary/complex u, time-dependent callables, time "
            "grids in all documented forms, omitted arguments, scaled H and states) is judged online: norm and energy conservation, charge "
            "sector, canonical form, time bookkeeping, exactness on the full manifold against expm of the dense sector generator, and the "
            "observed convergence order in dt; runs whose dt does not divide the interval must sample a callable generator at the same times "
            "and end in the same state as the run asking for the adjusted step.", "scipy.linalg.expm"),
    "C11": ("reference-model monitor: expm of JW Hamiltonians vs gates; dense gate application vs apply_gate_",
            "Predefined and user gates are compared with expm of explicit Jordan-Wigner Hamiltonians; apply_gate_ (nn, distant, MPO gates, "
            "across the fermionic seam, with ancillas, scaled and zero gates) and PEPS sums are compared with dense application on the "
            "state vector of random shallow circuits on lattices up to 3x3 (incl. 1x1).", "vmon/pepsref.py JW model; scipy expm"),
    "C12": ("reference-model monitor: dense expectation values vs exact environments; metric PSD monitor",
            "EnvBoundaryMPS, EnvCTM (after exact expansion) and EnvBP (loop-free lattices) expectation values of 1-site, nn, 2-site and "
            "n-site operators (all container forms and orders, windows, repeated sites, defaults) and sample probabilities are compared "
            "with the dense state; NTU bond metrics are monitored for hermiticity and positive semi-definiteness; non-binding evolution "
            "steps are compared with the exactly evolved state; EnvBP reads before an evolution step must be transparent (unmeasured twin).", "dense state from to_tensor validated in-run"),
    "C13": ("specification monitor on truncation masks (set-theoretic oracle) + dense error identity",
            "The boolean mask returned by truncation_mask / *_with_truncation is judged against the set-theoretic specification "
            "(limits respected, maximal weight, ties free) over a grid of limits and spectra; the truncation error identity is "
            "checked on dense operands.", "Specification written from the docstrings."),
    "C14": ("differential monitor: same program under two configurations must give identical observations",
            "Random operation programs are executed under every tensordot_policy x default_fusion x lazy-perturbation and compared "
            "step by step on (legs, charge, dense values); contract_with_unroll is compared across paths/unrollings with einsum; "
            "families of alike-fused tensors are added in every operand order; a high-volume family of tiny contractions is run under "
            "the three policies from plain, hard- and meta-fused legs.",
            "Trusts nothing but equality of observations (and NumPy einsum for contract_with_unroll)."),
    "C15": ("history monitor: byte-level digests of every argument before/after every interposed call; copy-independence histories",
            "All arguments of every interposed public call are snapshotted before and after; only documented in-place receivers are exempt.  "
            "Workloads: operation programs, the other checks' generators, the repository's test files (thorough), and histories on copies "
            "of tensors, MPS (central block), PEPS, environments, DoublePepsTensor, read-only batteries and caller-owned containers.",
            "Exemption table derived from docstrings (printed in evidence)."),
    "C16": ("history + differential monitor on the lru caches: recomputation on first hit, digest on every hit, cold/warm/perturbed runs",
            "Every cache hit is compared with a fresh computation (first hit per key) and with the digest at insertion (every hit); "
            "programs are re-run cold, size-1, warm after adversarial twins (other symmetry / statistics / fusion history, user-defined and "
            "derived symmetry classes) and with injected clear/resize; operations are repeated after in-place updates of operands and of "
            "moved SlicedLeg windows.",
            "Bit-exact equality; single-threaded BLAS."),
    "C17": ("round-trip monitor over all serialisation paths with observational equality",
            "Tensors (diagonal, fused, lazily transposed, empty, all-zero, complex), MPS/MPO (central block, hostile factors incl. 0, N=1), "
            "PEPS on every lattice type and environments go through to_dict/from_dict at every level and dictionary generation, "
            "split/combine, np.save, HDF5 and legacy paths, defaults and config overrides, one dictionary reused for several loads; the "
            "restored object must be observationally identical (legs incl. history, pending permutation semantics, charge, dtype, values, "
            "follow-up contractions), the caller's dictionary untouched, incompatible config/meta rejected, meta-vector map linear and "
            "norm preserving.", "observation = legs, n, dtype, dense, follow-up contraction"),
    "C18": ("reference-model monitor: dense expm/eig/solve on the sector vs Krylov solvers",
            "expmv, eigs and lin_solver on maps built from random symmetric operators (Hermitian and not, dimension up to a few hundred, "
            "one-dimensional sectors, zero / identity maps, fused and lazily transposed start vectors incl. differing fusion histories, "
            "norm scales 1e-30..1e30, all t incl. 0 and sub-stepping, all ncv / which / flags, omitted arguments) are compared with "
            "scipy expm / eig / solve of the harness-built dense image; scale invariance and linearity clauses.",
            "scipy/numpy dense linear algebra"),
    "C19": ("exhaustive enumeration monitor against independent group laws; Leg argument grid vs validity predicate",
            "For all seven symmetry classes the group axioms, fuse() in batch and single form, add_charges, canonicalisation of "
            "non-canonical / int32 / empty inputs and large U(1) charges are enumerated exhaustively over charge boxes and compared with "
            "independent group laws; Leg construction is run over an argument grid (incl. one non-canonical charge among canonical ones at every "
            "position) against a validity predicate; leg unions, products and "
            "their inverses against set / group-law models.", "vmon/groups.py"),
    "C20": ("exhaustive enumeration monitor against a brute-force lattice model",
            "All SquareLattice and full_patch TriangularLattice sizes up to 5x5 with each boundary, Checkerboard, all RectangularUnitcell "
            "patterns up to the planned sizes (exhaustive for small, sampled for 4x4) are compared with a brute-force model of Z^2: "
            "nn_site inverse pairs, bonds, nn_bond_dirn, f_ordered, site2index periods, accept/reject of patterns; Lattice/Peps containers "
            "are driven through get/set/patch/apply histories, also as two containers related by copies, against a dict model.",
            "brute-force Z^2 model"),
}


READY = os.path.join(VERIF, "tools", "ready.txt")   # ids validated on the unchanged tree (one per line)


def main():
    checks, na = [], []
    ready = set(open(READY).read().split()) if os.path.exists(READY) else set()
    for pid in sorted(T):
        tech, text, note = T[pid]
        if pid in ready and os.path.exists(os.path.join(VERIF, "checks", pid.lower() + ".py")):
            checks.append({
                "property_id": pid,
                "quick_cmd": f"./check {pid} quick",
                "thorough_cmd": f"./check {pid} thorough",
                "evidence_file": f"/verif/evidence/{pid}.json",
                "replay_cmd_template": f"./check {pid} --replay {{path}}",
                "engine": "vmon",
                "level_claimed": {"category": "exploration", "text": text, "design_ref": f"DESIGN.md section 4 ({pid})"},
                "level_note": note,
                "technique": tech,
            })
        else:
            na.append({"property_id": pid, "reason": "check not built yet in this session (design in DESIGN.md section 4); runtime monitoring does apply"})
    m = {
        "version": 1,
        "setup_cmd": "mkdir -p evidence replays && /venv/bin/python -m compileall -q vmon checks >/dev/null 2>&1; /venv/bin/python -c 'import numpy, scipy' ",
        "hooks": {"guard": "YASTN_VERIF", "enable": "none needed: all monitors interpose from the harness at the public API boundary (no source hooks in /repo)",
                  "baseline_off_cmd": "cd /repo && /venv/bin/python -m pytest -ra -q -p no:cacheprovider --timeout=900 --continue-on-collection-errors",
                  "source_commits": [], "add_only": True},
        "engines": [{"name": "vmon", "path": "/verif/vmon", "serves_properties": [c["property_id"] for c in checks],
                     "kind_free_text": "runtime monitors (reference-model, invariant, history, differential) over seeded generated workloads, sharded over subprocesses"}],
        "checks": checks,
        "notes": "Exit codes: 0 held, 1 VIOLATION, 2 INCONCLUSIVE (reach floors unmet / silent canary).  VERIF_SEED, VERIF_TIER, VERIF_REPO, VERIF_SHARDS honoured.",
        "not_applicable": na,
    }
    with open(os.path.join(VERIF, "MANIFEST.json"), "w") as f:
        json.dump(m, f, indent=1)
    print("checks:", [c["property_id"] for c in checks], "na:", [x["property_id"] for x in na])


if __name__ == "__main__":
    main()
