#!/usr/bin/env python3
"""Confirm a seeded change:  python3 tools/verify_seeded.py seeded/<id> [pytest paths...]

In a scratch copy of /repo (removed afterwards): the demonstration passes on the unchanged tree, fails with the
patch applied, and the given test paths (default tests/tensor) still pass with the patch.  Then our checks are run
against the patched scratch copy (quick tier of --prop, default: the property in the directory name).
Results are merged into seeded/<id>/meta.json.
"""
import argparse
import json
import os
import shutil
import subprocess
import sys
import tempfile
import time

VERIF = os.path.dirname(os.path.dirname(os.path.abspath(__file__)))
sys.path.insert(0, os.path.join(VERIF, "mutants"))
from run import _normalise  # noqa: E402

PY = "/venv/bin/python"


def sh(cmd, cwd, env=None, timeout=7200):
    p = subprocess.run(cmd, cwd=cwd, env=env, text=True, stdout=subprocess.PIPE, stderr=subprocess.STDOUT, timeout=timeout)
    return p.returncode, p.stdout


def main():
    ap = argparse.ArgumentParser()
    ap.add_argument("dir")
    ap.add_argument("tests", nargs="*")
    ap.add_argument("--prop", default=None)
    ap.add_argument("--tier", default="quick")
    ap.add_argument("--jobs", default="4")
    ap.add_argument("--skip-tests", action="store_true")
    ap.add_argument("--checks", default=None, help="comma separated property ids to run (default: --prop)")
    a = ap.parse_args()
    d = os.path.abspath(a.dir)
    name = os.path.basename(d)
    prop = a.prop or name.split("_")[0]
    meta_path = os.path.join(d, "meta.json")
    meta = json.load(open(meta_path)) if os.path.exists(meta_path) else {}
    scratch = tempfile.mkdtemp(prefix="vseed-", dir="/tmp")
    try:
        for sub in ("yastn", "tests", "conftest.py", "pyproject.toml"):
            src = os.path.join("/repo", sub)
            dst = os.path.join(scratch, sub)
            if os.path.isdir(src):
                shutil.copytree(src, dst, ignore=shutil.ignore_patterns("__pycache__", "*.pyc"))
            else:
                shutil.copy(src, dst)
        env = dict(os.environ, PYTHONPATH=scratch, PYTHONDONTWRITEBYTECODE="1", OMP_NUM_THREADS="1")
        demo = os.path.join(d, "demo.py")
        rc0, out0 = sh([PY, demo], scratch, env, 1800)
        p = subprocess.run(["patch", "-p0", "--no-backup-if-mismatch", "-s"], input=_normalise(open(os.path.join(d, "patch.diff")).read()),
                           cwd=scratch, text=True, stdout=subprocess.PIPE, stderr=subprocess.STDOUT)
        if p.returncode != 0:
            print("PATCH FAILED", p.stdout[-500:])
            return 2
        rc1, out1 = sh([PY, demo], scratch, env, 1800)
        meta["demo_on_unchanged_tree_exit"] = rc0
        meta["demo_with_change_exit"] = rc1
        meta["demo_with_change_tail"] = out1.strip().splitlines()[-1][:300] if out1.strip() else ""
        print(f"demo: unchanged exit={rc0}  with change exit={rc1}")
        if not a.skip_tests:
            tests = a.tests or ["tests/tensor"]
            t0 = time.time()
            # tests/mps/test_save_load.py writes one HDF5 file name from all parametrisations: it collides under xdist
            cmd = [PY, "-m", "pytest", "-q", "-p", "no:cacheprovider", "--timeout=1800", "-n", a.jobs,
                   "--deselect", "tests/mps/test_save_load.py", *tests]
            rct, outt = sh(cmd, scratch, env)
            tail = outt.strip().splitlines()[-1] if outt.strip() else ""
            meta["tests_with_change"] = {"cmd": " ".join(cmd[1:]), "exit": rct, "summary": tail[:300], "wall_s": round(time.time() - t0)}
            print("tests:", rct, tail[:200])
        results = {}
        for pid in (a.checks.split(",") if a.checks else [prop]):
            env2 = dict(os.environ, VERIF_REPO=scratch, VERIF_SEED="0")
            t0 = time.time()
            rcc, outc = sh([os.path.join(VERIF, "check"), pid, a.tier], VERIF, env2)
            keys = sorted({l.split("violation key=")[1].split(" ::")[0] for l in outc.splitlines() if "violation key=" in l})
            verdict = "CAUGHT" if rcc == 1 and "VIOLATION property=" in outc else ("INCONCLUSIVE" if rcc == 2 else "MISSED")
            results[f"{pid}:{a.tier}"] = {"verdict": verdict, "keys": keys[:12], "wall_s": round(time.time() - t0)}
            print(f"check {pid} {a.tier}: {verdict} {keys[:6]}")
        meta.setdefault("our_checks", {}).update(results)
        meta["property"] = prop
        with open(meta_path, "w") as f:
            json.dump(meta, f, indent=1)
    finally:
        shutil.rmtree(scratch, ignore_errors=True)
    return 0


if __name__ == "__main__":
    sys.exit(main())
