#!/usr/bin/env python3
"""Merge a seeding agent's notes.json (kept as seeded/<P>_A*/agent_notes.json) into the meta.json of both changes.

python3 tools/merge_seed_notes.py C20 2      # seeded/C20_A2, seeded/C20_B2
"""
import json
import os
import sys

VERIF = os.path.dirname(os.path.dirname(os.path.abspath(__file__)))
ORIGIN = ("independent sub-agent given only the property text and a scratch worktree (nothing from /verif); "
          "confirmed with tools/verify_seeded.py")


def main():
    pid, rnd = sys.argv[1], (sys.argv[2] if len(sys.argv) > 2 else "")
    notes = json.load(open(os.path.join(VERIF, "seeded", f"{pid}_A{rnd}", "agent_notes.json")))
    for x in "AB":
        d = os.path.join(VERIF, "seeded", f"{pid}_{x}{rnd}")
        mp = os.path.join(d, "meta.json")
        meta = json.load(open(mp)) if os.path.exists(mp) else {}
        n = notes.get(x) or notes.get(x.lower()) or {}
        for k_src, k_dst in (("files", "files"), ("what", "what"), ("needs_to_manifest", "needs_to_manifest"),
                             ("tests_run", "author_tests_run"), ("tests_result", "author_tests_result")):
            if k_src in n:
                meta[k_dst] = n[k_src]
        meta["origin"] = ORIGIN
        meta["property"] = pid
        json.dump(meta, open(mp, "w"), indent=1)
        print(d, sorted(meta))
    if notes.get("head_observations"):
        print("HEAD observations:", json.dumps(notes["head_observations"])[:3000])


if __name__ == "__main__":
    main()
