#!/bin/sh
# import a seeding agent's deliverables:  tools/import_seed.sh <worktree> <seeded-id> [pytest paths...]
# copies <worktree>/_seed/{demo.py,patch.diff,notes.json} to seeded/<id>/, writes meta.json, confirms with verify_seeded.py
set -e
wt=$1; id=$2; shift 2
V=$(cd "$(dirname "$0")/.." && pwd)
d=$V/seeded/$id
mkdir -p "$d"
cp "$wt/_seed/demo.py" "$d/demo.py"
git -C "$wt" diff -- yastn > "$d/patch.diff"
cp "$wt/_seed/notes.json" "$d/agent_notes.json"
/venv/bin/python - "$d" <<'PY'
import json, sys, os
d = sys.argv[1]
n = json.load(open(os.path.join(d, "agent_notes.json")))
meta = {}
for s, t in (("files", "files"), ("what", "what"), ("needs_to_manifest", "needs_to_manifest"),
             ("tests_run", "author_tests_run"), ("tests_result", "author_tests_result")):
    if s in n:
        meta[t] = n[s]
meta["origin"] = ("independent sub-agent given only the property text and a scratch worktree (nothing from /verif); "
                  "confirmed with tools/verify_seeded.py")
meta["property"] = os.path.basename(d).split("_")[0]
json.dump(meta, open(os.path.join(d, "meta.json"), "w"), indent=1)
PY
exec /venv/bin/python "$V/tools/verify_seeded.py" "$d" "$@"
