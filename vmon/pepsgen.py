"""Seeded generators of finite-PEPS workloads for C11 / C12 (families, lattices, states, gates, paths).

Everything random comes from the ``random.Random`` / ``numpy Generator`` handed in by the check; yastn's backend RNG
is re-seeded from them before every ``yastn.rand`` call.  The dense meaning of whatever is generated here is always
established by ``vmon.pepsref`` from block data / Leg charges, never by the generator itself.
"""
from __future__ import annotations

import numpy as np

from . import groups as G
from . import pepsref as R

# (operator class, symmetry)  -- "spinless / spinful fermions and spins in every symmetry"
FAMILIES = (
    ("SpinlessFermions", "Z2"), ("SpinlessFermions", "U1"),
    ("SpinfulFermions", "Z2"), ("SpinfulFermions", "U1"), ("SpinfulFermions", "U1xU1"), ("SpinfulFermions", "U1xU1xZ2"),
    ("SpinfulFermions_tJ", "Z2"), ("SpinfulFermions_tJ", "U1"), ("SpinfulFermions_tJ", "U1xU1"),
    ("SpinfulFermions_tJ", "U1xU1xZ2"),
    ("Spin12", "dense"), ("Spin12", "Z2"), ("Spin12", "U1"),
    ("Spin1", "dense"), ("Spin1", "Z3"), ("Spin1", "U1"),
)
FERMIONIC = tuple(f for f in FAMILIES if "Fermions" in f[0])
SMALL = tuple(f for f in FAMILIES if f[0] in ("SpinlessFermions", "Spin12"))          # local dimension 2

LATTICES = (  # (dims, boundary)
    ((1, 2), "obc"), ((2, 1), "obc"), ((1, 3), "obc"), ((3, 1), "obc"), ((1, 4), "obc"), ((4, 1), "obc"),
    ((2, 2), "obc"), ((2, 3), "obc"), ((3, 2), "obc"), ((1, 5), "obc"), ((1, 6), "obc"), ((6, 1), "obc"),
    ((3, 1), "cylinder"), ((3, 2), "cylinder"), ((2, 2), "cylinder"), ((2, 3), "cylinder"), ((4, 1), "cylinder"),
    ((2, 1), "cylinder"),
)


class Fam:
    """One operator family: yastn operator generator, local space, catalogue of named local operators."""

    def __init__(self, cls, sym):
        import yastn
        self.cls, self.sym = cls, sym
        self.ops = getattr(yastn.operators, cls)(sym=sym)
        self.cfg = self.ops.config
        self.loc = R.Local.from_ops(self.ops)
        self.d = self.loc.d
        o = self.ops
        cat = {"I": o.I()}
        if cls == "SpinlessFermions":
            cat.update(n=o.n(), c=o.c(), cp=o.cp())
            self.odd = [("cp", "c"), ("c", "cp")]
            self.even = ["n", "I"]
        elif cls in ("SpinfulFermions", "SpinfulFermions_tJ"):
            for s in "ud":
                cat["n" + s], cat["c" + s], cat["cp" + s] = o.n(s), o.c(s), o.cp(s)
            cat.update(Sz=o.Sz(), Sp=o.Sp(), Sm=o.Sm())
            self.odd = [("cpu", "cu"), ("cd", "cpd"), ("cpu", "cd"), ("cpd", "cpu")] if sym in ("Z2",) else \
                       [("cpu", "cu"), ("cd", "cpd"), ("cpd", "cd")]
            self.even = ["nu", "nd", "Sz", "I"]
        elif cls == "Spin12":
            cat.update(z=o.z(), sz=o.sz(), sp=o.sp(), sm=o.sm())
            if sym in ("dense", "Z2"):
                cat.update(x=o.x(), y=o.y())
            self.odd = [("sp", "sm"), ("sm", "sp")]
            self.even = ["z", "I"]
        elif cls == "Spin1":
            cat.update(sz=o.sz(), sp=o.sp(), sm=o.sm())
            if sym == "dense":
                cat.update(sx=o.sx(), sy=o.sy())
            self.odd = [("sp", "sm"), ("sm", "sp")]
            self.even = ["sz", "I"]
        self.cat = cat
        self.mat = {k: self.loc.mat(v) for k, v in cat.items()}
        self.fermionic = "Fermions" in cls

    def seed_backend(self, rng):
        self.cfg.backend.random_seed(rng.getrandbits(32))

    def charge_of(self, name):
        comps = self.loc.components(self.mat[name])
        return next(iter(comps)) if len(comps) == 1 else None

    def pairs_zero_charge(self):
        """all ordered (A, B) from the catalogue whose charges add to zero and where A is not even."""
        out = []
        for a in self.cat:
            for b in self.cat:
                na, nb = self.charge_of(a), self.charge_of(b)
                if na is None or nb is None or na == self.loc.zero:
                    continue
                if G.add(self.sym, (na, nb)) == self.loc.zero:
                    out.append((a, b))
        return out


_FAM_CACHE = {}


def fam(cls, sym):
    key = (cls, sym)
    if key not in _FAM_CACHE:
        _FAM_CACHE[key] = Fam(cls, sym)
    return _FAM_CACHE[key]


def max_sites(F, anc_dim_is_d):
    """largest number of sites with dense state <= 4096 amplitudes."""
    per = F.d * (F.d if anc_dim_is_d else 1)
    n = 1
    while per ** (n + 1) <= 4096:
        n += 1
    return n


# ---------------------------------------------------------------------------------------------- numbers

def rand_scalar(rng, kind=None, lo=0.1, hi=1.0):
    """real / imaginary / complex number with modulus in [lo, hi]; kind returned too."""
    kind = kind or rng.choice(("real", "imag", "complex"))
    r = rng.uniform(lo, hi) * rng.choice((-1, 1))
    if kind == "real":
        return r, kind
    if kind == "imag":
        return 1j * r, kind
    ph = rng.uniform(0.2, 1.3) * rng.choice((-1, 1))
    return r * np.exp(1j * ph), kind


def rand_array(nprng, shape, cplx=True):
    x = nprng.standard_normal(shape)
    if cplx:
        x = x + 1j * nprng.standard_normal(shape)
    return x


# ---------------------------------------------------------------------------------------------- geometry

def lattice(dims, boundary):
    import yastn.tn.fpeps as fpeps
    return fpeps.SquareLattice(dims=dims, boundary=boundary)


def neighbours(g, s):
    out = []
    for d in "tlbr":
        n = g.nn_site(s, d)
        if n is not None and n != s and n not in out:
            out.append(n)
    return out


def rand_path(rng, g, K):
    """self-avoiding nearest-neighbour path of K sites (None if it cannot be found)."""
    sites = list(g.sites())
    for _ in range(60):
        p = [rng.choice(sites)]
        while len(p) < K:
            nb = [n for n in neighbours(g, p[-1]) if n not in p]
            if not nb:
                break
            p.append(rng.choice(nb))
        if len(p) == K:
            return p
    return None


def is_seam(g, a, b):
    """bond crossing the periodic boundary of a cylinder (lattice direction and fermionic order disagree)."""
    d = g.nn_bond_dirn(a, b)
    return bool(g.f_ordered(a, b)) != (d in ("lr", "tb")) and a != b


def path_dirs(g, path):
    return [g.nn_bond_dirn(a, b) for a, b in zip(path[:-1], path[1:])]


# ---------------------------------------------------------------------------------------------- states

def one_leg(F, s):
    import yastn
    if F.sym == "dense":
        return yastn.Leg(F.cfg, s=s, D=(1,))
    return yastn.Leg(F.cfg, s=s, t=(F.loc.zero,), D=(1,))


def charge_pool(F, rng, k=12):
    """charges that local operators can carry (differences of local charges), zero first."""
    out = [F.loc.zero]
    for _ in range(k):
        n = F.loc.diff(rng.randrange(F.d), rng.randrange(F.d))
        for m in (n, G.neg(F.sym, n)):
            if m not in out:
                out.append(m)
    return out


def virt_leg(F, rng, s, nsec=3, dmax=1, pool=None):
    import yastn
    if F.sym == "dense":
        return yastn.Leg(F.cfg, s=s, D=(rng.randint(1, max(2, nsec)),))
    pool = pool or charge_pool(F, rng)
    k = min(len(pool), nsec)
    ts = sorted([pool[0]] + rng.sample(pool[1:], k - 1)) if k > 1 else [pool[0]]
    return yastn.Leg(F.cfg, s=s, t=ts, D=[rng.randint(1, dmax) for _ in ts])


def product_vec_state(F, rng, nprng, g):
    """product of rank-1 vectors, each inside one charge sector -> (psi, local arrays [d,1] per site)."""
    import yastn.tn.fpeps as fpeps
    vecs, loc_arr = {}, {}
    for s in g.sites():
        t = rng.choice(F.loc.sectors)[0]
        idx = [i for i, c in enumerate(F.loc.charges) if c == t]
        v = np.zeros(F.d, dtype=np.complex128)
        v[idx] = rand_array(nprng, len(idx))
        if rng.random() < 0.3:                       # basis state
            v[:] = 0
            v[rng.choice(idx)] = 1.0
        vecs[s] = R.from_dense(F.cfg, v, [F.loc.leg], n=t)
        loc_arr[s] = v.reshape(F.d, 1)
    keys = list(vecs)
    rng.shuffle(keys)                                # container order is the caller's business
    psi = fpeps.product_peps(g, {k: vecs[k] for k in keys})
    return psi, loc_arr


def product_purif_state(F, rng, nprng, g):
    """product of charge-zero local matrices [sys, anc] (identity = infinite temperature with prob 1/3)."""
    import yastn.tn.fpeps as fpeps
    mask = F.loc.charge_mask(1)
    vecs, loc_arr = {}, {}
    use_I = rng.random() < 0.34
    for s in g.sites():
        A = np.eye(F.d, dtype=np.complex128) if use_I else rand_array(nprng, (F.d, F.d)) * mask
        vecs[s] = R.from_dense(F.cfg, A, [F.loc.leg, F.loc.leg.conj()])
        loc_arr[s] = A
    keys = list(vecs)
    rng.shuffle(keys)                                # container order is the caller's business
    psi = fpeps.product_peps(g, {k: vecs[k] for k in keys})
    return psi, loc_arr


def random_peps(F, rng, g, anc="charged", nsec=3, dmax=1, dtype="complex128"):
    """random PEPS with virtual bonds of a few charge sectors.

    anc = 'charged': physical leg = fuse(system, D=1 ancilla carrying a random local charge)  (tensor charge 0)
    anc = 'full'   : physical leg = fuse(system, ancilla = conj local space)                  (purification-like)
    anc = None     : plain (unfused) physical leg."""
    import yastn
    import yastn.tn.fpeps as fpeps
    pool = charge_pool(F, rng)
    hb, vb = {}, {}
    psi = fpeps.Peps(g)
    for s in g.sites():
        nx, ny = s
        legs = []
        # top
        if g.nn_site(s, "t") is None:
            legs.append(one_leg(F, -1))
        else:
            key = ((nx - 1) % g.Nx, ny)
            if key not in vb:
                vb[key] = virt_leg(F, rng, 1, nsec, dmax, pool)
            legs.append(vb[key].conj())
        # left
        if g.nn_site(s, "l") is None:
            legs.append(one_leg(F, 1))
        else:
            legs.append(hb[(nx, ny - 1)])
        # bottom
        if g.nn_site(s, "b") is None:
            legs.append(one_leg(F, 1))
        else:
            key = (nx, ny)
            if key not in vb:
                vb[key] = virt_leg(F, rng, 1, nsec, dmax, pool)
            legs.append(vb[key])
        # right
        if g.nn_site(s, "r") is None:
            legs.append(one_leg(F, -1))
        else:
            hb[(nx, ny)] = virt_leg(F, rng, 1, nsec, dmax, pool)
            legs.append(hb[(nx, ny)].conj())
        legs.append(F.loc.leg)
        if anc == "charged":
            na = rng.choice(F.loc.sectors)[0]
            legs.append(yastn.Leg(F.cfg, s=-1, t=(na,), D=(1,)) if F.sym != "dense" else yastn.Leg(F.cfg, s=-1, D=(1,)))
        elif anc == "full":
            legs.append(F.loc.leg.conj())
        F.seed_backend(rng)
        A = yastn.rand(F.cfg, legs=legs, dtype=dtype)
        if anc is not None:
            A = A.fuse_legs(axes=(0, 1, 2, 3, (4, 5)))
        psi[s] = A
    return psi


# ---------------------------------------------------------------------------------------------- gates

def split_chain(F, M, tol=None):
    """Dense K-site operator M[k0,b0,k1,b1,...] (charge conserving) -> list of yastn gate tensors
    (ket, bra[, virt_left][, virt_right]) by successive SVD; the elementwise product over the connecting legs is M
    (tol=None: full SVD, exact; tol: singular values below tol*max are dropped -> re-read M from the tensors)."""
    import yastn
    K = M.ndim // 2
    legs = []
    for _ in range(K):
        legs += [F.loc.leg, F.loc.leg.conj()]
    T = R.from_dense(F.cfg, M, legs)
    if K == 1:
        return [T]

    def svd(a, axes):
        if tol is None:
            return yastn.svd(a, axes=axes, sU=-1)
        return yastn.svd_with_truncation(a, axes=axes, sU=-1, tol=tol)

    Gs = []
    rest = T
    for m in range(K - 1):
        nd = rest.ndim
        if m == 0:
            U, S, V = svd(rest, ((0, 1), tuple(range(2, nd))))
            Gs.append(S.sqrt().broadcast(U, axes=2))                  # k b vr
        else:
            U, S, V = svd(rest, ((0, 1, 2), tuple(range(3, nd))))
            Gs.append(S.sqrt().broadcast(U, axes=3).transpose(axes=(1, 2, 0, 3)))   # k b vl vr
        rest = S.sqrt().broadcast(V, axes=0)                          # vl k b ...
    Gs.append(rest.transpose(axes=(1, 2, 0)))                         # k b vl
    return Gs


def chain_to_mpo(F, Gs):
    """gate tensors (ket, bra, vl, vr) -> yastn MPO object (tensor legs: vl, ket, vr, bra)."""
    import yastn.tn.mps as mps
    K = len(Gs)
    op = mps.Mpo(N=K)
    for m, g in enumerate(Gs):
        if K == 1:
            a = g.add_leg(axis=2, s=-1).add_leg(axis=3, s=1)         # k b vl vr
        elif m == 0:
            a = g.add_leg(axis=2, s=-1)                               # k b vl vr
        elif m == K - 1:
            a = g.add_leg(axis=3, s=1)                                # k b vl vr
        else:
            a = g
        op[m] = a.transpose(axes=(2, 0, 3, 1))
    return op


def rand_chain_operator(F, rng, nprng, K, rank=None):
    """Random charge-conserving K-site operator.  rank=None: all allowed elements random (full rank);
    rank=r: sum of r products of random local charge-definite operators whose charges add to zero."""
    d = F.d
    if rank is None:
        return rand_array(nprng, (d,) * (2 * K)) * F.loc.charge_mask(K)
    M = np.zeros((d,) * (2 * K), dtype=np.complex128)
    mask1 = {}
    for _ in range(rank):
        # draw charges n_0..n_{K-2} from the pool, last one closes to zero
        chs = []
        for _m in range(K - 1):
            chs.append(F.loc.diff(rng.randrange(d), rng.randrange(d)) if rng.random() < 0.6 else F.loc.zero)
        chs.append(G.neg(F.sym, G.add(F.sym, chs)) if chs else F.loc.zero)
        locs = []
        ok = True
        for n in chs:
            if n not in mask1:
                mask1[n] = F.loc.charge_mask(1, n)
            if not mask1[n].any():
                ok = False
                break
            locs.append(rand_array(nprng, (d, d)) * mask1[n])
        if not ok:
            continue
        # elementwise (fkron-convention) tensor of the ordered product A_0 A_1 ... in the chain's own order
        term = locs[0]
        for a in locs[1:]:
            term = np.multiply.outer(term, a)
        M = M + term * R.chain_signs(F.loc, K)       # signs^2 = 1: from product coefficients to matrix elements
    if not np.any(M):
        M = rand_array(nprng, (d,) * (2 * K)) * F.loc.charge_mask(K)
    return M


def gate_aux_dims(Gs, npath):
    aux = [g.get_shape(axes=g.ndim - 1) for g in Gs[:-1]]
    if len(Gs) == 2 and npath > 2:
        aux = aux * (npath - 1)
    return aux


def predicted_cost(psi, aux, path):
    """rough size of the largest intermediate of to_tensor() after applying a gate with auxiliary dims ``aux``."""
    bd = dict(psi.get_bond_dimensions())
    for m, (a, b) in enumerate(zip(path[:-1], path[1:])):
        d_ = psi.nn_bond_dirn(a, b)
        key = (a, b) if d_ in ("lr", "tb") else (b, a)
        bd[key] = bd[key] * aux[m]
    return state_cost(psi, bd)


def state_cost(psi, bd=None):
    bd = psi.get_bond_dimensions() if bd is None else bd
    loc_max, phys = 1, 1
    for s in psi.sites():
        p = psi[s].get_shape(axes=4)
        phys *= p
        for k, v in bd.items():
            if s in k:
                p *= v
        loc_max = max(loc_max, p)
    if loc_max > 2 ** 17:
        return 2 ** 40
    Nx, Ny = psi.Nx, psi.Ny
    mh = 1
    for ny in range(Ny - 1):
        p = 1
        for nx in range(Nx):
            p *= bd[((nx, ny), (nx, ny + 1))]
        mh = max(mh, p)
    mv = max([v for k, v in bd.items() if k[0][1] == k[1][1]] + [1])
    return phys * mh * mv * mv
