"""Operand-digest monitor (property C15).

snapshot(obj) builds a nested *tree of digests* of everything observable about an argument
(Tensor: data bytes + struct, slices, hfs, mfs, trans, config; MPS/Peps/env objects: their members;
containers: keys, order, elements).  ImmutMonitor snapshots every argument of every interposed call
before the call and again after return or raise, and reports the first differing path unless the
argument is the documented in-place receiver of that call.
"""
from __future__ import annotations

import functools
import hashlib
import types

import numpy as np

MAX_DEPTH = 7
MAX_BYTES = 8_000_000

# documented in-place API: receiver (first positional argument) may change
INPLACE_NAMES = {"set_block", "__setitem__", "_fill_tensor", "move_to_patch", "apply_patch", "update", "pop", "clear",
                 "__init__"}   # __init__: the receiver is the object under construction


def _is_yastn_obj(x):
    return getattr(type(x), "__module__", "").startswith("yastn")


def _h(b: bytes) -> str:
    return hashlib.sha1(b).hexdigest()[:16]


def snapshot(x, depth=0, seen=None):
    """Nested, comparable description of ``x`` (strings at the leaves)."""
    seen = seen if seen is not None else set()
    if x is None or isinstance(x, (bool, int, float, complex, str, bytes)):
        return repr(x)
    if isinstance(x, np.generic):
        return repr(x.item())
    if isinstance(x, np.ndarray):
        if x.nbytes > MAX_BYTES:
            return ("ndarray-big", x.shape, str(x.dtype))
        return ("ndarray", x.shape, str(x.dtype), _h(np.ascontiguousarray(x).tobytes()))
    if isinstance(x, (types.FunctionType, types.BuiltinFunctionType, types.MethodType, types.ModuleType, type, functools.partial)):
        return ("callable", getattr(x, "__name__", type(x).__name__))
    if depth > MAX_DEPTH or id(x) in seen:
        return ("ref", type(x).__name__)
    tn = type(x).__name__
    if tn == "Tensor" and _is_yastn_obj(x):
        d = x._data
        dd = ("data", getattr(d, "shape", None), str(getattr(d, "dtype", None)),
              _h(np.ascontiguousarray(d).tobytes()) if isinstance(d, np.ndarray) and d.nbytes <= MAX_BYTES else "big")
        cfg = x.config
        return {"__class__": "Tensor", "data": dd, "struct": repr(x.struct), "slices": _h(repr(x.slices).encode()),
                "hfs": _h(repr(x.hfs).encode()), "mfs": repr(x.mfs), "trans": repr(tuple(x.trans)),
                "config": (getattr(cfg.sym, "SYM_ID", "?"), repr(cfg.fermionic), cfg.default_dtype, cfg.default_fusion,
                           repr(cfg.force_fusion), cfg.tensordot_policy)}
    seen = seen | {id(x)}
    if isinstance(x, dict):
        return {"__class__": "dict:" + tn, "order": [repr(k) for k in x.keys()],
                "items": {repr(k): snapshot(v, depth + 1, seen) for k, v in x.items()}}
    if isinstance(x, tuple) and hasattr(x, "_fields"):
        if tn == "_config":
            return ("config", getattr(x.sym, "SYM_ID", "?"), repr(x.fermionic), x.default_fusion, x.tensordot_policy)
        return {"__class__": "nt:" + tn, "items": {f: snapshot(getattr(x, f), depth + 1, seen) for f in x._fields}}
    if isinstance(x, (list, tuple)):
        if len(x) > 512:
            return ("seq-big", tn, len(x))
        return {"__class__": "seq:" + tn, "items": {str(i): snapshot(v, depth + 1, seen) for i, v in enumerate(x)}}
    if isinstance(x, (set, frozenset)):
        return ("set", sorted(repr(v) for v in x))
    if _is_yastn_obj(x):
        if hasattr(x, "__dict__"):
            items = {k: snapshot(v, depth + 1, seen) for k, v in vars(x).items()}
        elif hasattr(x, "__slots__"):
            items = {k: snapshot(getattr(x, k, None), depth + 1, seen) for k in x.__slots__}
        else:
            return ("obj", tn, repr(x)[:80])
        return {"__class__": "obj:" + tn, "items": items}
    if hasattr(x, "__next__") or isinstance(x, types.GeneratorType):
        return ("iterator", tn)
    return ("opaque", tn)




def diff(a, b, path="", memo_ok=False):
    """First differing path between two snapshots, or None.  memo_ok: dict keys may be *added* below
    env-like objects (lazily filled environment caches are not an observable change)."""
    if memo_ok and a == "None":
        return None        # lazily derived member of an environment object filled in on first use (memoisation)
    if type(a) is not type(b):
        return path or "/", f"{_short(a)} -> {_short(b)}"
    if isinstance(a, dict):
        ca, cb = a.get("__class__"), b.get("__class__")
        if ca != cb:
            return path + "/__class__", f"{ca} -> {cb}"
        if ca is not None and "items" in a:
            memo = memo_ok or (ca.startswith("obj:") and _memoising(ca[4:]))
            ia, ib = a["items"], b["items"]
            scratch = SCRATCH_ATTRS.get(ca[4:], ()) if ca.startswith("obj:") else ()
            if scratch:
                ia = {k: v for k, v in ia.items() if k not in scratch}
                ib = {k: v for k, v in ib.items() if k not in scratch}
            if ca.startswith("obj:") and _memoising(ca[4:]):
                # private (underscore) attributes of environment objects are internal working caches, e.g. the boundary MPS
                # that EnvApproximate.bond_metric re-optimises from its previous value as a warm start
                ia = {k: v for k, v in ia.items() if not k.startswith("_")}
                ib = {k: v for k, v in ib.items() if not k.startswith("_")}
            for k in ia:
                if k not in ib:
                    return f"{path}/{k}", "removed"
                r = diff(ia[k], ib[k], f"{path}/{k}", memo)
                if r:
                    return r
            extra = [k for k in ib if k not in ia]
            if extra and not (memo and (ca.startswith("dict:") or ca.startswith("obj:"))):
                return f"{path}/{extra[0]}", "added"
            if ca.startswith("dict:") and not extra and a.get("order") != b.get("order"):
                return path + "/<order>", "key order changed"
            return None
        for k in a:
            if k not in b:
                return f"{path}/{k}", "removed"
            r = diff(a[k], b[k], f"{path}/{k}", memo_ok)
            if r:
                return r
        for k in b:
            if k not in a:
                return f"{path}/{k}", "added"
        return None
    if a != b:
        return path or "/", f"{_short(a)} -> {_short(b)}"
    return None


def _short(x):
    return repr(x)[:120]


def _memoising(clsname):
    return clsname.startswith("Env") or clsname.startswith("_Env") or clsname in MEMO_CLASSES


MEMO_CLASSES = set()
# working attributes that a method (re)sets on entry before every use - never read across calls
# (EnvBoundaryMPS.measure_nsite stores the measured window in self.xrange/self.yrange for _measure_nsite)
SCRATCH_ATTRS = {"EnvBoundaryMPS": ("xrange", "yrange")}


# accumulator arguments: the function's documented purpose is to extend this argument, which it also returns
# (expand_krylov_space "expands the Krylov base" V and its projection H; ctm_conv_corner_spec appends the new
#  corner spectra to ``history`` and returns it)
ACCUMULATORS = {("expand_krylov_space", 5), ("expand_krylov_space", 6), ("expand_krylov_space", "V"), ("expand_krylov_space", "H"),
                ("ctm_conv_corner_spec", 1), ("ctm_conv_corner_spec", "history"),
                # EnvBoundaryMPS.sample_MC_: "proj_env, st1, st2 are updated in place" (docstring)
                ("sample_MC_", 2), ("sample_MC_", 3), ("sample_MC_", "st1"), ("sample_MC_", "st2")}


def is_inplace_receiver(ev):
    """Is args[0] of this call a documented in-place receiver?"""
    short = ev.short
    if short.endswith("_") and not short.endswith("__"):
        return True
    if short in INPLACE_NAMES:
        return True
    return False


class ImmutMonitor:
    def __init__(self, report, max_depth=None):
        self.report = report              # report(key, what, witness)
        self.calls = 0
        self.args_checked = 0
        self.exempt_calls = 0
        self.by_op = {}
        self.max_depth = max_depth
        self.exempt_seen = set()
        self.nonpublic_skipped = 0

    def before(self, ev):
        if not ev.public or (self.max_depth is not None and ev.depth > self.max_depth):
            self.nonpublic_skipped += 1
            return None
        snaps = []
        exempt0 = is_inplace_receiver(ev)
        short = ev.short
        for i, a in enumerate(ev.args):
            if (i == 0 and exempt0) or (short, i) in ACCUMULATORS:
                snaps.append(None)
                continue
            snaps.append(snapshot(a))
        ksn = {k: snapshot(v) for k, v in ev.kwargs.items() if (short, k) not in ACCUMULATORS}
        if exempt0:
            self.exempt_calls += 1
            self.exempt_seen.add(ev.short)
        return (snaps, ksn)

    def after(self, ev, token, result, exc):
        if token is None:
            return
        snaps, ksn = token
        self.calls += 1
        self.by_op[ev.short] = self.by_op.get(ev.short, 0) + 1
        for i, (a, s0) in enumerate(zip(ev.args, snaps)):
            if s0 is None:
                continue
            self.args_checked += 1
            d = diff(s0, snapshot(a))
            if d:
                self._fire(ev, f"arg{i}", a, d, exc)
        for k, s0 in ksn.items():
            self.args_checked += 1
            d = diff(s0, snapshot(ev.kwargs[k]))
            if d:
                self._fire(ev, f"kw:{k}", ev.kwargs[k], d, exc)

    def _fire(self, ev, which, obj, d, exc):
        path, change = d
        key = f"operand-modified:{ev.short}:{type(obj).__name__}"
        self.report(key, f"{ev.name} changed its argument {which} ({type(obj).__name__}) at {path}: {change}"
                    + (f" [call raised {type(exc).__name__}]" if exc is not None else ""),
                    {"call": ev.name, "argument": which, "path": path, "change": change, "depth": ev.depth})
