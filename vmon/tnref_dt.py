"""Dense references and generators for the DMRG / TDVP monitors (C09, C10).

Trusted base: NumPy / SciPy dense linear algebra on vectors of dimension <= 4096 and vmon.groups
(the independent abelian group laws).  Observation functions: ``MpsMpoOBC.to_tensor`` followed by
``Tensor.to_numpy(legs=<full physical legs>)`` (so a state whose physical legs lack some charges is
embedded in the full product basis) and ``Tensor.to_numpy()`` of single site tensors.

The *definition* of a Hamiltonian in C09/C10 is the dense matrix of the MPO that ``generate_mpo``
returned (the MPO generator itself is C07's business); a case is used only if that matrix is
Hermitian and charge conserving.

Conventions (read from yastn/tn/mps/_mps_obc.py and _initialize.py):
  site tensor legs  (0) left virtual s=-1, (1) physical s=+1, (2) right virtual s=+1, tensor charge 0,
  so the charge on bond k (left of site k) is the total charge of sites k..N-1; bond N carries 0 and
  bond 0 carries the total charge n of the state.
"""
from __future__ import annotations

import itertools

import numpy as np

from . import dense as D
from . import groups as G

# ------------------------------------------------------------------ local Hilbert spaces


class Space:
    """One local Hilbert space used on every site of a chain + a pool of charged local operators."""

    def __init__(self, sym, fermionic, cfg, phys, I, pool, family):
        self.sym, self.fermionic, self.cfg, self.family = sym, fermionic, cfg, family
        self.phys = phys                  # HLeg, s=+1
        self.I = I                        # yastn 2-leg identity
        self.pool = pool                  # list of (name, yastn tensor, charge tuple)
        self.d = phys.dim

    def yleg(self):
        return self.phys.to_yastn()

    def desc(self):
        return {"sym": self.sym, "fermionic": self.fermionic, "family": self.family,
                "phys": self.phys.desc(), "pool": [[nm, list(q)] for nm, _, q in self.pool]}


NAMED = {  # family -> (operators class name, symmetries, operator names (callables without arguments))
    "spin12": ("Spin12", ("dense", "Z2", "U1"), ("sp", "sm", "sz")),
    "spin1": ("Spin1", ("dense", "Z3", "U1"), ("sp", "sm", "sz")),
    "spinless": ("SpinlessFermions", ("Z2", "U1"), ("cp", "c", "n")),
    "spinful": ("SpinfulFermions", ("Z2", "U1xU1", "U1xU1xZ2"), ("cpu", "cu", "cpd", "cd", "nu", "nd")),
}
NAMED_BY_SYM = {}
for _f, (_c, _syms, _o) in NAMED.items():
    for _s in _syms:
        NAMED_BY_SYM.setdefault(_s, []).append(_f)

GENERIC_CHARGES = {  # small charge sets for the generic family (negative U(1) charges included)
    "Z2": [(0,), (1,)],
    "Z3": [(0,), (1,), (2,)],
    "U1": [(-1,), (0,), (1,), (2,)],
    "Z2xU1": [(0, 0), (1, 1), (0, 1), (1, 0), (1, -1), (0, 2)],
    "U1xU1": [(0, 0), (0, 1), (1, 0), (1, 1), (-1, 0), (1, -1)],
    "U1xU1xZ2": [(0, 0, 0), (0, 1, 1), (1, 0, 1), (1, 1, 0), (1, 0, 0), (-1, 1, 0)],
}


def hleg_of(yleg, sym):
    """Harness image of a yastn Leg."""
    return D.HLeg(sym, int(yleg.s), [(tuple(int(x) for x in t), int(Dt)) for t, Dt in zip(yleg.t, yleg.D)])


def adjoint(op):
    """Hermitian conjugate of a 2-leg local operator (charge q -> -q)."""
    return op.conj().transpose(axes=(1, 0))


def named_space(sym, family):
    import yastn
    clsname, syms, names = NAMED[family]
    ysym = "dense" if sym == "dense" else sym
    ops = getattr(yastn.operators, clsname)(sym=ysym)
    pool = []
    for nm in names:
        if family == "spinful":
            f, spin = nm[:-1], nm[-1]
            op = getattr(ops, f)(spin=spin)
        else:
            op = getattr(ops, nm)()
        pool.append((nm, op, tuple(int(x) for x in op.n)))
    phys = hleg_of(ops.space(), sym)
    ferm = ops.config.fermionic
    ferm = bool(ferm) if isinstance(ferm, bool) else tuple(bool(x) for x in ferm)
    return Space(sym, ferm, ops.config, phys, ops.I(), pool, family)


def generic_space(rng, nprng, sym, dmax=4, complex_ops=True):
    """Random local space over a small charge set + random local operators of every available charge."""
    import yastn
    if sym == "dense":
        fermionic = False
        phys = D.HLeg(sym, 1, [((), rng.randint(2, min(3, dmax)))])
    else:
        k = len(G.MODULI[sym])
        fermionic = rng.choice((False, True, True) + ((tuple(rng.random() < 0.5 for _ in range(k)),) if k > 1 else ()))
        if isinstance(fermionic, tuple) and not any(fermionic):
            fermionic = False
        if sym == "Z3":
            fermionic = False      # parity is not a function of a Z3 charge ((-1)^t is no character of Z3): no consistent grading
        while True:
            nsec = rng.randint(2, 3)
            ts = rng.sample(GENERIC_CHARGES[sym], min(nsec, len(GENERIC_CHARGES[sym])))
            Ds = [rng.choice((1, 1, 2)) for _ in ts]
            if sum(Ds) <= dmax:
                break
        phys = D.HLeg(sym, 1, list(zip(ts, Ds)))
    cfg = D.make_cfg(sym, fermionic)
    yl = phys.to_yastn()
    I = yastn.eye(cfg, legs=[yl, yl.conj()], isdiag=False)
    # one random operator per available charge difference (so products can be made neutral)
    qs = sorted({G.add(sym, (a, b), (1, -1)) for a in phys.ts for b in phys.ts})
    pool = []
    for q in qs:
        dt = "complex128" if (complex_ops and rng.random() < 0.5) else "float64"
        ht = D.gen_tensor(rng, nprng, sym, legs=[phys, phys.conj()], n=q, dtype=dt, density=1.0)
        if not ht.blocks:
            continue
        pool.append(("r" + "".join(map(str, q)), ht.to_yastn(cfg), tuple(q)))
    return Space(sym, fermionic, cfg, phys, I, pool, "generic")


def draw_space(rng, nprng, sym, dmax=4):
    fams = NAMED_BY_SYM.get(sym, [])
    fams = [f for f in fams if not (f == "spinful" and dmax < 4) and not (f == "spin1" and dmax < 3)]
    if fams and rng.random() < 0.5:
        return named_space(sym, rng.choice(fams))
    return generic_space(rng, nprng, sym, dmax=dmax)


# ------------------------------------------------------------------ random Hermitian Hamiltonians

def _amp(rng, cplx):
    a = rng.uniform(0.2, 1.0) * rng.choice((-1, 1))
    if cplx:
        a = a * np.exp(1j * rng.uniform(0, 2 * np.pi))
        return complex(a)
    return float(a)


def draw_terms(rng, sp, N, cplx=None, nterms=None, max_range=None, max_body=3):
    """List of *Hermitian groups*; each group is a list of (amplitude, positions, names) whose sum is Hermitian.

    A k-body product  a * O1_{i1} ... Ok_{ik}  (total charge zero, distinct sites in arbitrary order,
    any range) is accompanied by its conjugate  conj(a) * Ok^+_{ik} ... O1^+_{i1}.
    """
    cplx = rng.random() < 0.5 if cplx is None else cplx
    # generate_mpo picks the MPO dtype from the *amplitudes* only, so complex operators need complex amplitudes
    force_complex = any(op.yastn_dtype == "complex128" for _, op, _ in sp.pool)
    byq = {}
    for nm, op, q in sp.pool:
        byq.setdefault(q, []).append(nm)
    zero = G.zero(sp.sym)
    nterms = nterms or rng.randint(max(2, N - 1), 2 * N + 1)
    max_range = max_range or N
    groups = []
    tries = 0
    while len(groups) < nterms and tries < 50 * nterms:
        tries += 1
        k = min(N, max_body, rng.choice((1, 2, 2, 2, 3)))
        i0 = rng.randrange(N)
        cand = [j for j in range(N) if abs(j - i0) < max_range]
        if len(cand) < k:
            continue
        sites = [i0] + rng.sample([j for j in cand if j != i0], k - 1)
        rng.shuffle(sites)
        qs, names = [], []
        for _ in range(k - 1):
            q = rng.choice(sorted(byq))
            qs.append(q)
            names.append(rng.choice(byq[q]))
        qlast = G.neg(sp.sym, G.add(sp.sym, qs)) if qs else zero
        if qlast not in byq:
            continue
        names.append(rng.choice(byq[qlast]))
        a = _amp(rng, cplx)
        if force_complex:
            a = complex(a)
        groups.append([(a, tuple(sites), tuple(names), False), (np.conj(a).item(), tuple(reversed(sites)), tuple(reversed(names)), True)])
    return groups


def build_mpo(sp, N, groups, I=None):
    """generate_mpo over the flattened Hermitian groups."""
    import yastn.tn.mps as mps
    ops = {nm: op for nm, op, _ in sp.pool}
    terms = []
    for g in groups:
        for a, sites, names, adj in g:
            tens = [adjoint(ops[nm]) if adj else ops[nm] for nm in names]
            terms.append(mps.Hterm(a, list(sites), tens))
    I = I if I is not None else mps.product_mpo(sp.I, N)
    return mps.generate_mpo(I, terms)


def terms_desc(groups):
    return [[[D_jsonable(a), list(s), list(nm), adj] for a, s, nm, adj in g] for g in groups]


def D_jsonable(a):
    return [a.real, a.imag] if isinstance(a, complex) else a


# ------------------------------------------------------------------ dense images

def mpo_dense(H, sp):
    """Dense (d^N, d^N) matrix of an MPO (row = ket/output index, column = bra/input index), factor included."""
    N = H.N
    yl = sp.yleg()
    legs = {}
    for i in range(N):
        legs[2 * i] = yl
        legs[2 * i + 1] = yl.conj()
    x = H.to_tensor().to_numpy(legs=legs)
    x = x.transpose(tuple(range(0, 2 * N, 2)) + tuple(range(1, 2 * N, 2)))
    dim = sp.d ** N
    return np.ascontiguousarray(x.reshape(dim, dim))


def ham_dense(H, sp):
    """H: MPO or list/tuple of MPOs (a sum)."""
    if isinstance(H, (list, tuple)):
        out = None
        for h in H:
            m = mpo_dense(h, sp)
            out = m if out is None else out + m
        return out
    return mpo_dense(H, sp)


def mps_dense(psi, sp):
    """Dense vector (d^N,) of an MPS in the full product basis, psi.factor included; also the tensor charge."""
    ten = psi.to_tensor()
    n = tuple(int(x) for x in ten.n)
    yl = sp.yleg()
    x = ten.to_numpy(legs={i: yl for i in range(psi.N)})
    return np.ascontiguousarray(x.reshape(-1)), n


def site_charges(sp):
    """Charge of every basis index of one site (ascending charge order = dense order)."""
    out = []
    for t, Dt in sp.phys.sectors:
        out.extend([t] * Dt)
    return out


_SECTOR_CACHE = {}


def basis_charges(sp, N):
    """Total charge of every product basis state (C order, site 0 slowest), by the independent group law."""
    key = (sp.sym, sp.phys.sectors, N)
    if key not in _SECTOR_CACHE:
        sc = site_charges(sp)
        cur = [G.zero(sp.sym)]
        for _ in range(N):
            cur = [G.add(sp.sym, (c, t)) for c in cur for t in sc]
        _SECTOR_CACHE[key] = cur
    return _SECTOR_CACHE[key]


def sector_index(sp, N, n):
    bc = basis_charges(sp, N)
    n = tuple(n)
    return np.array([i for i, c in enumerate(bc) if c == n], dtype=np.int64)


def admissible_charges(sp, N):
    return sorted(set(basis_charges(sp, N)))


def block_counts(sp, N, n):
    """For every bond k=0..N: {bond charge t: (L, R)}; R = #states of sites k..N-1 with charge t,
    L = #states of sites 0..k-1 whose charge completes t to the total charge n."""
    sym, sc = sp.sym, site_charges(sp)
    right = [None] * (N + 1)
    cur = {G.zero(sym): 1}
    right[N] = dict(cur)
    for k in range(N - 1, -1, -1):
        nxt = {}
        for c, m in cur.items():
            for t in sc:
                q = G.add(sym, (c, t))
                nxt[q] = nxt.get(q, 0) + m
        cur = nxt
        right[k] = dict(cur)
    left = [None] * (N + 1)
    cur = {G.zero(sym): 1}
    left[0] = dict(cur)
    for k in range(1, N + 1):
        nxt = {}
        for c, m in cur.items():
            for t in sc:
                q = G.add(sym, (c, t))
                nxt[q] = nxt.get(q, 0) + m
        cur = nxt
        left[k] = dict(cur)
    out = []
    for k in range(N + 1):
        d = {}
        for t, r in right[k].items():
            lt = G.add(sym, (tuple(n), t), (1, -1))     # charge of the left part = n - t
            l = left[k].get(lt, 0)
            if l > 0 and r > 0:
                d[t] = (l, r)
        out.append(d)
    return out


def bond_sectors(psi):
    """Observed {charge: dim} per bond k=0..N: the part shared by the two tensors adjacent to the bond."""
    N = psi.N
    out = []
    for k in range(N + 1):
        dl = dr = None
        if k < N:
            lg = psi[k].get_legs(axes=0)
            dr = {tuple(int(x) for x in t): int(Dt) for t, Dt in zip(lg.t, lg.D)}
        if k > 0:
            lg = psi[k - 1].get_legs(axes=2)
            dl = {tuple(int(x) for x in t): int(Dt) for t, Dt in zip(lg.t, lg.D)}
        if dl is None:
            out.append(dr)
        elif dr is None:
            out.append(dl)
        else:
            out.append({t: min(dl[t], dr[t]) for t in dl if t in dr})
    return out


def is_full_manifold(psi, counts):
    """Every bond sector that can carry weight has dimension >= min(L, R): the MPS manifold is the whole sector."""
    bs = bond_sectors(psi)
    for k, need in enumerate(counts):
        for t, (l, r) in need.items():
            if bs[k].get(t, 0) < min(l, r):
                return False
    return True


def total_bond_dims(psi):
    return tuple(int(x) for x in psi.get_bond_dimensions())


def make_mps(rng, nprng, sp, N, n, mode="full", dtype="float64", frac=None, counts=None):
    """Harness-built MPS of total charge n: random blocks over chosen virtual legs.

    mode 'full' : every bond sector t gets min(L, R)                  (maximal bond dimension)
         'frac' : a random fraction of that (at least the backbone)   (truncated manifold)
         'one'  : bond dimension 1 along a random product-state backbone
    The backbone (bond charges of one random basis state of charge n) is always present, so the state is non-zero.
    """
    import yastn.tn.mps as mps
    counts = counts if counts is not None else block_counts(sp, N, n)
    sym = sp.sym
    idx = sector_index(sp, N, n)
    sc = site_charges(sp)
    b = int(idx[rng.randrange(len(idx))])
    digits = []
    for _ in range(N):
        digits.append(b % sp.d)
        b //= sp.d
    digits.reverse()
    backbone = [None] * (N + 1)
    backbone[N] = G.zero(sym)
    for k in range(N - 1, -1, -1):
        backbone[k] = G.add(sym, (backbone[k + 1], sc[digits[k]]))
    frac = rng.choice((0.3, 0.5, 0.7)) if frac is None else frac
    sectors = []
    for k in range(N + 1):
        sec = {}
        for t, (l, r) in counts[k].items():
            m = min(l, r)
            if mode == "full":
                Dt = m
            elif mode == "one":
                Dt = 0
            else:
                Dt = int(np.floor(frac * m + rng.random()))
                Dt = min(m, Dt)
            if t == backbone[k]:
                Dt = max(Dt, 1)
            if Dt > 0:
                sec[t] = Dt
        sectors.append(sec)
    psi = mps.Mps(N)
    for k in range(N):
        ll = D.HLeg(sym, -1, list(sectors[k].items()))
        lr = D.HLeg(sym, 1, list(sectors[k + 1].items()))
        ht = D.gen_tensor(rng, nprng, sym, legs=[ll, sp.phys, lr], n=G.zero(sym), dtype=dtype, density=1.0)
        psi[k] = ht.to_yastn(sp.cfg)
    return psi


def site_isometry_defect(psi, site0_upto_scale=False):
    """max_n || A_n A_n^+ - 1 ||_max with A_n reshaped (D_left, d*D_right): right-canonical ('first') form.

    Returns (defect over sites 1..N-1 [and site 0 when not upto scale], squared norm of site 0)."""
    worst = 0.0
    c0 = 1.0
    for n in range(psi.N):
        a = psi[n].to_numpy()
        m = a.reshape(a.shape[0], -1)
        g = m @ m.conj().T
        if n == 0:
            c0 = float(np.real(np.trace(g))) / max(1, g.shape[0])
            if site0_upto_scale:
                g = g / c0 if c0 > 0 else g
        err = float(np.max(np.abs(g - np.eye(g.shape[0])))) if g.size else 0.0
        worst = max(worst, err)
    return worst, c0


# ------------------------------------------------------------------ dense propagators

def expm_apply(Hs, psi, u, t):
    """exp(-u t H) psi  in the sector (H dense Hermitian or not)."""
    import scipy.linalg
    return scipy.linalg.expm((-u * t) * Hs) @ psi


def magnus4_propagate(Hfun, psi, u, t0, t1, nsteps):
    """Fine-step 4th-order (Gauss-Legendre) Magnus propagation of  d psi/dt = -u H(t) psi."""
    import scipy.linalg
    h = (t1 - t0) / nsteps
    c1, c2 = 0.5 - np.sqrt(3) / 6, 0.5 + np.sqrt(3) / 6
    t = t0
    for _ in range(nsteps):
        A1 = -u * Hfun(t + c1 * h)
        A2 = -u * Hfun(t + c2 * h)
        Om = 0.5 * h * (A1 + A2) + (np.sqrt(3) * h * h / 12) * (A2 @ A1 - A1 @ A2)
        psi = scipy.linalg.expm(Om) @ psi
        t += h
    return psi


def rel_diff(a, b, upto_scalar=False):
    """|| a - c b || / || b ||  with c = 1, or the best complex scalar c when upto_scalar."""
    nb = float(np.linalg.norm(b))
    if nb == 0:
        return float(np.linalg.norm(a))
    if upto_scalar:
        c = np.vdot(b, a) / np.vdot(b, b)
        return float(np.linalg.norm(a - c * b)) / max(float(np.linalg.norm(a)), 1e-300)
    return float(np.linalg.norm(a - b)) / nb


# ------------------------------------------------------------------ shared case generators (C09, C10)

H_FORMS = ("single", "single", "scaled", "list", "list", "tuple", "added")


def draw_chain(rng, nprng, sym, Nchoices, cap=1100):
    """(space, N, Hermitian term groups); the dense dimension d^N stays <= cap."""
    from .harness import CaseSkip
    N = rng.choice(Nchoices)
    dmax = max(2, int(np.floor(cap ** (1.0 / N) + 1e-9)))
    sp = draw_space(rng, nprng, sym, dmax=min(4, dmax))
    if sp.d ** N > 4096:
        raise CaseSkip
    groups = draw_terms(rng, sp, N)
    if not groups:
        raise CaseSkip
    return sp, N, groups


def build_H(rng, sp, N, groups, form):
    """The Hamiltonian in one of the accepted shapes: MPO, scaled MPO (factor != 1), list/tuple of MPOs
    (one of them possibly scaled), or the MPO sum H1 + H2 (+ H3).  Returns (H, 'single'|'scaled'|'list'|'added')."""
    if form in ("single", "scaled") or len(groups) < 2:
        H = build_mpo(sp, N, groups)
        if form == "scaled":
            H = rng.choice((0.5, -1.5, 2.0)) * H
            return H, "scaled"
        return H, "single"
    k = rng.randint(2, min(3, len(groups)))
    parts = [[] for _ in range(k)]
    for i, g in enumerate(groups):
        parts[i % k].append(g)
    Hs = [build_mpo(sp, N, p) for p in parts]
    if rng.random() < 0.5:
        Hs[0] = rng.choice((0.7, -1.2)) * Hs[0]
    rng.shuffle(Hs)               # the order of a sum is the caller's business: any order must give the same operator
    if form == "added":
        H = Hs[0]
        for h in Hs[1:]:
            H = H + h
        return H, "added"
    return (tuple(Hs) if form == "tuple" else list(Hs)), "list"


def pick_charge(rng, sp, N, pbig=0.85):
    """An admissible total charge, biased towards sectors of dimension >= 2 (all admissible charges are reachable)."""
    adm = admissible_charges(sp, N)
    dims = {n: len(sector_index(sp, N, n)) for n in adm}
    big = [n for n in adm if dims[n] >= 2]
    if big and rng.random() < pbig:
        w = [min(dims[n], 40) for n in big]
        return rng.choices(big, weights=w)[0], dims
    return rng.choice(adm), dims


def hermitian_dense_or_skip(ctx, H, sp, allow_zero=False):
    """Dense image of H; the case is skipped (counted) unless it is a (non-zero, unless allowed) Hermitian matrix."""
    from .harness import CaseSkip
    Hd = ham_dense(H, sp)
    hn = float(np.max(np.abs(Hd))) if Hd.size else 0.0
    if (hn == 0 and not allow_zero) or float(np.max(np.abs(Hd - Hd.conj().T))) > 1e-11 * hn:
        ctx.count("skipped_nonhermitian_or_zero_H")
        raise CaseSkip
    return Hd


class Sector:
    """Dense data of H restricted to one charge sector."""

    def __init__(self, ctx, Hd, sp, N, n):
        from .harness import CaseSkip
        self.sp, self.N, self.n = sp, N, tuple(n)
        self.idx = sector_index(sp, N, n)
        self.dim = Hd.shape[0]
        self.mask_out = np.ones(self.dim, dtype=bool)
        self.mask_out[self.idx] = False
        if self.mask_out.any() and float(np.max(np.abs(Hd[np.ix_(self.idx, np.flatnonzero(self.mask_out))]))) > 0:
            if ctx is not None:
                ctx.count("skipped_charge_changing_H")
            raise CaseSkip
        Hs = Hd[np.ix_(self.idx, self.idx)]
        self.Hs = 0.5 * (Hs + Hs.conj().T)
        self.ev = np.linalg.eigvalsh(self.Hs)
        # scale of H for every *relative* tolerance: the larger of the sector's spectral radius and the largest matrix element of
        # the whole H (round-off of the MPO contractions is relative to the whole operator, also in a sector where H vanishes).
        # No absolute floor: H = 1e-8 * H0 is judged as strictly as H0; for H = 0 every tolerance is 0 (exact zeros expected).
        self.scale = max(float(np.max(np.abs(self.ev))), float(np.max(np.abs(Hd))) if Hd.size else 0.0)

    def energy(self, vs):
        """Rayleigh quotient of a (not necessarily normalised) sector vector."""
        return float(np.real(np.vdot(vs, self.Hs @ vs)) / np.real(np.vdot(vs, vs)))

    def embed(self, vs):
        v = np.zeros(self.dim, dtype=np.result_type(vs.dtype, np.float64))
        v[self.idx] = vs
        return v


# ------------------------------------------------------------------ premise of the projector-splitting exactness property

def completeness(psi, counts):
    """Per inner bond k = 1..N-1: (left_complete, right_complete).

    left_complete : in every charge sector the bond space is as large as the whole left block (the left basis is complete),
    right_complete: the same for the right block.  psi=None evaluates the maximal dimensions min(L, R)."""
    bs = bond_sectors(psi) if psi is not None else None
    out = []
    for k in range(1, len(counts) - 1):
        lc = rc = True
        for t, (l, r) in counts[k].items():
            dk = min(l, r) if bs is None else min(bs[k].get(t, 0), l, r)
            lc = lc and dk >= l
            rc = rc and dk >= r
        out.append((lc, rc))
    return out


def exactness_premise(psi, counts):
    """TDVP's forward/backward projector-splitting sweeps compose to the exact propagator when there is a switch point m
    such that every bond <= m is left-complete and every bond > m is right-complete: then each backward (centre / one-site)
    step is generated by exactly the same projected Hamiltonian as the neighbouring forward step and cancels it, and the one
    update whose two sides are both complete is the full evolution.  Without symmetries maximal bond dimensions always have
    this structure; with symmetries a bond can be left-complete in one charge sector and right-complete in another -- the
    manifold is then still the whole sector, but the splitting is only accurate to its order in dt."""
    comp = completeness(psi, counts)
    nb = len(comp)
    for m in range(nb + 1):
        if all(comp[k][0] for k in range(m)) and all(comp[k][1] for k in range(m, nb)):
            return True
    return False
