"""Explicit Jordan-Wigner reference model for finite PEPS (oracle side of C11 / C12).

Trusted base: NumPy, the independent group law of ``vmon.groups`` and *Leg charges only*.
Nothing here calls swap_gate, fkron, sign_canonical_order, ncon or any PEPS environment.

Conventions (the ones the library documents):

* sites are ordered by the PEPS fermionic order ``geometry.sites()`` (column after column);
* the local basis is the basis of ``ops.space()`` with charges in ascending order (= ``to_numpy`` order);
* a local operator A of charge n acting on site i is   P(n)^{(x) i} (x) A (x) 1^{(x) rest}   with
  P(n) = diag((-1)^{sum_{k fermionic} t_k(state) * n_k});  an operator without fermionic charge has no string;
  operators that mix charges are split into their charge components first;
* a product  O1_{s1} O2_{s2} ...  is the ordinary matrix product in the order written (right-most acts first);
* ancilla legs follow all system legs in the fermionic order, so a system operator never puts a string on them.

States are plain ndarrays; ``sys_axes[i]`` is the array axis of the system leg of fermionic position i
(other axes -- ancillas, spectators -- are left alone).
"""
from __future__ import annotations

import itertools

import numpy as np

from . import groups as G


# ---------------------------------------------------------------------------------------------- local space

class Local:
    """Local Hilbert space read from a Leg (``ops.space()``): charges of the basis states in dense order."""

    def __init__(self, config, leg):
        self.config = config
        self.sym = G.sym_name(config.sym)
        self.fermionic = config.fermionic
        self.fmask = G.fmask(self.sym, self.fermionic)
        self.leg = leg
        sectors = sorted((tuple(int(x) for x in t), int(D)) for t, D in zip(leg.t, leg.D))
        self.sectors = tuple(sectors)
        self.charges = tuple(t for t, D in sectors for _ in range(D))
        self.d = len(self.charges)
        self.zero = G.zero(self.sym)
        self.any_fermionic = any(self.fmask) and self.sym != "dense"

    @classmethod
    def from_ops(cls, ops):
        return cls(ops.config, ops.space())

    # -- observation of local objects (dense local matrices over the full local space)
    def mat(self, op):
        """d x d matrix of a rank-2 yastn operator with legs (ket, bra)."""
        return np.asarray(op.to_numpy(legs={0: self.leg, 1: self.leg.conj()}))

    def vec(self, v):
        return np.asarray(v.to_numpy(legs={0: self.leg}))

    # -- charges
    def diff(self, k, b):
        """charge carried by the matrix unit |k><b|."""
        return G.add(self.sym, (self.charges[k], self.charges[b]), (1, -1))

    def string(self, n):
        """diag of P(n): sign seen on an earlier site by an operator of charge n (None if trivial)."""
        if not self.any_fermionic:
            return None
        s = np.array([1 - 2 * (sum(t[c] * n[c] for c in range(len(n)) if self.fmask[c]) % 2) for t in self.charges],
                     dtype=np.float64)
        return None if np.all(s == 1) else s

    def components(self, A):
        """Split a local matrix into charge components {n: A_n} (zero components dropped)."""
        A = np.asarray(A)
        out = {}
        for k, b in zip(*np.nonzero(A)):
            n = self.diff(int(k), int(b))
            if n not in out:
                out[n] = np.zeros_like(A)
            out[n][k, b] = A[k, b]
        return out

    def charge_mask(self, nlegs_pairs, n=None):
        """Boolean array over (k0,b0,k1,b1,...) true where sum t(k)-t(b) equals n (default zero)."""
        n = self.zero if n is None else tuple(n)
        shape = (self.d,) * (2 * nlegs_pairs)
        mask = np.zeros(shape, dtype=bool)
        for idx in itertools.product(range(self.d), repeat=2 * nlegs_pairs):
            ch = [self.charges[i] for i in idx]
            sg = [1, -1] * nlegs_pairs
            if G.add(self.sym, ch, sg) == n:
                mask[idx] = True
        return mask

    def parity_exponent_vectors(self):
        """For every fermionic charge component an integer vector over local states."""
        return [np.array([t[c] for t in self.charges], dtype=np.int64) for c in range(len(self.fmask)) if self.fmask[c]]


# ---------------------------------------------------------------------------------------------- acting on states

def _mul_axis(psi, vec, ax):
    shp = [1] * psi.ndim
    shp[ax] = len(vec)
    return psi * vec.reshape(shp)


def apply_local(loc, psi, A, pos, sys_axes):
    """A_{pos} |psi>   with the Jordan-Wigner string on all system legs of earlier fermionic positions."""
    out = None
    for n, An in loc.components(A).items():
        phi = psi
        s = loc.string(n)
        if s is not None:
            for m in range(pos):
                phi = _mul_axis(phi, s, sys_axes[m])
        ax = sys_axes[pos]
        phi = np.moveaxis(np.tensordot(An, phi, axes=(1, ax)), 0, ax)
        out = phi if out is None else out + phi
    if out is None:
        out = np.zeros(psi.shape, dtype=np.result_type(psi.dtype, np.asarray(A).dtype))
    return out


def apply_product(loc, psi, terms, sys_axes):
    """(O1_{p1} O2_{p2} ... Ok_{pk}) |psi>,  terms = [(O1, p1), ..., (Ok, pk)]  (ordinary product, Ok acts first)."""
    for A, pos in reversed(list(terms)):
        psi = apply_local(loc, psi, A, pos, sys_axes)
    return psi


def vdot(a, b):
    return np.vdot(np.asarray(a).ravel(), np.asarray(b).ravel())


def expect(loc, psi, terms, sys_axes):
    """<psi| O1_{p1} ... Ok_{pk} |psi> / <psi|psi>."""
    return vdot(psi, apply_product(loc, psi, terms, sys_axes)) / vdot(psi, psi)


def chain_signs(loc, K):
    """sign[k0,b0,...,k_{K-1},b_{K-1}] converting matrix elements <k|O|b> of a K-site operator, written in its own
    linear Jordan-Wigner order, into the coefficients of the ordered products E_{k0 b0}(0) E_{k1 b1}(1) ... :
    prod_{m<l} (-1)^{ t(b_m) . (t(k_l) - t(b_l)) }   (fermionic components only)."""
    shape = (loc.d,) * (2 * K)
    if not loc.any_fermionic or K < 2:
        return np.ones(shape)
    expo = np.zeros(shape, dtype=np.int64)
    for tc in loc.parity_exponent_vectors():
        def on(axis):
            shp = [1] * (2 * K)
            shp[axis] = loc.d
            return tc.reshape(shp)
        for m in range(K):
            for l in range(m + 1, K):
                expo = expo + on(2 * m + 1) * (on(2 * l) - on(2 * l + 1))
    return 1.0 - 2.0 * (expo % 2)


def apply_chain(loc, psi, M, positions, sys_axes):
    """Apply a K-site operator given by its matrix elements M[k0,b0,k1,b1,...] in *its own* linear fermionic order
    (chain site 0 first) to the PEPS sites of fermionic positions ``positions`` (any order, all distinct).

    O = sum M[k,b] |k><b| = sum Mhat[k,b] E_{k0 b0}(p0) ... E_{kK-1 bK-1}(pK-1); every matrix unit is then applied
    with its own string in the PEPS order."""
    K = len(positions)
    M = np.asarray(M)
    assert M.shape == (loc.d,) * (2 * K) and len(set(positions)) == K
    Mhat = M * chain_signs(loc, K)

    def rec(phi, Mh, k):
        # Mh has legs (k0,b0,...,k_k,b_k); applies sum Mh E(p0)...E(pk) to phi
        if k == 0:
            return apply_local(loc, phi, Mh, positions[0], sys_axes)
        out = None
        for kk in range(loc.d):
            for bb in range(loc.d):
                sub = Mh[..., kk, bb]
                if not np.any(sub):
                    continue
                E = np.zeros((loc.d, loc.d))
                E[kk, bb] = 1.0
                chi = apply_local(loc, phi, E, positions[k], sys_axes)
                res = rec(chi, sub, k - 1)
                out = res if out is None else out + res
        if out is None:
            out = np.zeros(phi.shape, dtype=np.result_type(phi.dtype, Mh.dtype))
        return out

    return rec(psi, Mhat, K - 1)


def full_matrix(loc, N, terms):
    """Dense d^N x d^N matrix of the product O1_{p1}...Ok_{pk} on N sites (small N only)."""
    dim = loc.d ** N
    psi = np.eye(dim).reshape((loc.d,) * N + (dim,))
    out = apply_product(loc, psi, terms, list(range(N)))
    return out.reshape(dim, dim)


def chain_matrix(M):
    """(k0,b0,k1,b1,...) -> matrix [(k0 k1 ...), (b0 b1 ...)]."""
    K = M.ndim // 2
    d = M.shape[0]
    return np.transpose(M, tuple(range(0, 2 * K, 2)) + tuple(range(1, 2 * K, 2))).reshape(d ** K, d ** K)


def matrix_chain(Mat, d, K):
    """inverse of chain_matrix."""
    T = np.asarray(Mat).reshape((d,) * (2 * K))
    perm = [0] * (2 * K)
    for m in range(K):
        perm[2 * m] = m
        perm[2 * m + 1] = K + m
    return np.transpose(T, perm)


# --- independent second model (used only to self-test the string model): reorder sites, act without strings

def reorder_sign(loc, N, order):
    """sign[s_0..s_{N-1}] picked up when the fermionic order (0..N-1) is changed to ``order`` (a permutation;
    order[j] = old position now at place j): product over inverted pairs of (-1)^{t_a . t_b}."""
    shape = (loc.d,) * N
    if not loc.any_fermionic:
        return np.ones(shape)
    place = {old: j for j, old in enumerate(order)}
    expo = np.zeros(shape, dtype=np.int64)
    for tc in loc.parity_exponent_vectors():
        def on(axis):
            shp = [1] * N
            shp[axis] = loc.d
            return tc.reshape(shp)
        for a in range(N):
            for b in range(a + 1, N):
                if place[a] > place[b]:
                    expo = expo + on(a) * on(b)
    return 1.0 - 2.0 * (expo % 2)


def apply_chain_by_reordering(loc, psi, M, positions, N):
    """Same operator as apply_chain for a pure N-site state (axes = positions), via a change of fermionic order:
    move the chain sites to the front (in chain order), act with the plain matrix, move back."""
    K = len(positions)
    rest = [p for p in range(N) if p not in positions]
    order = list(positions) + rest
    sg = reorder_sign(loc, N, order)
    phi = np.transpose(psi * sg, order)                # axes now in the new fermionic order
    Mat = chain_matrix(np.asarray(M))
    phi = (Mat @ phi.reshape(loc.d ** K, -1)).reshape((loc.d,) * N)
    inv = [order.index(p) for p in range(N)]
    return np.transpose(phi, inv) * sg


# ---------------------------------------------------------------------------------------------- yastn -> dense helpers

def union_leg(la, lb):
    import yastn
    return yastn.legs_union(la, lb)


def gate_chain_dense(loc, Gs):
    """Dense M[k0,b0,k1,b1,...] of a gate given as a list of tensors with legs (ket, bra[, virt_left][, virt_right]):
    plain contraction of the block data over the connecting legs (no signs)."""
    Gs = list(Gs)
    K = len(Gs)
    ph = {0: loc.leg, 1: loc.leg.conj()}
    if K == 1:
        return np.asarray(Gs[0].to_numpy(legs=ph))
    # bond legs: union of the two descriptions so that both tensors are embedded identically
    bonds = []
    for m in range(K - 1):
        lr = Gs[m].get_legs(axes=Gs[m].ndim - 1)
        ll = Gs[m + 1].get_legs(axes=2)
        bonds.append(union_leg(lr, ll.conj()))
    arrs = []
    for m, g in enumerate(Gs):
        legs = dict(ph)
        if m == 0:
            legs[2] = bonds[0]
        elif m == K - 1:
            legs[2] = bonds[m - 1].conj()
        else:
            legs[2] = bonds[m - 1].conj()
            legs[3] = bonds[m]
        arrs.append(np.asarray(g.to_numpy(legs=legs)))
    out = arrs[0]                                     # k0 b0 v
    for m in range(1, K):
        a = arrs[m]                                   # k b vl [vr]
        out = np.tensordot(out, a, axes=(out.ndim - 1, 2))
        # legs: ... k b [vr]  (vr last if present) -- tensordot puts remaining legs of a in order k b [vr]
    return out


def mpo_chain_dense(loc, op):
    """Dense M[k0,b0,...] of a yastn MPO (tensor legs: left virtual, ket, right virtual, bra) incl. its factor."""
    N = op.N
    tens = [op[n] for n in range(N)]
    bonds = []
    for n in range(N - 1):
        bonds.append(union_leg(tens[n].get_legs(axes=2), tens[n + 1].get_legs(axes=0).conj()))
    out = None
    for n, a in enumerate(tens):
        legs = {1: loc.leg, 3: loc.leg.conj()}
        if n > 0:
            legs[0] = bonds[n - 1].conj()
        if n < N - 1:
            legs[2] = bonds[n]
        x = np.asarray(a.to_numpy(legs=legs))          # vl k vr b
        x = np.transpose(x, (0, 1, 3, 2))              # vl k b vr
        if out is None:
            if x.shape[0] != 1:
                raise ValueError("MPO with open left virtual leg of dimension > 1")
            out = x[0]                                 # k b vr
        else:
            out = np.tensordot(out, x, axes=(out.ndim - 1, 0))
    if out.shape[-1] != 1:
        raise ValueError("MPO with open right virtual leg of dimension > 1")
    return out[..., 0] * op.factor


def from_dense(config, arr, legs, n=None):
    """yastn tensor holding the charge-allowed blocks of a dense array over given yastn legs (public constructor +
    set_block only).  Elements outside allowed blocks must be zero (checked)."""
    import yastn
    sym = G.sym_name(config.sym)
    n = G.zero(sym) if n is None else tuple(n)
    arr = np.asarray(arr)
    a = yastn.Tensor(config=config, s=tuple(l.s for l in legs), n=n if len(n) else None,
                     dtype="complex128" if np.iscomplexobj(arr) else "float64")
    offs = []
    for l in legs:
        o, lo = {}, 0
        for t, D in sorted(zip((tuple(int(x) for x in t) for t in l.t), l.D)):
            o[t] = (lo, lo + D)
            lo += D
        offs.append(o)
    sig = tuple(l.s for l in legs)
    covered = np.zeros(arr.shape, dtype=bool)
    for key in itertools.product(*(sorted(o) for o in offs)):
        if G.add(sym, key, sig) != n:
            continue
        sl = tuple(slice(*o[t]) for o, t in zip(offs, key))
        blk = arr[sl]
        covered[sl] = True
        if np.any(blk):
            a.set_block(ts=tuple(x for t in key for x in t), Ds=blk.shape, val=np.array(blk))
    if np.any(arr[~covered]):
        raise ValueError("from_dense: array has elements outside the charge-allowed blocks")
    return a


# ---------------------------------------------------------------------------------------------- PEPS observation

class PepsFrame:
    """Fixed dense frame of a finite PEPS: per site the full system leg and the (never changing) ancilla leg.

    dense(psi) = psi.to_tensor().to_numpy(legs=frame)  with axes (s0, a0, s1, a1, ...) or (s0, s1, ...)
    in the PEPS fermionic order."""

    def __init__(self, loc, psi):
        self.loc = loc
        self.geometry = psi.geometry
        self.sites = list(psi.sites())
        self.N = len(self.sites)
        self.pos = {s: i for i, s in enumerate(self.sites)}
        self.anc = []
        fused = None
        for s in self.sites:
            leg = psi[s].get_legs(axes=4)
            f = leg.is_fused()
            if fused is None:
                fused = f
            if f != fused:
                raise ValueError("mixed fused / unfused physical legs")
            if f:
                _, la = leg.unfuse_leg()
                self.anc.append(la)
        self.has_anc = bool(fused)
        if self.has_anc:
            self.sys_axes = [2 * i for i in range(self.N)]
            self.anc_axes = [2 * i + 1 for i in range(self.N)]
        else:
            self.sys_axes = list(range(self.N))
            self.anc_axes = []

    def legs(self):
        out = {}
        for i in range(self.N):
            if self.has_anc:
                out[2 * i] = self.loc.leg
                out[2 * i + 1] = self.anc[i]
            else:
                out[i] = self.loc.leg
        return out

    def dense(self, psi):
        t = psi.to_tensor()
        want = 2 * self.N if self.has_anc else self.N
        if t.ndim != want:
            raise ValueError(f"to_tensor() returned {t.ndim} legs, expected {want}")
        return np.asarray(t.to_numpy(legs=self.legs()))

    def position(self, site):
        return self.pos[tuple(site)]


def kron_product(mats):
    """Outer product of local arrays (vectors -> axes s0 s1 ...; matrices [s,a] -> axes s0 a0 s1 a1 ...)."""
    out = np.ones(())
    for m in mats:
        out = np.multiply.outer(out, np.asarray(m))
    return out


def selftest(loc, nprng, N=3, K=2):
    """String model vs reordering model on a random operator / random positions: max abs difference."""
    psi = nprng.standard_normal((loc.d,) * N) + 1j * nprng.standard_normal((loc.d,) * N)
    M = nprng.standard_normal((loc.d,) * (2 * K))
    pos = list(nprng.permutation(N)[:K])
    a = apply_chain(loc, psi, M, [int(p) for p in pos], list(range(N)))
    b = apply_chain_by_reordering(loc, psi, M, [int(p) for p in pos], N)
    return float(np.max(np.abs(a - b))), float(np.max(np.abs(a)))
