"""Independent abelian group laws (python ints only; never calls yastn.sym.*.fuse)."""
from __future__ import annotations

MODULI = {
    "dense": (),
    "Z2": (2,),
    "Z3": (3,),
    "U1": (0,),
    "Z2xU1": (2, 0),
    "U1xU1": (0, 0),
    "U1xU1xZ2": (0, 0, 2),
}
ALL_SYMS = tuple(MODULI)


def sym_module(name):
    """The yastn symmetry class for a harness symmetry name."""
    import yastn.sym as ys
    return {"dense": ys.sym_none, "Z2": ys.sym_Z2, "Z3": ys.sym_Z3, "U1": ys.sym_U1, "Z2xU1": ys.sym_Z2xU1,
            "U1xU1": ys.sym_U1xU1, "U1xU1xZ2": ys.sym_U1xU1xZ2}[name]


def sym_name(sym) -> str:
    sid = getattr(sym, "SYM_ID", None)
    if sid is None and hasattr(sym, "sym"):
        sid = sym.sym.SYM_ID
    return {"dense": "dense", "none": "dense"}.get(sid, sid)


def nsym(name) -> int:
    return len(MODULI[name])


def canon(name, t):
    return tuple((int(x) % m) if m else int(x) for x, m in zip(t, MODULI[name]))


def is_canon(name, t) -> bool:
    t = tuple(t)
    return len(t) == len(MODULI[name]) and all(isinstance(x, int) for x in t) and canon(name, t) == t


def add(name, charges, signs=None, new_sign=1):
    """new_sign * sum_i signs[i]*charges[i]   in the group."""
    mod = MODULI[name]
    if signs is None:
        signs = (1,) * len(charges)
    acc = [0] * len(mod)
    for t, s in zip(charges, signs):
        for k in range(len(mod)):
            acc[k] += s * t[k]
    return canon(name, tuple(new_sign * x for x in acc))


def neg(name, t):
    return canon(name, tuple(-x for x in t))


def zero(name):
    return (0,) * len(MODULI[name])


def fmask(name, fermionic):
    """Which charge components are fermionic, as a tuple of bools."""
    k = len(MODULI[name])
    if fermionic is True:
        return (True,) * k
    if not fermionic:
        return (False,) * k
    return tuple(bool(x) for x in fermionic)


def parity(name, t, fermionic) -> int:
    """(-1)^{...} exponent:  sum over fermionic components of t_k  mod 2."""
    return sum(x for x, f in zip(t, fmask(name, fermionic)) if f) % 2


def swap_sign(name, t1, t2, fermionic) -> int:
    """Sign picked up when two objects of charges t1, t2 are exchanged."""
    p = sum(a * b for a, b, f in zip(t1, t2, fmask(name, fermionic)) if f) % 2
    return 1 - 2 * p
