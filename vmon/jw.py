"""Explicit Jordan-Wigner reference model for ANY yastn operator class / config (NumPy only).

Convention (the one yastn documents; DESIGN.md 2.2)
---------------------------------------------------
* A site's local basis = the states of its space Leg (``ops.space()``), charge sectors in ascending charge order,
  ``D`` states per sector -- exactly the order ``to_numpy(legs=...)`` uses.  Every basis state carries a charge tuple.
* An on-site operator ``O`` (signature (1,-1)) of charge ``n`` acting on site ``s`` is represented on the whole
  system by

        JW(O_s) = ( prod over sites r EARLIER than s in the fermionic order of  P_r(n) )  (x)  O_s  (x)  identities,
        P_r(n)  = diag( (-1) ** sum_{k in fermionic components} t_k(state) * n_k )        over the states of site r.

  The string depends on the OPERATOR's charge: even operators (n, Sz, Sp ...) carry no string; for
  ``fermionic=False`` there are no strings at all; per-component flags such as (False, False, True) are honoured.
* A product written  O1_{s1} O2_{s2} ...  is the ordinary matrix product  JW(O1_{s1}) @ JW(O2_{s2}) @ ...  in the
  order written (the last factor acts first on a ket); sites may repeat and come in any order.
* Two orders are independent parameters: ``labels`` = tensor-product order of the dense space (slowest index first),
  ``f_order`` = the same labels listed in fermionic order (first = earliest).  Default: both equal.

Nothing here calls swap_gate, fkron, sign_canonical_order, ncon or any environment: only ``Leg.t / Leg.D``,
``Tensor.n``, ``config.fermionic`` and ``to_numpy`` of on-site operators / states are read from yastn.

API (small on purpose; PEPS checks reuse it with labels = lattice sites)
------------------------------------------------------------------------
state_charges(leg)                      list of charge tuples, one per basis state, in to_numpy order
string_diag(charges, n, sym, fermionic) 1-D array of +-1 : diagonal of P(n) on a site whose states carry ``charges``
local(op, leg)                          -> (d x d ndarray, charge tuple) of a rank-2 yastn operator over ``leg``
local_vec(vec, leg)                     -> 1-D ndarray of a rank-1 yastn vector over ``leg``
Model(spaces, sym, fermionic, labels=None, f_order=None)
    spaces: per site (tensor order) list of state charges;  .N .dims .dim .labels
    Model.from_legs(legs, config, labels=None, f_order=None) / Model.from_ops(ops, N, f_order=None)
    .string(site, n)                    +-1 diagonal of P(n) on one site
    .embed(mat, n, site)                dense dim x dim matrix of JW(O_site)   (Kronecker product, for small dim)
    .product(factors)                   dense matrix of O1_{s1} O2_{s2} ... ; factors = [(mat, n, site), ...]
    .sum_terms(terms)                   sum_i amp_i * product(factors_i) ;  terms = [(amp, factors), ...]
    .apply(factors, vec)                (O1_{s1} O2_{s2} ...) |vec> , vec of shape (dim,) or a batch (dim, m);
                                        never builds a dim x dim matrix (product() = apply on the identity)
    .expect(bra, factors, ket)          <bra| O1_{s1} O2_{s2} ... |ket>   (bra is conjugated here)
    .total_charge(factors)              group sum of the factors' charges
    .f_order_from_map(f_map)            staticmethod: yastn's f_map (site -> position) -> list of sites in fermionic order
mps_vector(psi, legs)                   dense state vector of an MPS (to_tensor -> to_numpy over the physical legs)
mpo_matrix(O, legs)                     dense matrix of an MPO      (rows = ket/output legs, columns = input legs)
tensor_matrix(ten, legs)                dense matrix of a rank-2k tensor with leg order (out0, in0, out1, in1, ...)
"""
from __future__ import annotations

import numpy as np

from . import groups as G


# ------------------------------------------------------------------ local data read from yastn objects

def state_charges(leg):
    """Charge tuple of every basis state of a yastn Leg, ascending charge order (the order to_numpy uses)."""
    pairs = sorted(zip((tuple(int(x) for x in t) for t in leg.t), (int(D) for D in leg.D)))
    out = []
    for t, D in pairs:
        out.extend([t] * D)
    return out


def string_diag(charges, n, sym, fermionic):
    """diag of P(n): (-1)^{sum over fermionic components k of t_k * n_k} for each state charge t."""
    mask = G.fmask(sym, fermionic)
    n = tuple(int(x) for x in n)
    out = np.ones(len(charges))
    for i, t in enumerate(charges):
        if sum(tk * nk for tk, nk, f in zip(t, n, mask) if f) % 2:
            out[i] = -1.0
    return out


def _leg_for(leg, s):
    return leg if int(leg.s) == int(s) else leg.conj()


def local(op, leg):
    """Dense matrix (rows = leg 0, columns = leg 1) and charge of a rank-2 yastn operator over the space ``leg``."""
    sig = op.get_signature()
    mat = op.to_numpy(legs={0: _leg_for(leg, sig[0]), 1: _leg_for(leg, sig[1])})
    return np.asarray(mat), tuple(int(x) for x in op.n)


def local_vec(vec, leg):
    sig = vec.get_signature()
    return np.asarray(vec.to_numpy(legs={0: _leg_for(leg, sig[0])}))


# ------------------------------------------------------------------ the model

class Model:
    def __init__(self, spaces, sym, fermionic, labels=None, f_order=None):
        self.spaces = [list(map(tuple, sp)) for sp in spaces]
        self.sym, self.fermionic = sym, fermionic
        self.N = len(self.spaces)
        self.dims = tuple(len(sp) for sp in self.spaces)
        self.dim = int(np.prod(self.dims)) if self.dims else 1
        self.labels = list(range(self.N)) if labels is None else list(labels)
        assert len(self.labels) == self.N and len(set(self.labels)) == self.N
        self.axis = {lab: i for i, lab in enumerate(self.labels)}
        f_order = self.labels if f_order is None else list(f_order)
        assert sorted(map(repr, f_order)) == sorted(map(repr, self.labels)), "f_order must be a permutation of labels"
        self.fpos = {lab: i for i, lab in enumerate(f_order)}
        self.has_strings = any(G.fmask(sym, fermionic))

    # -- constructors -------------------------------------------------
    @classmethod
    def from_legs(cls, legs, config, labels=None, f_order=None):
        return cls([state_charges(l) for l in legs], G.sym_name(config.sym), config.fermionic, labels, f_order)

    @classmethod
    def from_ops(cls, ops, N, f_order=None):
        return cls.from_legs([ops.space()] * N, ops.config, None, f_order)

    @staticmethod
    def f_order_from_map(f_map):
        """yastn's f_map[site] = position in the fermionic order  ->  list of sites in fermionic order."""
        return [s for s, _ in sorted(enumerate(f_map), key=lambda x: x[1])]

    # -- pieces -------------------------------------------------------
    def string(self, site, n):
        """+-1 diagonal of P(n) on ``site``."""
        return string_diag(self.spaces[self.axis[site]], n, self.sym, self.fermionic)

    def total_charge(self, factors):
        return G.add(self.sym, [tuple(n) for _, n, _ in factors]) if factors else G.zero(self.sym)

    def embed(self, mat, n, site):
        """Dense matrix of JW(O_site): strings P(n) on fermionically earlier sites, identity elsewhere."""
        pos = self.fpos[site]
        out = np.ones((1, 1), dtype=np.result_type(np.asarray(mat).dtype, np.float64))
        for lab in self.labels:
            if lab == site:
                f = np.asarray(mat)
            elif self.has_strings and self.fpos[lab] < pos:
                f = np.diag(self.string(lab, n))
            else:
                f = np.eye(self.dims[self.axis[lab]])
            out = np.kron(out, f)
        return out

    def product(self, factors):
        """Matrix of O1_{s1} O2_{s2} ... (ordinary matrix product in the order written); built column-wise by
        ``apply`` on the identity, which equals the product of the ``embed`` matrices (checked by C07's canary)."""
        return self.apply(factors, np.eye(self.dim))

    def sum_terms(self, terms):
        dt = np.result_type(np.float64, *[np.asarray(a).dtype for a, _ in terms],
                            *[np.asarray(m).dtype for _, fs in terms for m, _, _ in fs])
        out = np.zeros((self.dim, self.dim), dtype=dt)
        for amp, factors in terms:
            out = out + amp * self.product(factors)
        return out

    def apply(self, factors, vec):
        """(O1_{s1} O2_{s2} ...)|vec> ; vec of shape (dim,) or a batch (dim, m); the last factor acts first."""
        vec = np.asarray(vec)
        batch = vec.shape[1:] if vec.ndim > 1 and vec.shape[0] == self.dim else ()
        v = vec.reshape(self.dims + (-1,))
        for mat, n, site in reversed(list(factors)):
            ax = self.axis[site]
            v = np.moveaxis(np.tensordot(np.asarray(mat), v, axes=(1, ax)), 0, ax)
            if self.has_strings:
                pos = self.fpos[site]
                for lab in self.labels:
                    if self.fpos[lab] < pos:
                        d = self.string(lab, n)
                        if np.any(d < 0):
                            shp = [1] * (self.N + 1)
                            shp[self.axis[lab]] = -1
                            v = v * d.reshape(shp)
        return v.reshape((self.dim,) + batch)

    def expect(self, bra, factors, ket):
        return np.vdot(np.asarray(bra).reshape(-1), self.apply(factors, ket))


# ------------------------------------------------------------------ dense images of yastn MPS / MPO / tensors

def mps_vector(psi, legs):
    """Dense vector of an MPS over the physical ``legs`` (one yastn Leg per site, e.g. ops.space())."""
    ten = psi.to_tensor()
    sig = ten.get_signature()
    arr = ten.to_numpy(legs={i: _leg_for(l, sig[i]) for i, l in enumerate(legs)})
    return np.asarray(arr).reshape(-1)


def tensor_matrix(ten, legs):
    """Dense matrix of a rank-2k tensor with legs (out0, in0, out1, in1, ...) over the spaces ``legs`` (k of them)."""
    k = len(legs)
    sig = ten.get_signature()
    lg = {}
    for i, l in enumerate(legs):
        lg[2 * i] = _leg_for(l, sig[2 * i])
        lg[2 * i + 1] = _leg_for(l, sig[2 * i + 1])
    arr = np.asarray(ten.to_numpy(legs=lg))
    arr = arr.transpose(tuple(range(0, 2 * k, 2)) + tuple(range(1, 2 * k, 2)))
    D = int(np.prod(arr.shape[:k]))
    return arr.reshape(D, D)


def mpo_matrix(O, legs):
    """Dense matrix of an MPO: rows = ket (output) legs, columns = input legs, site 0 slowest."""
    return tensor_matrix(O.to_tensor(), legs)
