"""Dense reference model for MPS / MPO objects (used by C06 and C08).

Local spaces   : Local(name, sym) wraps one yastn.operators class; ``SPACES`` lists every (class, symmetry) pair.
Harness states : HChain = list of harness site tensors (vmon.dense.HTensor) over harness-chosen bond legs.  Its dense
                 vector / matrix is contracted by the harness from the *same blocks* that are pushed through
                 ``Tensor.set_block`` -- no yastn accessor is involved in that truth.
Observations   : three independent read-outs of a yastn MpsMpoOBC / MpoPBC
                 (a) obs_tensor : to_tensor() -> to_numpy(legs=full physical legs) -> NumPy reshape
                 (b) obs_sites  : every site tensor (and the central block) -> to_numpy(bond legs embedded in the union of
                                  the two neighbours' legs) -> NumPy contraction written here
                 (c) obs_matrix : to_matrix() -> native to_numpy() -> scattered into the full space with a permutation
                                  computed from an independent model of leg fusion (groups.py)
                 ``observe`` runs (a) and cross-validates it against (b) [arithmetic tolerance] and (c) [bit-exact].
Dense algebra  : reverse_dense, cut_matrix, sector_spectra (Schmidt spectra per charge sector of the left block).

Conventions: dense vector index = row-major over sites (k0, k1, ...); dense matrix = (kets..., bras...); the local
basis is ordered by ascending charge (yastn's to_numpy order); conjugated objects (physical signature -1) use the
same labelling, so conj() is element-wise complex conjugation of the dense image.
"""
from __future__ import annotations

import itertools

import numpy as np

from . import dense as D
from . import groups as G
from .harness import CaseSkip

EPS = 2.3e-16

SPACES = (
    ("Spin12", "dense"), ("Spin12", "Z2"), ("Spin12", "U1"),
    ("Spin1", "dense"), ("Spin1", "Z3"), ("Spin1", "U1"),
    ("SpinlessFermions", "Z2"), ("SpinlessFermions", "U1"),
    ("SpinfulFermions", "Z2"), ("SpinfulFermions", "U1"), ("SpinfulFermions", "U1xU1"), ("SpinfulFermions", "U1xU1xZ2"),
    ("SpinfulFermions_tJ", "Z2"), ("SpinfulFermions_tJ", "U1"), ("SpinfulFermions_tJ", "U1xU1"),
    ("SpinfulFermions_tJ", "U1xU1xZ2"),
    ("Qdit2", "dense"), ("Qdit3", "dense"), ("Qdit4", "dense"),
)

_LOCALS = {}


class Local:
    """One local Hilbert space: operator class instance, config, full physical leg (yastn and harness side)."""

    def __init__(self, name, sym):
        import yastn.operators as yo
        self.name, self.sym = name, sym
        if name.startswith("Qdit"):
            self.ops = yo.Qdit(d=int(name[4:]))
        else:
            self.ops = getattr(yo, name)(sym=sym)
        self.cfg = self.ops.config
        sp = self.ops.space()
        self.hspace = D.HLeg(sym, 1, [(tuple(t), int(d)) for t, d in zip(sp.t, sp.D)])
        self.d = self.hspace.dim
        self.charges = self.hspace.ts
        self.fermionic = self.cfg.fermionic
        self._yleg = {1: sp, -1: sp.conj()}
        # charge of every local basis state, ascending-charge order (as integer array  d x nsym)
        rows = []
        for t, dd in self.hspace.sectors:
            rows += [t] * dd
        self.basis_charges = np.array(rows, dtype=np.int64).reshape(self.d, G.nsym(sym))

    def yleg(self, s):
        return self._yleg[int(s)]

    def hleg(self, s):
        return self.hspace if s == 1 else self.hspace.conj()

    def tag(self):
        return f"{self.name}/{self.sym}"


def local(name, sym) -> Local:
    key = (name, sym)
    if key not in _LOCALS:
        _LOCALS[key] = Local(name, sym)
    return _LOCALS[key]


def max_sites(loc, kind, cap):
    """Largest N with dense size d^N (MPS) or d^N x d^N (MPO) within ``cap`` rows."""
    n = 1
    while loc.d ** (n + 1) <= cap:
        n += 1
    return n


# ------------------------------------------------------------------ charge bookkeeping (groups.py only)

def _canon_rows(sym, arr):
    arr = np.array(arr, dtype=np.int64, copy=True)
    for k, m in enumerate(G.MODULI[sym]):
        if m:
            arr[:, k] %= m
    return arr


def site_delta_charges(loc, kind):
    """Charge contributed by one site to the bond on its left: t_ket (MPS) or t_ket - t_bra (MPO); set of tuples."""
    if kind == "mps":
        return sorted(set(loc.charges))
    return sorted({G.add(loc.sym, (a, b), (1, -1)) for a in loc.charges for b in loc.charges})


def reach_sets(loc, N, kind):
    """R[j] = charges that the virtual leg left of site j can carry (R[N] = {0})."""
    delta = site_delta_charges(loc, kind)
    R = [None] * (N + 1)
    R[N] = {G.zero(loc.sym)}
    for j in range(N - 1, -1, -1):
        R[j] = {G.add(loc.sym, (a, b)) for a in delta for b in R[j + 1]}
    return R


def admissible_charges(loc, N, kind):
    return sorted(reach_sets(loc, N, kind)[0])


def basis_charges(loc, nsites, kind):
    """Integer array (dim, nsym): total charge of every product basis state of ``nsites`` sites
    (MPS: d^n rows; MPO: (d*d)^n rows ordered (k0,b0,k1,b1,...), charge = sum(t_k - t_b))."""
    ns = G.nsym(loc.sym)
    if ns == 0:
        return np.zeros(((loc.d if kind == "mps" else loc.d ** 2) ** nsites, 0), dtype=np.int64)
    if kind == "mps":
        one = loc.basis_charges
    else:
        one = (loc.basis_charges[:, None, :] - loc.basis_charges[None, :, :]).reshape(-1, ns)
    lab = np.zeros((1, ns), dtype=np.int64)
    for _ in range(nsites):
        lab = (lab[:, None, :] + one[None, :, :]).reshape(-1, ns)
    return _canon_rows(loc.sym, lab)


# ------------------------------------------------------------------ harness chains (truth independent of yastn accessors)

def contract_arrays(arrs, kind, periodic=False, centrals=None):
    """NumPy contraction of site arrays (Dl,d,Dr) / (Dl,d,Dr,d) [+ matrices in ``centrals`` = {position: (Dl,Dr)} placed
    *before* site ``position``]; returns vector (d^N) or matrix (d^N, d^N)."""
    centrals = centrals or {}
    cur = None
    for n, a in enumerate(arrs):
        a = np.asarray(a)
        if n in centrals:
            a = np.tensordot(centrals[n], a, axes=(1, 0))
        if kind == "mps":
            a3 = a
            if cur is None:
                cur = a3
            else:
                cur = np.tensordot(cur, a3, axes=(2, 0))                       # l K d r
                cur = cur.reshape(cur.shape[0], cur.shape[1] * cur.shape[2], cur.shape[3])
        else:
            a4 = a.transpose(0, 1, 3, 2)                                         # l k b r
            if cur is None:
                cur = a4
            else:
                cur = np.tensordot(cur, a4, axes=(3, 0))                       # l K B k b r
                cur = cur.transpose(0, 1, 3, 2, 4, 5)
                s = cur.shape
                cur = cur.reshape(s[0], s[1] * s[2], s[3] * s[4], s[5])
    if len(arrs) in centrals:
        cur = np.tensordot(cur, centrals[len(arrs)], axes=(cur.ndim - 1, 0))
    if periodic:
        return np.trace(cur, axis1=0, axis2=cur.ndim - 1)
    if cur.size == 0 and (cur.shape[0] == 0 or cur.shape[-1] == 0):
        return np.zeros(cur.shape[1:-1], dtype=cur.dtype)      # tensors without blocks: the vanishing state
    if cur.shape[0] != 1 or cur.shape[-1] != 1:
        raise ValueError(f"open chain with boundary dimensions {cur.shape[0]}, {cur.shape[-1]}")
    return cur.reshape(cur.shape[1:-1])


class HChain:
    """Harness-side MPS / MPO / periodic MPO: site HTensors with legs (vl, ket, vr[, bra])."""

    def __init__(self, loc, kind, sites, periodic=False, q=None):
        self.loc, self.kind, self.sites, self.periodic = loc, kind, list(sites), periodic
        self.N = len(self.sites)
        self.q = q

    def dense(self):
        return contract_arrays([h.dense() for h in self.sites], self.kind, self.periodic)

    def to_yastn(self):
        import yastn.tn.mps as mps
        if self.periodic:
            psi = mps.Mpo(self.N, periodic=True)
        else:
            psi = mps.Mps(self.N) if self.kind == "mps" else mps.Mpo(self.N)
        for n, h in enumerate(self.sites):
            psi[n] = h.to_yastn(self.loc.cfg)
        return psi

    def bond_desc(self):
        out = [[[list(t), d] for t, d in h.legs[0].sectors] for h in self.sites]
        out.append([[list(t), d] for t, d in self.sites[-1].legs[2].sectors])
        return out

    def sig(self):
        return (self.loc.tag(), self.kind, self.periodic, self.N, tuple(h.dtype for h in self.sites[:1]),
                tuple(h.legs[0].sectors for h in self.sites), tuple(len(h.blocks) for h in self.sites))

    def nblocks(self):
        return sum(len(h.blocks) for h in self.sites)


def gen_chain(rng, nprng, loc, N, kind="mps", q=None, dtype=None, dmax=3, extra=0.6, density=None, tries=6):
    """Random open-boundary harness MPS/MPO of total charge ``q`` (carried by the first virtual leg).
    A random backbone path of charges guarantees a non-vanishing state; extra sectors are added with prob. ``extra``."""
    sym = loc.sym
    dtype = dtype or rng.choice(("float64", "complex128"))
    R = reach_sets(loc, N, kind)
    if q is None:
        q = rng.choice(sorted(R[0]))
    q = tuple(q)
    if q not in R[0]:
        raise ValueError(f"charge {q} not admissible for {loc.tag()} N={N} {kind}")
    delta = site_delta_charges(loc, kind)
    # L[j]: charges reachable from the left given total q:  t_{j+1} = t_j - delta
    L = [None] * (N + 1)
    L[0] = {q}
    for j in range(N):
        L[j + 1] = {G.add(sym, (a, b), (1, -1)) for a in L[j] for b in delta}
    adm = [sorted(L[j] & R[j]) for j in range(N + 1)]
    for _ in range(tries):
        # backbone
        path = [q]
        for j in range(N):
            nxt = [t for t in adm[j + 1] if G.add(sym, (path[-1], t), (1, -1)) in delta]
            path.append(rng.choice(nxt))
        bonds = []
        for j in range(N + 1):
            if j in (0, N):
                bonds.append([(path[j], 1)])
                continue
            secs = {path[j]: rng.randint(1, dmax)}
            others = [t for t in adm[j] if t != path[j]]
            rng.shuffle(others)
            for t in others[:4]:
                if rng.random() < extra:
                    secs[t] = rng.randint(1, dmax)
            if sym == "dense":
                secs = {(): rng.randint(1, dmax + 1)}
            bonds.append(sorted(secs.items()))
        dens = density if density is not None else rng.choice((1.0, 1.0, 1.0, 0.8))
        sites = []
        for j in range(N):
            legs = [D.HLeg(sym, -1, bonds[j]), loc.hleg(1), D.HLeg(sym, 1, bonds[j + 1])]
            if kind == "mpo":
                legs.append(loc.hleg(-1))
            sites.append(D.gen_tensor(rng, nprng, sym, legs=legs, n=G.zero(sym), dtype=dtype, density=dens,
                                      fermionic=loc.fermionic))
        ch = HChain(loc, kind, sites, q=q)
        if ch.nblocks() and np.linalg.norm(ch.dense().ravel()) > 1e-6:
            return ch
        density = 1.0
    raise CaseSkip("could not draw a non-vanishing chain")


def mirror_chain(ch):
    """The same kind of object with the total charge carried by the *last* virtual leg, site signatures unchanged.

    ch (charge q on the first leg, sites 0..N-1) is read backwards: site tensors are taken in reverse order with their virtual
    legs exchanged, and both virtual legs are re-described with flipped signature and negated charges (the same spaces), so
    that every site keeps the signature (-1, +1, +1[, -1]).  The first virtual leg then carries charge 0 and the last one
    (signature +1) carries -q.  Dense image: reverse_dense(ch.dense())."""
    perm = (2, 1, 0) if ch.kind == "mps" else (2, 1, 0, 3)
    sites = [h.permute(perm).flip_charges((0, 2)) for h in reversed(ch.sites)]
    out = HChain(ch.loc, ch.kind, sites, periodic=False, q=ch.q)
    out.charge_at = "last"
    return out


def gen_pbc(rng, nprng, loc, N, dtype=None, dmax=2):
    """Random periodic MPO: every bond carries the same sector set (zero charge + some ket-bra differences), the closing
    bond has matching dimensions; every site tensor has charge zero."""
    sym = loc.sym
    dtype = dtype or rng.choice(("float64", "complex128"))
    delta = site_delta_charges(loc, "mpo")
    cand = [t for t in delta if t != G.zero(sym)]
    rng.shuffle(cand)
    ts = [G.zero(sym)] + cand[:rng.randint(0, 2)]
    for _ in range(6):
        bonds = []
        for j in range(N):
            if sym == "dense":
                bonds.append([((), rng.randint(1, dmax + 1))])
            else:
                bonds.append(sorted((t, rng.randint(1, dmax)) for t in ts))
        bonds.append(bonds[0])
        sites = []
        for j in range(N):
            legs = [D.HLeg(sym, -1, bonds[j]), loc.hleg(1), D.HLeg(sym, 1, bonds[j + 1]), loc.hleg(-1)]
            sites.append(D.gen_tensor(rng, nprng, sym, legs=legs, n=G.zero(sym), dtype=dtype, density=1.0,
                                      fermionic=loc.fermionic))
        ch = HChain(loc, "mpo", sites, periodic=True, q=G.zero(sym))
        if np.linalg.norm(ch.dense().ravel()) > 1e-6:
            return ch
    raise CaseSkip("could not draw a non-vanishing periodic MPO")


def gen_full_tensor(rng, nprng, loc, N, kind="mps", q=None, dtype=None, density=1.0):
    """Harness tensor with N (MPS) or 2N (MPO; order k0,b0,k1,b1,...) physical legs and total charge q."""
    sym = loc.sym
    if q is None:
        q = rng.choice(admissible_charges(loc, N, kind))
    legs = []
    for _ in range(N):
        legs.append(loc.hleg(1))
        if kind == "mpo":
            legs.append(loc.hleg(-1))
    dtype = dtype or rng.choice(("float64", "complex128"))
    return D.gen_tensor(rng, nprng, sym, legs=legs, n=tuple(q), dtype=dtype, density=density, fermionic=loc.fermionic)


def full_tensor_dense(ht, N, kind, d):
    x = ht.dense()
    if kind == "mps":
        return x.reshape(d ** N)
    perm = list(range(0, 2 * N, 2)) + list(range(1, 2 * N, 2))
    return x.transpose(perm).reshape(d ** N, d ** N)


# ------------------------------------------------------------------ observations of yastn objects

def _is_pbc(psi):
    return type(psi).__name__ == "MpoPBC"


def obs_tensor(psi, loc):
    """(a) to_tensor() -> to_numpy over full physical legs -> vector / matrix."""
    t = psi.to_tensor()
    N, nrp = psi.N, psi.nr_phys
    if t.ndim != N * nrp:
        raise ValueError(f"to_tensor() has {t.ndim} legs for N={N}, nr_phys={nrp}")
    sig = t.get_signature()
    x = t.to_numpy(legs={i: loc.yleg(sig[i]) for i in range(t.ndim)})
    if nrp == 1:
        return x.reshape(loc.d ** N)
    perm = list(range(0, 2 * N, 2)) + list(range(1, 2 * N, 2))
    return x.transpose(perm).reshape(loc.d ** N, loc.d ** N)


def _union_leg(sym_mod, s, parts):
    """Union of sector dictionaries; returns (Leg, None) or (None, message) when two parts disagree on a dimension."""
    import yastn
    tD = {}
    for p in parts:
        for t, dd in p.items():
            if tD.setdefault(tuple(t), dd) != dd:
                return None, f"sector {t} has dimensions {tD[tuple(t)]} and {dd} on the two sides of a bond"
    ts = sorted(tD)
    return yastn.Leg(sym_mod, s=s, t=ts, D=[tD[t] for t in ts]), None


def obs_sites(psi, loc):
    """(b) harness contraction of the embedded site arrays (central block included where it sits).
    Returns (dense, problem_or_None)."""
    N, nrp = psi.N, psi.nr_phys
    kind = "mps" if nrp == 1 else "mpo"
    sym_mod = G.sym_module(loc.sym)
    els = []          # (tensor, is_site)
    pC = getattr(psi, "pC", None)
    for n in range(N):
        if pC is not None and pC[1] == n:
            els.append((psi.A[pC], False))
        els.append((psi.A[n], True))
    if pC is not None and pC[1] == N:
        els.append((psi.A[pC], False))
    periodic = _is_pbc(psi)
    fused = any(l.is_fused() for a, _ in els for l in a.get_legs())

    def union(lr, nxt):
        # nxt: left leg of the next element, lr: right leg of this one
        if nxt.s != -lr.s:
            return None, f"signatures {lr.s},{nxt.s} across a bond are not opposite"
        if fused:
            # products carry hard-/meta-fused virtual legs whose sub-sector lists can differ on the two sides of a bond
            # (yastn aligns them with masks); only yastn's own legs_union knows how to merge such histories
            import yastn
            return yastn.legs_union(lr, nxt.conj()), None
        return _union_leg(sym_mod, lr.s, (lr.tD, nxt.conj().tD))

    # bond legs: right leg of element i / left leg of element i+1
    right = []
    for i, (a, is_site) in enumerate(els):
        j = i + 1
        lr = a.get_legs(axes=2 if is_site else 1)
        if j == len(els):
            u, bad = union(lr, els[0][0].get_legs(axes=0)) if periodic else (lr, None)
        else:
            u, bad = union(lr, els[j][0].get_legs(axes=0))
        if bad:
            return None, bad
        right.append(u)
    arrs = []
    for i, (a, is_site) in enumerate(els):
        if i == 0:
            left = right[-1].conj() if periodic else a.get_legs(axes=0)
        else:
            left = right[i - 1].conj()
        if is_site:
            sig = a.get_signature()
            lg = {0: left, 1: loc.yleg(sig[1]), 2: right[i]}
            if nrp == 2:
                lg[3] = loc.yleg(sig[3])
        else:
            lg = {0: left, 1: right[i]}
        arrs.append((a.to_numpy(legs=lg), is_site))
    # fold matrices into the chain
    sites, centrals, k = [], {}, 0
    for x, is_site in arrs:
        if is_site:
            sites.append(x)
            k += 1
        else:
            centrals[k] = x if k not in centrals else centrals[k] @ x
    out = contract_arrays(sites, kind, periodic, centrals)
    return out * psi.factor, None


def fused_index(loc, legs, sigs):
    """Independent model of hard fusion of physical legs into one leg.

    legs: list of native sector lists [(t, D), ...] (ascending t) of the legs being fused; sigs their signatures.
    Returns {teff: index array into the full product space (d,)*n} with combinations in lexicographic order and
    each combination's elements row-major -- i.e. the position of every element of the fused leg."""
    sym = loc.sym
    offs = loc.hspace.offsets()
    n = len(legs)
    out = {}
    for combo in itertools.product(*[range(len(l)) for l in legs]):
        ts = [legs[i][c][0] for i, c in enumerate(combo)]
        teff = G.add(sym, ts, sigs, sigs[0])
        rngs = []
        for i, c in enumerate(combo):
            t, dd = legs[i][c]
            lo, hi = offs[tuple(t)]
            if hi - lo != dd:
                return None
            rngs.append(np.arange(lo, hi))
        if n:
            idx = np.ravel_multi_index(np.meshgrid(*rngs, indexing="ij"), (loc.d,) * n).ravel()
        else:
            idx = np.zeros(1, dtype=np.int64)
        out.setdefault(teff, []).append(idx)
    return {t: np.concatenate(v) for t, v in out.items()}


def obs_matrix(psi, loc):
    """(c) to_matrix() -> native to_numpy -> scattered into the full space.  Returns (dense, problem_or_None)."""
    N, nrp = psi.N, psi.nr_phys
    m = psi.to_matrix()
    if m.ndim != nrp:
        return None, f"to_matrix() has {m.ndim} legs"
    t = psi.to_tensor()
    tl = t.get_legs()
    tl = (tl,) if not isinstance(tl, (tuple, list)) else tl
    groups = [list(range(N))] if nrp == 1 else [list(range(0, 2 * N, 2)), list(range(1, 2 * N, 2))]
    nat = m.to_numpy()
    index = []
    for ax, g in enumerate(groups):
        legs = [[(tuple(tt), int(dd)) for tt, dd in zip(tl[i].t, tl[i].D)] for i in g]
        sigs = [int(tl[i].s) for i in g]
        model = fused_index(loc, legs, sigs)
        if model is None:
            return None, "physical sector dimension differs from the local space"
        fl = m.get_legs(axes=ax)
        if int(fl.s) != sigs[0]:
            return None, f"fused leg {ax} has signature {fl.s}, first fused leg has {sigs[0]}"
        pos = []
        for tt, dd in zip(fl.t, fl.D):
            ix = model.get(tuple(tt))
            if ix is None or len(ix) != dd:
                return None, f"fused leg {ax}: sector {tt} has dimension {dd}, product of the physical legs gives " \
                             f"{None if ix is None else len(ix)}"
            pos.append(ix)
        index.append(np.concatenate(pos) if pos else np.zeros(0, dtype=np.int64))
    if nat.shape != tuple(len(ix) for ix in index):
        return None, f"to_matrix().to_numpy() has shape {nat.shape}, fused legs describe {[len(ix) for ix in index]}"
    full = np.zeros((loc.d ** N,) * nrp, dtype=nat.dtype)
    if nrp == 1:
        full[index[0]] = nat
    else:
        full[np.ix_(index[0], index[1])] = nat
    return full, None


def nrm(x):
    x = np.asarray(x)
    return float(np.linalg.norm(x.ravel())) if x.size else 0.0


def maxabs(x):
    x = np.asarray(x)
    return float(np.max(np.abs(x))) if x.size else 0.0


def cond_scale(psi):
    """|factor| * prod_n |A_n|_F (central block included).  Rounding errors of contractions are proportional to the norms of
    the tensors, which for a non-canonical chain can exceed the norm of the state they represent by orders of magnitude."""
    out = abs(psi.factor)
    for t in psi.A.values():
        out *= float(t.norm())
    return float(out)


def observe(ctx, psi, loc, what, scale=None, full=True, ctol=2e3):
    """Primary observation (a), cross-validated in-run against (b) and (c).  Violations are reported under
    ``observation:*`` keys; the value returned is (a)."""
    a = obs_tensor(psi, loc)
    ctx.count("obs_tensor")
    if not full:
        return a
    sc = max(scale if scale is not None else 0.0, nrm(a), cond_scale(psi), 1e-300)
    pC = getattr(psi, "pC", None)
    if pC is None:
        b, bad = obs_sites(psi, loc)
        ctx.count("obs_sites_crosschecks")
        if bad:
            ctx.violation("observation:site-legs-inconsistent", f"{what}: {bad}")
        elif b.shape != a.shape:
            ctx.violation("observation:to_tensor-vs-site-contraction", f"{what}: shapes {a.shape} vs {b.shape}")
        else:
            err = maxabs(a - b)
            if not ctx.margin("obs:to_tensor-vs-sites", err, ctol * EPS * sc):
                ctx.violation("observation:to_tensor-vs-site-contraction",
                              f"{what}: to_tensor() differs from the harness contraction of the site tensors by {err:.3e} "
                              f"(scale {sc:.3e})", {"to_tensor": a, "sites": b})
    c, bad = obs_matrix(psi, loc)
    ctx.count("obs_matrix_crosschecks")
    if bad:
        ctx.violation("observation:to_matrix-structure", f"{what}: {bad}")
    elif c.shape != a.shape or not np.array_equal(c, a):
        ctx.violation("observation:to_matrix-vs-to_tensor", f"{what}: to_matrix() is not the reshaped to_tensor() "
                      f"(max diff {maxabs(c - a) if c.shape == a.shape else 'shape'})", {"to_tensor": a, "to_matrix": c})
    return a


# ------------------------------------------------------------------ dense algebra helpers

def reverse_dense(x, d, N):
    """Dense image of reverse_sites()."""
    if x.ndim == 1:
        return x.reshape((d,) * N).transpose(tuple(range(N - 1, -1, -1))).reshape(-1)
    y = x.reshape((d,) * (2 * N))
    perm = tuple(range(N - 1, -1, -1)) + tuple(range(2 * N - 1, N - 1, -1))
    return y.transpose(perm).reshape(d ** N, d ** N)


def as_site_major(x, d, N):
    """Vector stays; matrix (kets, bras) -> vector over (k0,b0,k1,b1,...) so that a cut between sites is a reshape."""
    if x.ndim == 1:
        return x
    y = x.reshape((d,) * (2 * N))
    perm = [i for pair in zip(range(N), range(N, 2 * N)) for i in pair]
    return y.transpose(perm).reshape(-1)


def cut_matrix(x, d, N, cut):
    """Matrix (left block | right block) of the dense state across the bond left of site ``cut`` (0..N)."""
    v = as_site_major(x, d, N)
    dd = d if x.ndim == 1 else d * d
    return v.reshape(dd ** cut, dd ** (N - cut))


def sector_spectra(x, loc, N, cut):
    """Singular values across ``cut`` grouped by the charge of the left block: {charge tuple: descending array}.
    (The state need not have a definite total charge: rows of one left charge are simply decomposed together.)"""
    kind = "mps" if np.ndim(x) == 1 else "mpo"
    M = cut_matrix(x, loc.d, N, cut)
    lab = basis_charges(loc, cut, kind)
    out = {}
    if lab.shape[1] == 0:
        out[()] = np.linalg.svd(M, compute_uv=False)
        return out
    uniq, inv = np.unique(lab, axis=0, return_inverse=True)
    inv = np.asarray(inv).reshape(-1)
    for k, t in enumerate(uniq):
        rows = np.flatnonzero(inv == k)
        sub = M[rows, :]
        cols = np.flatnonzero(np.any(sub != 0, axis=0))
        if len(cols) == 0:
            continue
        out[tuple(int(v) for v in t)] = np.linalg.svd(sub[:, cols], compute_uv=False)
    return out


def all_values(spec):
    if not spec:
        return np.zeros(0)
    return np.sort(np.concatenate([np.asarray(v, dtype=float) for v in spec.values()]))[::-1]


def entropy_ref(p, alpha, cutoff=1e-12):
    """Entropy (base 2) of probabilities p (normalised here); probabilities below the documented cutoff of
    yastn.linalg.entropy (tol=1e-12) are dropped.  Returns (value, near_cutoff) where near_cutoff says that some
    probability is within a factor 100 of the cutoff (then the comparison is not meaningful)."""
    p = np.asarray(p, dtype=float)
    s = p.sum()
    if not s > 0:
        return 0.0, False
    p = p / s
    near = bool(np.any((p > cutoff / 100) & (p < cutoff * 100)))
    p = p[p > cutoff]
    if alpha == 1:
        return float(-np.sum(p * np.log2(p))), near
    return float(np.log2(np.sum(p ** alpha)) / (1 - alpha)), near


def site_isometry_defect(a, to, nr_phys):
    """max |A^dag A - 1| of one site tensor (native to_numpy) in the direction ``to`` ('last': left-canonical)."""
    x = a.to_numpy()
    if x.size == 0:
        return 0.0
    if nr_phys == 2:
        x = x.transpose(0, 1, 3, 2)           # l k b r
    if to == "last":
        M = x.reshape(-1, x.shape[-1])
        G_ = M.conj().T @ M
    else:
        M = x.reshape(x.shape[0], -1)
        G_ = M @ M.conj().T
    return maxabs(G_ - np.eye(G_.shape[0]))
