"""Cache-hit monitor for yastn's functools.lru_cache tables (property C16).

CacheMonitor(report).install() replaces every lru-cached function object found in a yastn module
(in *every* namespace where it is bound) by a proxy that
  * on a miss records a digest of the inserted value (and compares with an earlier digest of the same
    key, if the entry had been evicted/cleared: a pure function must recompute the same value),
  * on the first hit of every (table, key) re-executes the undecorated function and deep-compares,
  * on every hit compares the digest of the returned value with the digest taken at insertion,
  * optionally calls an *injector* at cached-call boundaries (clear_cache / set_cache_maxsize perturbation).
set_cache_maxsize() creates fresh lru objects; it is wrapped so that the proxies are re-installed.
"""
from __future__ import annotations

import hashlib
import sys

import numpy as np


def deep_digest(x):
    h = hashlib.sha1()
    _feed(h, x, 0)
    return h.hexdigest()[:20]


def _feed(h, x, depth):
    if depth > 12:
        h.update(b"<deep>")
        return
    if isinstance(x, np.ndarray):
        h.update(b"A" + str(x.shape).encode() + str(x.dtype).encode() + np.ascontiguousarray(x).tobytes())
    elif isinstance(x, dict):
        h.update(b"D%d" % len(x))
        for k, v in x.items():          # order matters: callers iterate
            _feed(h, k, depth + 1)
            _feed(h, v, depth + 1)
    elif isinstance(x, (tuple, list)):
        h.update((b"T" if isinstance(x, tuple) else b"L") + type(x).__name__.encode() + b"%d" % len(x))
        for v in x:
            _feed(h, v, depth + 1)
    elif isinstance(x, (set, frozenset)):
        h.update(b"S" + repr(sorted(map(repr, x))).encode())
    elif isinstance(x, slice):
        h.update(repr(x).encode())
    elif isinstance(x, (bool, int, float, np.integer, np.floating, np.bool_)):
        # numbers by value: lru_cache keys treat 0, 0.0 and False as the same key, so must the monitor
        v = x.item() if isinstance(x, np.generic) else x
        h.update(b"#" + (repr(int(v)) if v == int(v) else repr(float(v))).encode() if v == v and abs(v) != float("inf") else b"#" + repr(v).encode())
    elif isinstance(x, np.generic):
        h.update(b"G" + repr(x.item()).encode() + str(x.dtype).encode())
    elif x is None or isinstance(x, (complex, str, bytes)):
        h.update(type(x).__name__.encode() + repr(x).encode())
    elif isinstance(x, type) or hasattr(x, "SYM_ID"):
        h.update(b"C" + getattr(x, "SYM_ID", getattr(x, "__name__", "?")).encode())
    elif hasattr(x, "__name__"):
        h.update(b"N" + x.__name__.encode())
    else:
        h.update(b"O" + type(x).__name__.encode() + repr(x)[:200].encode())


_NUM = (bool, int, float, np.integer, np.floating, np.bool_)


def deep_equal(a, b, depth=0):
    if isinstance(a, _NUM) and isinstance(b, _NUM):
        return bool(a == b) or (a != a and b != b)
    if type(a) is not type(b):
        return False
    if isinstance(a, np.ndarray):
        return a.shape == b.shape and a.dtype == b.dtype and np.array_equal(a, b)
    if isinstance(a, dict):
        return list(a.keys()) == list(b.keys()) and all(deep_equal(a[k], b[k], depth + 1) for k in a)
    if isinstance(a, (tuple, list)):
        return len(a) == len(b) and all(deep_equal(x, y, depth + 1) for x, y in zip(a, b))
    try:
        if bool(a == b):
            return True
    except Exception:
        pass
    # objects without value equality (opt_einsum PathInfo): compare their printed form, unless it only shows an address
    ra, rb = repr(a), repr(b)
    return ra == rb and " at 0x" not in ra


class _Proxy:
    def __init__(self, mon, lru, table):
        self._mon, self._lru, self._table = mon, lru, table
        self.__wrapped__ = lru.__wrapped__
        self.__name__ = getattr(lru, "__name__", table)
        self.__doc__ = getattr(lru, "__doc__", None)
        self.__vmon_lru__ = lru

    def __call__(self, *args, **kwargs):
        mon = self._mon
        if mon.busy:
            return self._lru(*args, **kwargs)
        if mon.injector is not None:
            mon.busy = True
            try:
                mon.injector(self._table)
            finally:
                mon.busy = False
        lru = self._lru     # if the injector re-created the tables this proxy is stale but its lru is still a valid cache
        h0 = lru.cache_info().hits
        res = lru(*args, **kwargs)
        hit = lru.cache_info().hits > h0
        mon.observe(self._table, lru, args, kwargs, res, hit)
        return res

    def cache_info(self):
        return self._lru.cache_info()

    def cache_clear(self):
        return self._lru.cache_clear()

    def cache_parameters(self):
        return self._lru.cache_parameters()


class CacheMonitor:
    def __init__(self, report, recompute=True, max_keys=300_000):
        self.report = report
        self.recompute = recompute
        self.hits = {}
        self.misses = {}
        self.first_hit_recomputed = 0
        self.digest_checks = 0
        self.digests = {}          # (table, key) -> digest at insertion
        self.hit_seen = set()
        self.busy = False
        self.injector = None
        self.current = {}          # table -> proxy currently installed
        self.patched = []
        self.max_keys = max_keys
        self._orig_set = None

    # ------------------------------------------------------------------
    def observe(self, table, lru, args, kwargs, res, hit):
        key = (table, args, tuple(sorted(kwargs.items())) if kwargs else ())
        try:
            hash(key)
        except TypeError:
            return
        self.busy = True
        try:
            d = deep_digest(res)
            if not hit:
                self.misses[table] = self.misses.get(table, 0) + 1
                old = self.digests.get(key)
                if old is not None and old != d:
                    self.report(f"cache-recompute-differs:{table}",
                                f"{table}: recomputation after eviction/clear produced a different value for the same key", {"table": table})
                if len(self.digests) < self.max_keys:
                    self.digests[key] = d
                return
            self.hits[table] = self.hits.get(table, 0) + 1
            old = self.digests.get(key)
            if old is None:
                if len(self.digests) < self.max_keys:
                    self.digests[key] = d
            else:
                self.digest_checks += 1
                if old != d:
                    self.report(f"cache-entry-mutated:{table}",
                                f"{table}: value returned by a cache hit differs from the value at insertion (entry altered after insertion)",
                                {"table": table, "args": repr(args)[:600]})
            if self.recompute and key not in self.hit_seen:
                if len(self.hit_seen) < self.max_keys:
                    self.hit_seen.add(key)
                fresh = lru.__wrapped__(*args, **kwargs)
                self.first_hit_recomputed += 1
                if not deep_equal(fresh, res):
                    self.report(f"cache-hit-differs-from-fresh:{table}",
                                f"{table}: cached value differs from a fresh computation with the same arguments",
                                {"table": table, "args": repr(args)[:600]})
        finally:
            self.busy = False

    # ------------------------------------------------------------------
    def _tables(self):
        """(module, attr, lru object) for every lru_cache wrapper bound in a yastn module."""
        out = []
        for n, m in list(sys.modules.items()):
            if not (n == "yastn" or n.startswith("yastn.")) or m is None:
                continue
            for attr, obj in list(vars(m).items()):
                if isinstance(obj, _Proxy):
                    continue
                if hasattr(obj, "cache_info") and hasattr(obj, "__wrapped__") and hasattr(obj, "cache_clear"):
                    out.append((m, attr, obj))
        return out

    def install(self):
        import yastn
        import yastn.tn.mps  # noqa: F401
        import yastn.tn.fpeps  # noqa: F401
        from yastn.tensor import _control_lru
        self._rebind()
        if self._orig_set is None:
            self._orig_set = _control_lru.set_cache_maxsize
            mon = self

            def set_cache_maxsize(maxsize=0):
                mon._unbind()                      # let yastn replace its own lru objects
                mon._orig_set(maxsize)
                # namespaces that imported the old lru object by name keep the *old* object: rebind them too
                mon._rebind()

            set_cache_maxsize.__vmon_original__ = self._orig_set
            for n, m in list(sys.modules.items()):
                if (n == "yastn" or n.startswith("yastn.")) and m is not None:
                    for attr, obj in list(vars(m).items()):
                        if obj is self._orig_set:
                            setattr(m, attr, set_cache_maxsize)
                            self.patched.append((m, attr, self._orig_set))
        return self

    def _rebind(self):
        by_id = {}
        for m, attr, lru in self._tables():
            table = f"{lru.__wrapped__.__module__.rsplit('.', 1)[-1]}.{lru.__wrapped__.__name__}"
            # one proxy per lru object; several lru objects for one function exist after set_cache_maxsize
            # (yastn re-creates the table only in the namespaces it names) - all of them are monitored
            p = by_id.get(id(lru))
            if p is None:
                p = by_id[id(lru)] = _Proxy(self, lru, table)
            setattr(m, attr, p)
            self.current[table] = p

    def _unbind(self):
        for n, m in list(sys.modules.items()):
            if not (n == "yastn" or n.startswith("yastn.")) or m is None:
                continue
            for attr, obj in list(vars(m).items()):
                if isinstance(obj, _Proxy):
                    setattr(m, attr, obj._lru)

    def uninstall(self):
        self._unbind()
        for ns, attr, orig in reversed(self.patched):
            setattr(ns, attr, orig)
        self.patched.clear()
        self._orig_set = None

    def tables(self):
        return sorted(self.current)

    def summary(self):
        return {"hits_by_table": dict(sorted(self.hits.items())), "misses_by_table": dict(sorted(self.misses.items())),
                "first_hit_recomputations": self.first_hit_recomputed, "digest_checks": self.digest_checks,
                "tables": self.tables()}
