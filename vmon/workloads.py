"""Workloads shared by the boundary monitors (C02, C15, C16):
   random programs, other properties' case generators (muted), and the repository test-suite."""
from __future__ import annotations

import glob
import importlib
import json
import os
import subprocess

from . import dense as D
from . import gen_program as GP
from . import groups as G
from . import harness as H

FOREIGN = ["c01", "c03", "c04", "c05", "c13", "c14", "c17", "c06", "c07", "c08", "c09", "c10", "c11", "c12", "c18"]
TENSOR_LEVEL = ("c01", "c03", "c04", "c05", "c13", "c14", "c17")
FERM = {"Z2": (True,), "U1": (True,), "Z2xU1": (True, (True, False)), "U1xU1": (True, (True, False), (False, True)),
        "U1xU1xZ2": (True, (False, False, True)), "Z3": (), "dense": ()}


def program_case(ctx, idx, length=None, cfg_kw=None):
    rng, nprng = ctx.rng(idx, "prog"), ctx.nprng(idx, "prog")
    sym = G.ALL_SYMS[idx % len(G.ALL_SYMS)]
    ferm = False
    if FERM[sym] and rng.random() < 0.4:
        ferm = rng.choice(FERM[sym])
    cfg = D.make_cfg(sym, ferm, **(cfg_kw or {"tensordot_policy": rng.choice(("fuse_to_matrix", "fuse_contracted", "no_fusion")),
                                               "default_fusion": rng.choice(("hard", "meta"))}))
    length = length or rng.randint(8, 30)
    prog, pool = GP.generate(rng, nprng, sym, ferm, length=length, cfg=cfg)
    ctx.count("program_steps", len(prog.steps))
    for s in prog.steps:
        ctx.count("step:" + s[0])
    return prog, pool, cfg


def foreign_modules():
    out = []
    for name in FOREIGN:
        if os.path.exists(os.path.join(H.VERIF, "checks", name + ".py")):
            out.append(name)
    return out


def foreign_case(ctx, name, idx):
    """Run case ``idx`` of another property's generator with a muted ctx: only our monitors judge."""
    mod = importlib.import_module("checks." + name)
    # spread the few cases we can afford over the whole plan of the foreign generator (its families are laid out by index)
    try:
        n = int(mod.plan(ctx.tier)["cases"])
        idx = (idx * 2654435761 + 40503 * int(str(ctx.seed), 10)) % n if n > 0 else idx
    except Exception:
        pass
    sub = H.Ctx(mod.PROP, ctx.tier, ctx.seed, mute=True)
    sub.idx = idx
    try:
        mod.run_case(sub, idx)
    except H.CaseSkip:
        pass
    except Exception:
        # the foreign check judges its own property elsewhere; here only the monitors count
        ctx.count("foreign_case_raised")
    ctx.count("foreign:" + name)


def test_files():
    root = os.path.join(H.REPO, "tests")
    files = sorted(glob.glob(os.path.join(root, "**", "test_*.py"), recursive=True))
    return [os.path.relpath(f, H.REPO) for f in files]


def suite_case(ctx, relpath, monitors, timeout=2400, extra_opts=()):
    """Run one repository test file under the monitors in a subprocess; merge what the monitors saw."""
    work = os.path.join(H.VERIF, ".work", f"suite-{os.getpid()}")
    os.makedirs(work, exist_ok=True)
    out = os.path.join(work, "plugin.json")
    if os.path.exists(out):
        os.remove(out)
    env = H.child_env()
    env["VMON_MONITORS"] = ",".join(monitors)
    env["VMON_OUT"] = out
    cmd = [H.PY, "-m", "pytest", "-q", "-x", "-p", "no:cacheprovider", "-p", "no:randomly", "-p", "vmon.pytest_plugin",
           "--timeout=1800", *extra_opts, relpath]
    try:
        p = subprocess.run(cmd, cwd=H.REPO, env=env, stdout=subprocess.PIPE, stderr=subprocess.STDOUT, timeout=timeout, text=True)
        rc = p.returncode
    except subprocess.TimeoutExpired:
        ctx.count("suite_files_timed_out")
        return
    if not os.path.exists(out):
        ctx.count("suite_files_without_report")
        ctx.note("suite_last_failure_tail", (p.stdout or "")[-400:])
        return
    with open(out) as f:
        r = json.load(f)
    os.remove(out)
    try:
        os.rmdir(work)
    except OSError:
        pass
    ctx.count("suite_files_run")
    ctx.count("suite_tests_run", r.get("tests", 0))
    if rc not in (0, 5):
        ctx.count("suite_files_with_test_failures")   # informational: not our verdict
    for k, v in r["counters"].items():
        ctx.count(k, v)
    for k, v in r["notes"].items():
        if isinstance(v, dict):
            cur = ctx.notes.setdefault(k, {})
            for kk, vv in v.items():
                cur[kk] = cur.get(kk, 0) + vv if isinstance(vv, (int, float)) else vv
        elif isinstance(v, list):
            ctx.notes[k] = sorted(set(ctx.notes.get(k, [])) | set(map(str, v)))
    for v in r["violations"]:
        w = v.get("witness") or {}
        w["test_file"] = relpath
        ctx.violation(v["key"], v["what"], w)
