"""Monitor bundle: interposer + (wellformed | immut | cache) monitors with one report sink."""
from __future__ import annotations

from .cachemon import CacheMonitor
from .immut import ImmutMonitor
from .interpose import Interposer
from .wellformed import WellformedMonitor


class Bundle:
    def __init__(self, report, wellformed=False, immut=False, cache=False, recompute=True, max_depth=None):
        self.report = report
        self.ip = Interposer()
        self.wf = self.ip.add(WellformedMonitor(report, max_depth=max_depth)) if wellformed else None
        self.im = self.ip.add(ImmutMonitor(report, max_depth=max_depth)) if immut else None
        self.cm = CacheMonitor(report, recompute=recompute) if cache else None
        self.installed = False

    def install(self):
        if self.cm is not None:
            self.cm.install()
        if self.ip.monitors:
            self.ip.install()
        self.installed = True
        return self

    def uninstall(self):
        if self.ip.monitors:
            self.ip.uninstall()
        if self.cm is not None:
            self.cm.uninstall()
        self.installed = False

    def counters(self):
        c = {"interposed_calls": self.ip.calls, "interposed_targets": getattr(self.ip, "n_targets", 0),
             "monitor_errors": len(self.ip.monitor_errors)}
        if self.wf is not None:
            c.update({"tensors_checked": self.wf.tensors, "nonzero_charge_tensors": self.wf.nonzero_charge,
                      "charge_postconditions": self.wf.charge_checks,
                      "results_unjudged_illformed_inputs": self.wf.unjudged_illformed_inputs})
        if self.im is not None:
            c.update({"snapshotted_calls": self.im.calls, "args_checked": self.im.args_checked,
                      "exempt_inplace_calls": self.im.exempt_calls})
        if self.cm is not None:
            c.update({"cache_hits": sum(self.cm.hits.values()), "cache_misses": sum(self.cm.misses.values()),
                      "first_hit_recomputations": self.cm.first_hit_recomputed, "cache_digest_checks": self.cm.digest_checks,
                      "tables_with_hits": len(self.cm.hits)})
        return c

    def notes(self):
        n = {}
        if self.wf is not None:
            n["tensors_by_op"] = dict(self.wf.by_op)
        if self.im is not None:
            n["snapshotted_calls_by_op"] = dict(self.im.by_op)
            n["exempt_inplace_ops_seen"] = sorted(self.im.exempt_seen)
        if self.cm is not None:
            n["cache_hits_by_table"] = dict(self.cm.hits)
            n["cache_misses_by_table"] = dict(self.cm.misses)
        if self.ip.monitor_errors:
            n["monitor_errors"] = [list(e) for e in self.ip.monitor_errors[:10]]
        return n

    def flush(self, ctx):
        """Add counters/notes to a harness Ctx."""
        for k, v in self.counters().items():
            ctx.count(k, v)
        for k, v in self.notes().items():
            ctx.note(k, v)
