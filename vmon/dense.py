"""Harness-side tensor model ("universe") with a dense image that never calls to_numpy.

HLeg      : signature + ordered sectors ((charge, dim), ...)   (ascending charge = yastn's dense order)
HTensor   : legs, total charge n, a dict of blocks over *allowed* sector combinations
            -> .dense()      ndarray built by the harness (blocks placed at sector offsets)
            -> .to_yastn()   the same blocks pushed through the public constructor + set_block

Observation side:
reassemble(a)       : dense array rebuilt from a.get_legs(native=True) and a[key] only
obs_dense(a, legs)  : a.to_numpy(legs=universe legs)
"""
from __future__ import annotations

import itertools

import numpy as np

from . import groups as G

BOX = {0: (-2, -1, 0, 1, 2), 2: (0, 1), 3: (0, 1, 2)}


def make_cfg(sym, fermionic=False, **kw):
    import yastn
    return yastn.make_config(sym=G.sym_module(sym), fermionic=fermionic, **kw)


def charge_box(sym):
    return list(itertools.product(*(BOX[m] for m in G.MODULI[sym])))


class HLeg:
    __slots__ = ("sym", "s", "sectors")

    def __init__(self, sym, s, sectors):
        self.sym, self.s = sym, int(s)
        self.sectors = tuple(sorted((tuple(t), int(D)) for t, D in sectors))

    @property
    def ts(self):
        return tuple(t for t, _ in self.sectors)

    @property
    def Ds(self):
        return tuple(D for _, D in self.sectors)

    @property
    def dim(self):
        return sum(self.Ds)

    def offsets(self):
        out, lo = {}, 0
        for t, D in self.sectors:
            out[t] = (lo, lo + D)
            lo += D
        return out

    def conj(self):
        return HLeg(self.sym, -self.s, self.sectors)

    def flipped(self):
        """Charges negated and signature flipped (same space, other description)."""
        return HLeg(self.sym, -self.s, [(G.neg(self.sym, t), D) for t, D in self.sectors])

    def restrict(self, ts):
        ts = set(ts)
        return HLeg(self.sym, self.s, [(t, D) for t, D in self.sectors if t in ts])

    def to_yastn(self, cfg=None):
        import yastn
        sym = G.sym_module(self.sym)
        return yastn.Leg(sym, s=self.s, t=self.ts, D=self.Ds)

    def desc(self):
        return {"s": self.s, "sectors": [[list(t), D] for t, D in self.sectors]}

    def __eq__(self, o):
        return isinstance(o, HLeg) and (self.sym, self.s, self.sectors) == (o.sym, o.s, o.sectors)

    def __hash__(self):
        return hash((self.sym, self.s, self.sectors))

    def __repr__(self):
        return f"HLeg({self.s:+d},{self.sectors})"


def allowed_keys(sym, legs, n):
    sig = tuple(l.s for l in legs)
    return [key for key in itertools.product(*(l.ts for l in legs)) if G.add(sym, key, sig) == tuple(n)]


class HTensor:
    def __init__(self, sym, legs, n, blocks, dtype="float64", isdiag=False, fermionic=False):
        self.sym, self.legs, self.n = sym, tuple(legs), tuple(n)
        self.blocks, self.dtype, self.isdiag, self.fermionic = dict(blocks), dtype, isdiag, fermionic

    @property
    def rank(self):
        return len(self.legs)

    @property
    def shape(self):
        return tuple(l.dim for l in self.legs)

    def dense(self):
        out = np.zeros(self.shape, dtype=self.dtype)
        offs = [l.offsets() for l in self.legs]
        for key, blk in self.blocks.items():
            sl = tuple(slice(*o[t]) for o, t in zip(offs, key))
            out[sl] = np.diag(blk) if self.isdiag else blk
        return out

    def cfg(self, **kw):
        return make_cfg(self.sym, self.fermionic, **kw)

    def to_yastn(self, cfg=None):
        import yastn
        cfg = cfg if cfg is not None else self.cfg()
        a = yastn.Tensor(config=cfg, s=tuple(l.s for l in self.legs), n=self.n, isdiag=self.isdiag, dtype=self.dtype)
        for key in sorted(self.blocks):
            blk = self.blocks[key]
            ts = tuple(x for t in key for x in t)
            Ds = (blk.shape[0], blk.shape[0]) if self.isdiag else blk.shape
            a.set_block(ts=ts, Ds=Ds, val=np.array(blk, dtype=self.dtype))
        return a

    def ylegs(self, cfg=None):
        return tuple(l.to_yastn() for l in self.legs)

    def desc(self, values=False):
        d = {"sym": self.sym, "n": list(self.n), "dtype": self.dtype, "isdiag": self.isdiag,
             "fermionic": self.fermionic, "legs": [l.desc() for l in self.legs],
             "blocks": [[list(map(list, k)), list(v.shape)] for k, v in sorted(self.blocks.items())]}
        if values:
            d["values"] = [[list(map(list, k)), np.asarray(v).tolist()] for k, v in sorted(self.blocks.items())]
        return d

    # ---- harness-side transformations (pure bookkeeping + numpy) ----------
    def _new(self, **kw):
        d = dict(sym=self.sym, legs=self.legs, n=self.n, blocks=self.blocks, dtype=self.dtype,
                 isdiag=self.isdiag, fermionic=self.fermionic)
        d.update(kw)
        return HTensor(**d)

    def permute(self, q):
        """Logical transpose: new leg i = old leg q[i]."""
        q = tuple(q)
        legs = tuple(self.legs[i] for i in q)
        if self.isdiag:
            return self._new(legs=legs, blocks={tuple(k[i] for i in q): v for k, v in self.blocks.items()})
        return self._new(legs=legs, blocks={tuple(k[i] for i in q): np.transpose(v, q) for k, v in self.blocks.items()})

    def conj(self):
        return self._new(legs=tuple(l.conj() for l in self.legs), n=G.neg(self.sym, self.n),
                         blocks={k: np.conj(v) for k, v in self.blocks.items()})

    def conj_blocks(self):
        return self._new(blocks={k: np.conj(v) for k, v in self.blocks.items()})

    def flip_signature(self):
        return self._new(legs=tuple(l.conj() for l in self.legs), n=G.neg(self.sym, self.n))

    def flip_charges(self, axes):
        axes = set(axes)
        legs = tuple(l.flipped() if i in axes else l for i, l in enumerate(self.legs))
        blocks = {tuple(G.neg(self.sym, t) if i in axes else t for i, t in enumerate(k)): v for k, v in self.blocks.items()}
        return self._new(legs=legs, blocks=blocks)

    def map_values(self, f, dtype=None):
        blocks = {k: np.asarray(f(v)) for k, v in self.blocks.items()}
        dt = dtype or (str(next(iter(blocks.values())).dtype) if blocks else self.dtype)
        return self._new(blocks=blocks, dtype=dt)

    def with_present(self, keys):
        keys = set(keys)
        return self._new(blocks={k: v for k, v in self.blocks.items() if k in keys})

    def size(self):
        return sum(int(np.asarray(v).size) for v in self.blocks.values())

    def sig(self):
        """Structural signature (no values)."""
        return (self.sym, self.n, self.dtype, self.isdiag, tuple((l.s, l.sectors) for l in self.legs),
                tuple(sorted(self.blocks)))


# ------------------------------------------------------------------ generators

def gen_leg(rng, sym, s=None, nsec=(1, 3), dmax=3, box=None):
    s = rng.choice((-1, 1)) if s is None else s
    if sym == "dense":
        return HLeg(sym, s, [((), rng.randint(1, max(dmax, 1) + 1))])
    box = charge_box(sym) if box is None else box
    k = min(len(box), rng.randint(*nsec))
    ts = rng.sample(box, k)
    return HLeg(sym, s, [(t, rng.randint(1, dmax)) for t in ts])


def rand_block(np_rng, shape, dtype):
    x = np_rng.standard_normal(shape)
    if "complex" in dtype:
        x = x + 1j * np_rng.standard_normal(shape)
    return x.astype(dtype)


def gen_n(rng, sym, legs, mode=None):
    """Total charge: 'fit' -> some block is allowed; 'zero'; 'any' -> arbitrary box element."""
    mode = mode or rng.choice(("fit", "fit", "fit", "zero", "any"))
    if sym == "dense" or not legs:
        return G.zero(sym)
    if mode == "zero":
        return G.zero(sym)
    if mode == "any":
        return G.canon(sym, rng.choice(charge_box(sym)))
    key = tuple(rng.choice(l.ts) for l in legs)
    return G.add(sym, key, tuple(l.s for l in legs))


def gen_tensor(rng, np_rng, sym, legs=None, rank=None, n=None, dtype=None, density=None, fermionic=False,
               nsec=(1, 3), dmax=3, nmode=None):
    """Random block-sparse tensor over given (or drawn) legs; ``density`` = block presence prob."""
    if legs is None:
        rank = rng.randint(0, 4) if rank is None else rank
        legs = [gen_leg(rng, sym, nsec=nsec, dmax=dmax) for _ in range(rank)]
    if n is None:
        n = gen_n(rng, sym, legs, nmode)
    dtype = dtype or rng.choice(("float64", "complex128"))
    density = rng.choice((1.0, 1.0, 0.7, 0.4)) if density is None else density
    if sym == "dense" and rng.random() < 0.9:
        density = 1.0
    blocks = {}
    for key in allowed_keys(sym, legs, n):
        if rng.random() <= density:
            shape = tuple(l.offsets()[t][1] - l.offsets()[t][0] for l, t in zip(legs, key))
            blocks[key] = rand_block(np_rng, shape, dtype)
    return HTensor(sym, legs, n, blocks, dtype, fermionic=fermionic)


def gen_diag(rng, np_rng, sym, leg=None, dtype=None, density=1.0, fermionic=False):
    leg = leg or gen_leg(rng, sym)
    dtype = dtype or rng.choice(("float64", "complex128"))
    blocks = {}
    for t, D in leg.sectors:
        if rng.random() <= density:
            blocks[(t, t)] = rand_block(np_rng, (D,), dtype)
    return HTensor(sym, (leg, leg.conj()), G.zero(sym), blocks, dtype, isdiag=True, fermionic=fermionic)


# ------------------------------------------------------------------ observation

def sub_leg_ok(yleg, hleg, sym=None):
    """A yastn leg of a result must be a sub-leg of the universe leg."""
    if int(yleg.s) != hleg.s:
        return f"signature {yleg.s} != {hleg.s}"
    tD = dict(hleg.sectors)
    for t, D in zip(yleg.t, yleg.D):
        if tuple(t) not in tD:
            return f"charge {t} not in universe leg {hleg.ts}"
        if tD[tuple(t)] != D:
            return f"dimension of charge {t}: {D} != {tD[tuple(t)]}"
    return None


def obs_dense(a, hlegs):
    """to_numpy over the universe legs."""
    if len(hlegs) == 0:
        return a.to_numpy()
    return a.to_numpy(legs={i: l.to_yastn() for i, l in enumerate(hlegs)})


def reassemble(a, hlegs=None):
    """Dense array rebuilt only from get_legs(native=True) and a[key]; optional embedding in hlegs."""
    nsym = a.config.sym.NSYM
    ylegs = a.get_legs(native=True)
    if hlegs is None:
        offs = []
        for l in ylegs:
            o, lo = {}, 0
            for t, D in zip(l.t, l.D):
                o[tuple(t)] = (lo, lo + D)
                lo += D
            offs.append(o)
        shape = tuple(sum(l.D) for l in ylegs)
    else:
        offs = [l.offsets() for l in hlegs]
        shape = tuple(l.dim for l in hlegs)
    out = np.zeros(shape, dtype=a.dtype)
    present = 0
    for key in itertools.product(*(l.t for l in ylegs)):
        flat = tuple(x for t in key for x in t)
        try:
            blk = a[flat]
        except Exception as e:  # YastnError for absent block
            if type(e).__name__ != "YastnError":
                raise
            continue
        present += 1
        sl = tuple(slice(*o[tuple(t)]) for o, t in zip(offs, key))
        out[sl] = np.diag(blk) if a.isdiag else blk
    return out, present


def close(x, y, tol):
    x, y = np.asarray(x), np.asarray(y)
    if x.shape != y.shape:
        return False, float("inf")
    if x.size == 0:
        return True, 0.0
    err = float(np.max(np.abs(x - y)))
    if err != err:
        return False, float("inf")
    return err <= tol, err


EPS = {"float64": 2.3e-16, "complex128": 2.3e-16, "float32": 1.2e-7, "complex64": 1.2e-7}
