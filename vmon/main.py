"""Driver:  python -m vmon.main <PROP> quick|thorough [--replay f] [--shard i/n --out f]

exit 0  property held on everything explored (KNOWN-FINDING lines possible)
exit 1  VIOLATION property=<id> replay=<path>
exit 2  INCONCLUSIVE property=<id> reason=...   (monitor did not observe enough)
"""
from __future__ import annotations

import argparse
import hashlib
import importlib
import json
import os
import shutil
import subprocess
import sys
import time
import traceback

from . import harness as H

H.bootstrap()


def load(prop):
    return importlib.import_module("checks." + prop.lower())


def run_shard_inproc(mod, ctx, indices, budget_s):
    if ctx.shard == 0 and hasattr(mod, "canaries"):
        ctx.idx = "canary"
        try:
            mod.canaries(ctx)
        except Exception as e:  # a crashing canary is a silent canary
            ctx.canary("canary-crashed:" + repr(e)[:200], False)
    if hasattr(mod, "run_shard"):
        mod.run_shard(ctx)
    else:
        t0 = time.time()
        for idx in indices:
            if time.time() - t0 > budget_s:
                ctx.count("cases_skipped_by_deadline", 1)
                continue
            run_one(mod, ctx, idx)
    if hasattr(mod, "end_shard"):
        ctx.idx = "end_shard"
        mod.end_shard(ctx)


class CaseTimeout(BaseException):
    pass


def _alarm(signum, frame):
    raise CaseTimeout()


def run_one(mod, ctx, idx):
    """One case under a generous wall-clock watchdog; its firing is 'inconclusive', never a violation."""
    import signal
    ctx.idx = idx
    limit = mod.plan(ctx.tier).get("case_timeout_s", 300 if ctx.tier == "quick" else 1200)
    old = signal.signal(signal.SIGALRM, _alarm)
    signal.setitimer(signal.ITIMER_REAL, limit)
    try:
        mod.run_case(ctx, idx)
    except CaseTimeout:
        ctx.count("cases_hit_watchdog")
    except H.CaseSkip:
        ctx.count("cases_skipped_by_generator")
    except Exception as e:
        tb = traceback.format_exc()
        ctx.violation(H.exc_key(e), f"exception escaped case {idx}: {e!r}", {"traceback": tb[-3000:]})
    finally:
        signal.setitimer(signal.ITIMER_REAL, 0)
        signal.signal(signal.SIGALRM, old)


def child_main(args):
    mod = load(args.prop)
    i, n = map(int, args.shard.split("/"))
    ctx = H.Ctx(args.prop, args.tier, args.seed, i, n)
    plan = mod.plan(args.tier)
    indices = range(i, plan["cases"], n)
    try:
        run_shard_inproc(mod, ctx, indices, plan.get("budget_s", 600))
    except Exception as e:
        ctx.violation(H.exc_key(e), f"shard crashed: {e!r}", {"traceback": traceback.format_exc()[-3000:]})
    with open(args.out, "w") as f:
        json.dump(ctx.dump(), f)
    return 0


def write_replay(prop, tier, seed, v):
    os.makedirs(os.path.join(H.VERIF, "replays"), exist_ok=True)
    body = {"property": prop, "tier": tier, "seed": seed, "idx": v["idx"], "key": v["key"],
            "what": v["what"], "witness": v["witness"]}
    tag = hashlib.sha1(json.dumps([prop, tier, seed, v["idx"], v["key"]]).encode()).hexdigest()[:10]
    path = os.path.join(H.VERIF, "replays", f"{prop}_{tag}.json")
    with open(path, "w") as f:
        json.dump(body, f, indent=1)
    return path


def classify(prop, violations):
    """Split raw violations into new ones and ones matching a committed known finding."""
    known = {k["key"]: k for k in H.load_known_findings() if k.get("property") == prop and k.get("status") == "known"}
    new, matched = [], {}
    for v in violations:
        if v["key"] in known:
            matched.setdefault(v["key"], []).append(v)
        else:
            new.append(v)
    return new, matched, known


def parent_main(args):
    mod = load(args.prop)
    prop, tier, seed = args.prop, args.tier, args.seed
    t0 = time.time()
    plan = mod.plan(tier)
    nsh = int(os.environ.get("VERIF_SHARDS", plan.get("shards", 8)))
    work = os.path.join(H.VERIF, ".work", f"{prop}-{os.getpid()}")
    os.makedirs(work, exist_ok=True)
    procs = []
    hard = plan.get("hard_timeout_s", max(4 * plan.get("budget_s", 600), 900))
    for i in range(nsh):
        out = os.path.join(work, f"shard{i}.json")
        cmd = [H.PY, "-m", "vmon.main", prop, tier, "--seed", str(seed), "--shard", f"{i}/{nsh}", "--out", out]
        log = open(os.path.join(work, f"shard{i}.log"), "w")
        procs.append((i, out, subprocess.Popen(cmd, cwd=H.VERIF, env=H.child_env(), stdout=log, stderr=subprocess.STDOUT), log))
    dumps, dead = [], []
    for i, out, p, log in procs:
        try:
            p.wait(timeout=max(1, hard - (time.time() - t0)))
        except subprocess.TimeoutExpired:
            p.kill()
            p.wait()
            dead.append((i, "watchdog"))
        log.close()
        if os.path.exists(out):
            with open(out) as f:
                dumps.append(json.load(f))
        elif (i, "watchdog") not in dead:
            tail = open(os.path.join(work, f"shard{i}.log")).read()[-1500:]
            dead.append((i, "no-output rc=%s: %s" % (p.returncode, tail)))
    merged = H.merge_dumps(dumps)
    rc = report(mod, prop, tier, seed, merged, dead, nsh, time.time() - t0)
    shutil.rmtree(work, ignore_errors=True)
    try:
        os.rmdir(os.path.join(H.VERIF, ".work"))
    except OSError:
        pass
    return rc


def report(mod, prop, tier, seed, merged, dead, nsh, wall):
    c = merged["counters"]
    new, matched, known = classify(prop, merged["violations"])
    reasons = []
    floors = mod.floors(tier) if hasattr(mod, "floors") else {}
    unmet = {k: (c.get(k, 0), v) for k, v in floors.items() if c.get(k, 0) < v}
    if unmet:
        reasons.append("reach-floors-unmet:" + ",".join(f"{k}={a}<{b}" for k, (a, b) in sorted(unmet.items())))
    if merged["canaries_silent"]:
        reasons.append("silent-canaries:" + ",".join(merged["canaries_silent"])[:300])
    if hasattr(mod, "canaries") and merged["canaries_fired"] == 0:
        reasons.append("no-canary-fired")
    if dead:
        reasons.append("shards-lost:" + ";".join(f"{i}:{why[:200]}" for i, why in dead))
    if c.get("evaluations", 0) == 0:
        reasons.append("no-evaluations")
    if c.get("cases_hit_watchdog", 0) > 0.1 * max(1, c.get("evaluations", 0)):
        reasons.append("more than 10%% of cases hit the per-case watchdog (%d)" % c["cases_hit_watchdog"])
    cov = {
        "evaluations": int(c.get("evaluations", 0)),
        "distinct_nontrivial": len(merged["sigs"]),
        "rule": getattr(mod, "RULE", ""),
        "samples": merged["samples"],
        "counters": {k: int(v) for k, v in sorted(c.items())},
        "reach_floors": floors,
        "tolerance_margins_worst_observed_over_allowed": {k: round(v, 6) for k, v in sorted(merged["margins"].items())},
        "canaries_fired": merged["canaries_fired"],
        "shards": nsh,
        "shard_wall_s": merged["shard_wall_s"],
        "known_findings_matched": {k: len(v) for k, v in matched.items()},
        "inconclusive_reasons": reasons,
        "repo": H.REPO,
        "tier": tier,
    }
    cov.update(merged["notes"])
    if hasattr(mod, "finalize"):
        try:
            mod.finalize(cov, merged)
        except Exception as e:
            reasons.append("finalize-failed:" + repr(e)[:200])
    ev = {"property_id": prop, "tier": tier, "seed": seed,
          "level": getattr(mod, "LEVEL", "exploration"), "coverage": cov,
          "assumptions": list(getattr(mod, "ASSUMPTIONS", [])), "wall_s": round(wall, 2),
          "violations": len(new)}
    # evidence/<id>.json describes runs against /repo itself; a sensitivity run against a scratch copy (VERIF_REPO set to
    # something else by mutants/run.py or tools/verify_seeded.py) writes under .work/ instead
    evdir = os.path.join(H.VERIF, "evidence") if os.path.realpath(H.REPO) == "/repo" else os.path.join(H.VERIF, ".work", "evidence-scratch")
    os.makedirs(evdir, exist_ok=True)
    evp = os.path.join(evdir, f"{prop}.json")
    with open(evp + ".tmp", "w") as f:
        json.dump(ev, f, indent=1)
    os.replace(evp + ".tmp", evp)

    print(f"[{prop}] tier={tier} seed={seed} evaluations={cov['evaluations']} distinct={cov['distinct_nontrivial']} "
          f"wall={wall:.1f}s canaries={merged['canaries_fired']}")
    keys = [k for k in sorted(c) if k not in ("evaluations",)]
    print("[%s] counters: %s" % (prop, " ".join(f"{k}={c[k]}" for k in keys[:60])))
    for k, vs in matched.items():
        print(f"KNOWN-FINDING: property={prop} {known[k].get('what', k)} [key={k}; {len(vs)} occurrence(s)]")
    if new:
        seen = set()
        for v in new:
            if v["key"] in seen:
                continue
            seen.add(v["key"])
            path = write_replay(prop, tier, seed, v)
            print(f"[{prop}] violation key={v['key']} :: {v['what'][:400]}")
            print(f"VIOLATION property={prop} replay={path}")
        return 1
    if reasons:
        print(f"INCONCLUSIVE property={prop} reason={' | '.join(reasons)}")
        return 2
    print(f"[{prop}] HELD on everything explored")
    return 0


def replay_main(args):
    with open(args.replay) as f:
        r = json.load(f)
    mod = load(r["property"])
    ctx = H.Ctx(r["property"], r["tier"], r["seed"])
    if isinstance(r["idx"], int):
        run_one(mod, ctx, r["idx"])
    elif hasattr(mod, "replay"):
        mod.replay(ctx, r)
    else:
        run_shard_inproc(mod, ctx, [], 0)
    new, matched, known = classify(r["property"], ctx.violations)
    for k in matched:
        print(f"KNOWN-FINDING: property={r['property']} {known[k].get('what', k)}")
    for v in new:
        print(f"[{r['property']}] violation key={v['key']} :: {v['what'][:1500]}")
    if new:
        print(f"VIOLATION property={r['property']} replay={os.path.abspath(args.replay)}")
        return 1
    print(f"[{r['property']}] replay did not reproduce a violation")
    return 0


def main(argv=None):
    ap = argparse.ArgumentParser()
    ap.add_argument("prop")
    ap.add_argument("tier", nargs="?", default=None)
    ap.add_argument("--seed", type=int, default=int(os.environ.get("VERIF_SEED", "0")))
    ap.add_argument("--shard")
    ap.add_argument("--out")
    ap.add_argument("--replay")
    ap.add_argument("--one", type=int, help="run one case index in-process (debug)")
    args = ap.parse_args(argv)
    args.prop = args.prop.upper()
    args.tier = os.environ.get("VERIF_TIER") or args.tier or "quick"
    if args.replay:
        return replay_main(args)
    if args.one is not None:
        mod = load(args.prop)
        ctx = H.Ctx(args.prop, args.tier, args.seed)
        run_one(mod, ctx, args.one)
        if hasattr(mod, "end_shard"):
            mod.end_shard(ctx)
        print(json.dumps(ctx.dump(), indent=1)[:6000])
        return 1 if ctx.violations else 0
    if args.shard:
        return child_main(args)
    return parent_main(args)


if __name__ == "__main__":
    sys.exit(main())
