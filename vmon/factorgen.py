"""Shared generators / observers for the factorisation checks C04 and C13 (owner: factor-trunc agent).

* operands: harness tensors (vmon.dense.HTensor, dense truth known) realised in a random lazy state, optionally
  fused (meta / hard, one or two levels, with permutation) and lazily transposed again after fusion;
* bipartitions of the (fused) legs with random order;
* observation of a factor: unfuse everything, check the outer legs against the universe, to_numpy over universe legs
  with the connecting axis at the native position implied by the *claimed* axis argument;
* sector analysis of the dense truth by the independent group law (vmon.groups): charge of every row / column
  multi-index, rows/columns that are covered by a stored block, charge of the new leg by charge conservation.
"""
from __future__ import annotations

import numpy as np

from . import dense as D
from . import groups as G

STATES = ("plain", "lazy", "lazy", "consumed", "copy")


def fro(x):
    """Frobenius norm that neither overflows nor underflows for entries ~1e+-200."""
    x = np.asarray(x)
    if not x.size:
        return 0.0
    m = float(np.max(np.abs(x)))
    if m == 0 or m != m or m == float("inf"):
        return m
    return m * float(np.linalg.norm((x / m).ravel()))


def norm_of(values):
    """sqrt(sum v^2) of an iterable of (value, multiplicity), overflow-safe."""
    vals = [(abs(float(v)), n) for v, n in values if n > 0 and v != 0]
    if not vals:
        return 0.0
    m = max(v for v, _ in vals)
    return m * float(np.sqrt(sum((v / m) ** 2 * n for v, n in vals)))


SCALES = (1e-200, 1e-150, 1e-60, 1e60, 1e150, 1e200)


def draw_scale(rng, p=0.12):
    """1.0, or with probability p an extreme but legal overall factor (all clauses are relative)."""
    return rng.choice(SCALES) if rng.random() < p else 1.0


def scaled(ht, c):
    return ht if c == 1.0 else ht.map_values(lambda v: v * c, ht.dtype)


def pending_noninvolutive(y):
    """The tensor carries a pending lazy transpose that is not its own inverse (contains a cycle of length >= 3)."""
    tr = tuple(y.trans)
    return any(tr[tr[i]] != i for i in range(len(tr)))


def mat_last(arr):
    """(..., D) -> (prod, D)   (safe for D == 0)."""
    return arr.reshape(int(np.prod(arr.shape[:-1], dtype=np.int64)), arr.shape[-1])


def mat_first(arr):
    """(..., D) -> (D, prod): the connecting axis (last) becomes the row index."""
    return np.moveaxis(arr, -1, 0).reshape(arr.shape[-1], int(np.prod(arr.shape[:-1], dtype=np.int64)))


def maxabs(x):
    x = np.asarray(x)
    return float(np.max(np.abs(x))) if x.size else 0.0


# ------------------------------------------------------------------ operands

def realize(ht, rng, cfg, state=None):
    """As checks.c01.realize: the same tensor, reached through a pending transpose / consume / copy."""
    state = state or rng.choice(STATES)
    if state == "plain" or ht.rank < 2:
        return ht.to_yastn(cfg), "plain"
    q = list(range(ht.rank))
    rng.shuffle(q)
    if q == sorted(q):
        q = q[1:] + q[:1]
    inv = [int(x) for x in np.argsort(q)]
    y = ht.permute(q).to_yastn(cfg).transpose(inv)
    if state == "consumed":
        y = y.consume_transpose()
    elif state == "copy":
        y = y.copy()
    return y, state


class Operand:
    """y: yastn tensor handed to the library; tops[i] = tuple of native axes of ht merged in leg i of y."""

    def __init__(self, ht, y, tops, info):
        self.ht, self.y, self.tops, self.info = ht, y, tops, info
        # what the caller holds before the library is called: the factors must reproduce *this*, also afterwards
        self.pre = (y, np.array(y._data, copy=True), y.struct, y.slices, getattr(y, "trans", None), y.mfs, y.hfs)

    def input_changed(self):
        """None, or a text saying how the tensor object handed to the library differs from its state at construction."""
        y0, data, struct, slices, trans, mfs, hfs = self.pre
        if y0 is not self.y:
            return None
        y = self.y
        if y.struct != struct or y.slices != slices or getattr(y, "trans", None) != trans or y.mfs != mfs or y.hfs != hfs:
            return "metadata (struct / slices / trans / fusion) of the input object changed"
        now = np.asarray(y._data)
        if now.shape != data.shape:
            return f"data buffer of the input object changed shape {data.shape} -> {now.shape}"
        if not np.array_equal(now, data, equal_nan=True):
            k = int(np.argmax(now != data))
            return f"data buffer of the input object changed ({int(np.sum(now != data))} of {data.size} entries, first at {k}: {data[k]!r} -> {now[k]!r})"
        return None

    @property
    def nlegs(self):
        return len(self.tops)

    def sig(self):
        return (self.ht.sig(), tuple(self.tops), self.info["state"], tuple(self.info["fusion"]), self.info["post"])


def _split(rng, seq, k):
    """Ordered partition of seq into k non-empty consecutive groups."""
    cuts = sorted(rng.sample(range(1, len(seq)), k - 1))
    out, lo = [], 0
    for c in cuts + [len(seq)]:
        out.append(tuple(seq[lo:c]))
        lo = c
    return out


def make_operand(rng, ht, cfg, fusion=None, state=None, min_legs=2):
    """Realise ht; fuse (none | meta | hard | two levels) keeping at least ``min_legs`` legs; maybe transpose lazily."""
    y, st = realize(ht, rng, cfg, state)
    tops = [(i,) for i in range(ht.rank)]
    fusion = fusion if fusion is not None else rng.choice(("none", "none", "meta", "hard", "two"))
    levels = []
    if fusion != "none":
        modes = {"meta": ("meta",), "hard": ("hard",),
                 "two": rng.choice((("meta", "meta"), ("hard", "hard"), ("hard", "meta"), ("meta", "hard")))}[fusion]
        for mode in modes:
            m = len(tops)
            if m <= min_legs:
                break
            perm = list(range(m))
            rng.shuffle(perm)
            k = rng.randint(min_legs, m - 1)
            groups = _split(rng, perm, k)
            arg = tuple(g if (len(g) > 1 or rng.random() < 0.2) else g[0] for g in groups)
            y = y.fuse_legs(axes=arg, mode=mode)
            tops = [sum((tops[i] for i in g), ()) for g in groups]
            levels.append((mode, tuple(groups)))
    post = "none"
    if len(tops) >= 2 and rng.random() < 0.4:
        q = list(range(len(tops)))
        rng.shuffle(q)
        y = y.transpose(tuple(q))
        tops = [tops[i] for i in q]
        post = rng.choice(("lazy", "lazy", "consumed", "copy"))
        if post == "consumed":
            y = y.consume_transpose()
        elif post == "copy":
            y = y.copy()
    return Operand(ht, y, tops, {"state": st, "fusion": levels, "post": post})


def bipartition(rng, m, nl=None):
    """Random ordered bipartition of range(m): (left, right), both non-empty, arbitrary leg order."""
    perm = list(range(m))
    rng.shuffle(perm)
    nl = rng.randint(1, m - 1) if nl is None else nl
    return tuple(perm[:nl]), tuple(perm[nl:])


def axes_arg(rng, left, right):
    """The ``axes`` argument: ints are allowed for single legs."""
    f = lambda g: g[0] if (len(g) == 1 and rng.random() < 0.5) else (tuple(g) if rng.random() < 0.7 else list(g))
    return (f(left), f(right))


def flat_axes(op, group):
    return tuple(ax for i in group for ax in op.tops[i])


def rand_axis(rng, n):
    """An axis position for a tensor of n legs over the full legal range, negative values included."""
    return rng.randrange(-n, n)


# ------------------------------------------------------------------ observation of factors

def unfuse_all(x):
    while True:
        n = x.ndim
        x2 = x.unfuse_legs(axes=tuple(range(n)))
        if x2.ndim == n:
            return x2
        x = x2


def leg_tuple(leg):
    return (int(leg.s), tuple(map(tuple, leg.t)), tuple(int(d) for d in leg.D))


def observe_factor(x, claimed_axis, side_tops, hlegs_native, newleg):
    """Dense image of a factor.

    x             factor as returned (fused legs as in the operand, connecting leg at ``claimed_axis``)
    side_tops     native-axis tuples of the outer legs, in the order they must appear (connecting leg removed)
    hlegs_native  universe legs of the flattened outer legs
    newleg        yastn Leg to embed the connecting axis in (taken from S / R)
    returns (problem | None, dense array with the connecting axis moved LAST, native position of that axis)
    """
    nfl = len(side_tops) + 1
    if x.ndim != nfl:
        return f"rank {x.ndim}, expected {nfl}", None, None
    pos = claimed_axis % nfl
    npos = sum(len(side_tops[i]) for i in range(pos))
    # logical grouping: every outer leg must hold exactly the native legs of the operand leg it comes from
    flegs = x.get_legs()
    for j, top in zip([j for j in range(nfl) if j != pos], side_tops):
        n_nat = flegs[j].history().count("o")
        if n_nat != len(top):
            return f"leg {j} groups {n_nat} native legs ({flegs[j].history()}), the operand leg it comes from groups {len(top)}", None, None
    if flegs[pos].history() != "o":
        return f"connecting leg at {pos} is a fused leg ({flegs[pos].history()})", None, None
    xn = unfuse_all(x)
    nat = len(hlegs_native) + 1
    if xn.ndim != nat:
        return f"native rank {xn.ndim} after unfusing, expected {nat}", None, None
    ylegs = xn.get_legs()
    outer = [j for j in range(nat) if j != npos]
    for j, hl in zip(outer, hlegs_native):
        bad = D.sub_leg_ok(ylegs[j], hl)
        if bad:
            return f"outer leg {j}: {bad}", None, None
    lg = {j: hl.to_yastn() for j, hl in zip(outer, hlegs_native)}
    lg[npos] = newleg
    try:
        arr = xn.to_numpy(legs=lg)
    except Exception as e:       # the connecting leg is not where the axis argument claims
        if type(e).__name__ != "YastnError":
            raise
        return f"to_numpy with the connecting leg at native position {npos} rejected: {e}", None, None
    return None, np.moveaxis(arr, npos, -1), npos


# ------------------------------------------------------------------ sector analysis (independent group law)

def axis_charges(sym, hleg):
    """(dim, nsym) array: s * t for every index of the universe leg."""
    ns = G.nsym(sym)
    out = np.zeros((hleg.dim, ns), dtype=np.int64)
    for t, (lo, hi) in hleg.offsets().items():
        out[lo:hi, :] = np.array(t, dtype=np.int64).reshape(1, ns) * hleg.s
    return out


def _canon(sym, arr):
    arr = arr.copy()
    for k, m in enumerate(G.MODULI[sym]):
        if m:
            arr[:, k] %= m
    return arr


def multi_charges(sym, hlegs):
    """Charge sum_i s_i t_i of every multi-index (row-major flattening) of the given universe legs."""
    ns = G.nsym(sym)
    acc = np.zeros((1, ns), dtype=np.int64)
    for hl in hlegs:
        c = axis_charges(sym, hl)
        acc = (acc[:, None, :] + c[None, :, :]).reshape(acc.shape[0] * c.shape[0], ns)
    return _canon(sym, acc)


def present_flat(ht, axes):
    """Boolean vector over the row-major multi-index of ``axes``: covered by some stored block of ht."""
    dims = tuple(ht.legs[ax].dim for ax in axes)
    m = np.zeros(dims, dtype=bool)
    offs = [ht.legs[ax].offsets() for ax in axes]
    for key in ht.blocks:
        m[tuple(slice(*o[key[ax]]) for o, ax in zip(offs, axes))] = True
    return m.ravel()


def group_by_charge(ch, keep=None):
    out = {}
    for i, c in enumerate(map(tuple, ch.tolist())):
        if keep is None or keep[i]:
            out.setdefault(c, []).append(i)
    return {c: np.array(v, dtype=np.int64) for c, v in out.items()}


class Sectors:
    """Block-diagonal structure of the dense truth E (axes = flatL + flatR of ht) for a charge split (Un, Vn)."""

    def __init__(self, ht, flatL, flatR, sU, Un):
        sym = ht.sym
        self.sym = sym
        legsL = [ht.legs[i] for i in flatL]
        legsR = [ht.legs[i] for i in flatR]
        E = np.transpose(ht.dense(), tuple(flatL) + tuple(flatR)) if ht.rank else ht.dense()
        self.L = int(np.prod([l.dim for l in legsL], dtype=np.int64))
        self.R = int(np.prod([l.dim for l in legsR], dtype=np.int64))
        self.M = E.reshape(self.L, self.R)
        cL, cR = multi_charges(sym, legsL), multi_charges(sym, legsR)
        pL, pR = present_flat(ht, flatL), present_flat(ht, flatR)
        rows, cols = group_by_charge(cL, pL), group_by_charge(cR, pR)
        self.sec = {}
        for c, r in rows.items():
            cr = G.add(sym, (ht.n, c), (1, -1))          # column charge that pairs with row charge c
            if cr not in cols:
                continue
            tcon = G.add(sym, (Un, c), (1, -1), new_sign=sU)    # sum_left s t + sU * t_con = Un
            self.sec[tcon] = (r, cols[cr])

    def matrix(self, t):
        r, c = self.sec[t]
        return self.M[np.ix_(r, c)]


def diag_blocks(S):
    """{charge of leg 0: 1d values} of a diagonal yastn tensor, read through the block accessor only."""
    ns = S.config.sym.NSYM
    out = {}
    lg = S.get_legs(0)
    for t in lg.t:
        t = tuple(t)
        try:
            out[t] = np.array(S[t + t]).copy()
        except Exception as e:
            if type(e).__name__ != "YastnError":
                raise
    return out


def from_dense(sym, legs, n, arr, dtype=None, keys=None):
    """HTensor whose blocks are cut out of a dense array (all charge-allowed keys, or the given ones)."""
    offs = [l.offsets() for l in legs]
    blocks = {}
    for key in (D.allowed_keys(sym, legs, n) if keys is None else keys):
        sl = tuple(slice(*o[t]) for o, t in zip(offs, key))
        blocks[key] = np.array(arr[sl])
    return D.HTensor(sym, legs, n, blocks, dtype or str(arr.dtype))

# ------------------------------------------------------------------ designed spectra (degeneracies, exact zeros)

def design_values(rng, k):
    pat = rng.choice(("dyadic", "dyadic+zeros", "equal", "levels"))
    if pat == "equal":
        return [1.0] * k
    if pat == "levels":
        lv = [1.0, 0.5, 0.1]
        return sorted((rng.choice(lv) for _ in range(k)), reverse=True)
    v = [2.0 ** -rng.randint(0, 4) for _ in range(k)]
    if pat.endswith("zeros"):
        v = [0.0 if rng.random() < 0.25 else x for x in v]
    return sorted(v, reverse=True)


def redesign_svd(rng, ht, flatL, flatR, values=None):
    """Same legs, sector-wise U diag(designed) V: spectrum with exact (to rounding) degeneracies and zeros
    (or values(k, i) for the i-th sector when given)."""
    sec = Sectors(ht, flatL, flatR, 1, ht.n)
    M = np.zeros_like(sec.M)
    for i, (t, (r, c)) in enumerate(sorted(sec.sec.items())):
        u, s, v = np.linalg.svd(sec.matrix(t), full_matrices=False)
        d = design_values(rng, len(s)) if values is None else values(len(s), i)
        M[np.ix_(r, c)] = (u * np.array(d)[None, :]) @ v
    dims = [ht.legs[i].dim for i in tuple(flatL) + tuple(flatR)]
    arr = np.transpose(M.reshape(dims), np.argsort(tuple(flatL) + tuple(flatR)))
    return from_dense(ht.sym, ht.legs, ht.n, arr, ht.dtype, keys=sorted(ht.blocks))


def redesign_eigh(rng, h, flatL, flatR, psd):
    sec = Sectors(h, flatL, flatR, 1, h.n)
    M = np.zeros_like(sec.M)
    for t, (r, c) in sec.sec.items():
        ev, u = np.linalg.eigh(sec.matrix(t))
        d = np.array(design_values(rng, len(ev)))
        if not psd:
            d = d * np.array([rng.choice((1, -1)) for _ in d])
        X = (u * d[None, :]) @ u.conj().T
        M[np.ix_(r, c)] = (X + X.conj().T) / 2
    dims = [h.legs[i].dim for i in tuple(flatL) + tuple(flatR)]
    arr = np.transpose(M.reshape(dims), np.argsort(tuple(flatL) + tuple(flatR)))
    return from_dense(h.sym, h.legs, h.n, arr, h.dtype, keys=sorted(h.blocks))


def square_psd(h, flatL, flatR):
    """h h^+ over the same legs (positive semi-definite, same sectors)."""
    dims = [h.legs[i].dim for i in tuple(flatL) + tuple(flatR)]
    L = int(np.prod(dims[:len(flatL)]))
    M = np.transpose(h.dense(), tuple(flatL) + tuple(flatR)).reshape(L, L)
    P = M @ M.conj().T
    P = (P + P.conj().T) / 2
    arr = np.transpose(P.reshape(dims), np.argsort(tuple(flatL) + tuple(flatR)))
    # support: every charge-allowed block between rows / columns that h covers
    pres = [set(k[i] for k in h.blocks) for i in range(h.rank)]
    keys = [k for k in D.allowed_keys(h.sym, h.legs, h.n) if all(k[i] in pres[i] for i in range(h.rank))]
    return from_dense(h.sym, h.legs, h.n, arr, h.dtype, keys=keys)


def similarity_scale(rng, h, k, factors=(1 / 32, 1.0, 1.0, 32.0)):
    """T h T^-1 with a random diagonal T (entries from ``factors``) on a tensor over legs (L_1..L_k, conj L_1..L_k):
    same spectrum and block support, eigenvector basis with condition number up to max/min of the factors."""
    dims = [l.dim for l in h.legs]
    L = int(np.prod(dims[:k], dtype=np.int64))
    t = np.array([rng.choice(factors) for _ in range(L)])
    M = h.dense().reshape(L, L) * (t[:, None] / t[None, :])
    return from_dense(h.sym, h.legs, h.n, M.reshape(dims), h.dtype, keys=sorted(h.blocks))
