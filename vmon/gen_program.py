"""Random operation programs over a pool of tensors, recordable and re-executable.

A program is generated *while executing* under a reference configuration (operand choice needs the legs
of intermediate results) and stored as a list of steps that refer to pool indices and logical leg
positions only, so the same program can be re-executed under another configuration (C14), another cache
history (C16) or with monitors attached (C02, C15).

    prog = generate(rng, nprng, sym, fermionic, length)          # runs under cfg_ref
    pool, obs = execute(prog, cfg, perturb=None, on_step=None)   # re-run

obs[k] is the observation of step k:  ("tensor", legs, n, dense)  after *unfusing every fused leg*
(so hard and meta fusion are comparable), or ("scalar", value).
"""
from __future__ import annotations

import itertools

import numpy as np

from . import dense as D
from . import groups as G

MAX_POOL = 14
MAX_SIZE = 6000
MAX_RANK = 6


class Program:
    def __init__(self, sym, fermionic, init, steps, dtype):
        self.sym, self.fermionic, self.init, self.steps, self.dtype = sym, fermionic, init, steps, dtype

    def desc(self):
        return {"sym": self.sym, "fermionic": self.fermionic, "init": [h.desc() for h in self.init],
                "steps": [list(map(_j, s)) for s in self.steps]}

    def sig(self):
        return (self.sym, self.fermionic, tuple(h.sig() for h in self.init), repr(self.steps))


def _j(x):
    if isinstance(x, (tuple, list)):
        return [_j(v) for v in x]
    if isinstance(x, complex):
        return [x.real, x.imag]
    return x


# ------------------------------------------------------------------ leg compatibility (generation only)

def _leaves(leg):
    if hasattr(leg, "legs"):            # LegMeta
        out = []
        for l in leg.legs:
            out.extend(_leaves(l))
        return out
    if leg.hf.tree[0] > 1 and leg.hf.op[0] == "p":
        out = []
        for l in leg.unfuse_leg():
            out.extend(_leaves(l))
        return out
    return [leg]


def _shape_of(leg):
    if hasattr(leg, "legs"):
        return ("m", leg.mf, tuple(_shape_of(l) for l in leg.legs))
    return ("h", leg.hf.tree, leg.hf.op)


def legs_contractible(la, lb, sgn=-1):
    """Can leg la be contracted (sgn=-1) / added (sgn=+1) with lb?  Conservative."""
    if _shape_of(la) != _shape_of(lb):
        return False
    if "s" in "".join(_op_string(la)):
        return False
    xa, xb = _leaves(la), _leaves(lb)
    if len(xa) != len(xb):
        return False
    for a, b in zip(xa, xb):
        if a.s != sgn * b.s:
            return False
        da, db = dict(zip(a.t, a.D)), dict(zip(b.t, b.D))
        if any(da[t] != db[t] for t in da if t in db):
            return False
    return True


def _op_string(leg):
    if hasattr(leg, "legs"):
        return [o for l in leg.legs for o in _op_string(l)]
    return [leg.hf.op]


def is_fused(leg):
    return hasattr(leg, "legs") or leg.hf.tree[0] > 1


# ------------------------------------------------------------------ observation

def unfuse_all(t):
    for _ in range(12):
        if t.isdiag:
            return t
        ax = [i for i, l in enumerate(t.get_legs()) if (hasattr(l, "legs") or (l.hf.tree[0] > 1 and l.hf.op[0] == "p"))]
        if not ax:
            return t
        t = t.unfuse_legs(axes=tuple(ax))
    return t


def observe(t):
    import yastn
    if not isinstance(t, yastn.Tensor):
        return ("scalar", complex(t))
    u = unfuse_all(t)
    legs = u.get_legs()
    ldesc = tuple((l.s, tuple(l.t), tuple(l.D)) for l in legs)
    return ("tensor", ldesc, tuple(u.n), u.to_numpy(), u)


# ------------------------------------------------------------------ step execution

def apply_step(pool, step, cfg):
    """Execute one recorded step; returns list of new pool entries (tensors or scalars)."""
    import yastn
    op = step[0]
    if op == "transpose":
        return [pool[step[1]].transpose(tuple(step[2]))]
    if op in ("conj", "conj_blocks", "flip_signature", "consume_transpose", "copy"):
        return [getattr(pool[step[1]], op)()]
    if op == "scale":
        return [pool[step[1]] * step[2]]
    if op == "add":
        a, b = pool[step[1]], pool[step[2]]
        return [a + b if step[3] > 0 else a - b]
    if op == "tensordot":
        return [yastn.tensordot(pool[step[1]], pool[step[2]], axes=(tuple(step[3]), tuple(step[4])), conj=tuple(step[5]))]
    if op == "trace":
        return [yastn.trace(pool[step[1]], axes=(tuple(step[2]), tuple(step[3])))]
    if op == "fuse":
        return [pool[step[1]].fuse_legs(axes=step[2], mode=step[3])]
    if op == "unfuse":
        return [pool[step[1]].unfuse_legs(axes=step[2])]
    if op == "svd":
        a = pool[step[1]]
        U, S, V = yastn.svd(a, axes=(tuple(step[2]), tuple(step[3])), sU=step[4], nU=step[5])
        rec = U @ S @ V
        # a hard-fused leg spans the full product space of its constituents, a meta-fused (or plain) operand only the sectors
        # its blocks reach: the factorisations then differ by exactly-zero singular values (by design); they are dropped
        if S.size:
            S = (S > 1e-12 * float(S.norm(p='inf'))).apply_mask(S, axes=0)
        return [rec, S]
    if op == "qr":
        a = pool[step[1]]
        Q, R = yastn.qr(a, axes=(tuple(step[2]), tuple(step[3])), sQ=step[4])
        return [Q @ R]
    if op == "add_leg":
        return [pool[step[1]].add_leg(axis=step[2], s=step[3])]
    if op == "remove_leg":
        return [pool[step[1]].remove_leg(axis=step[2])]
    if op == "unit_legs":
        # two charged dimension-one legs added next to each other, fused into one leg, and removed as one leg
        _, i, axis, s1, t1, s2, t2, mode = step
        a = pool[i]
        r1 = a.add_leg(axis=axis, s=s1, t=tuple(t1)).add_leg(axis=axis + 1, s=s2, t=tuple(t2))
        groups = tuple((axis, axis + 1) if k == axis else k for k in range(r1.ndim) if k != axis + 1)
        f = r1.fuse_legs(axes=groups, mode=mode)
        return [r1, f, f.remove_leg(axis=axis)]
    if op == "mixed_partial":
        _, i, pads, p, sizes, modes, sel = step
        a = pool[i]
        for axis, sg in pads:
            a = a.add_leg(axis=axis, s=sg)
        groups, k = [], 0
        for g in sizes:
            groups.append(tuple(p[k:k + g]))
            k += g
        # hard groups first (meta groups stay as runs of plain legs), then the meta groups on top
        ax1, pos, k = [], [], 0
        for grp, m in zip(groups, modes):
            if m == "hard":
                ax1.append(grp); pos.append((k,)); k += 1
            else:
                ax1.extend(grp); pos.append(tuple(range(k, k + len(grp)))); k += len(grp)
        f1 = a.fuse_legs(axes=tuple(ax1), mode="hard") if any(m == "hard" for m in modes) else a.transpose(tuple(x for g in groups for x in g))
        ax2 = tuple(q if m == "meta" else q[0] for q, m in zip(pos, modes)) if any(m == "meta" for m in modes) else None
        f2 = f1.fuse_legs(axes=tuple(q if len(q) > 1 else q[0] for q in pos), mode="meta") if ax2 is not None else f1
        u = f2.unfuse_legs(axes=tuple(sel) if len(sel) > 1 else sel[0])
        return [f2, u]
    if op == "outer_view":
        _, i, kb, c = step
        t = pool[i].consume_transpose()
        u = t.copy()
        sl = u.slices[kb].slcs[0]
        u._data[slice(*sl)] *= c
        a = yastn.tensordot(t, u, axes=((), ()))
        r = t.ndim
        return [a, a.transpose(tuple(range(r, 2 * r)) + tuple(range(r)))]
    if op == "svdvals":
        _, i, k, sU = step
        a = pool[i]
        S = yastn.svd(a, axes=(tuple(range(k)), tuple(range(k, a.ndim))), sU=sU, compute_uv=False)
        return [S, a.copy()]
    if op == "vdot":
        return [yastn.vdot(pool[step[1]], pool[step[2]])]
    if op == "norm":
        return [pool[step[1]].norm()]
    if op == "swap_gate":
        return [pool[step[1]].swap_gate(axes=step[2])]
    if op == "ncon":
        return [yastn.ncon([pool[i] for i in step[1]], step[2], conjs=step[3])]
    if op == "broadcast":
        return [pool[step[1]].broadcast(pool[step[2]], axes=step[3])]
    if op == "mask":
        S = pool[step[1]]
        m = S > step[3]
        return [m.apply_mask(pool[step[2]], axes=step[4])]
    if op == "diag":
        a = pool[step[1]]
        if len(step) > 2 and step[2]:
            # both directions under a pending transpose: diagonal -> full of the lazily transposed diagonal tensor, and
            # full -> diagonal of the lazily transposed full image
            full = a.diag()
            return [a.T.diag(), a.transpose((1, 0)).diag(), full.T.diag(), full.transpose((1, 0)).diag().diag()]
        return [a.diag()]
    if op == "flip_charges":
        return [pool[step[1]].flip_charges(axes=tuple(step[2]))]
    if op == "addn_lazy":
        # n-ary linear combination whose operands are the same logical tensor in different lazy states
        _, i, perm, amps, pos = step
        a = pool[i]
        inv = [int(x) for x in np.argsort(perm)]
        lazy = a.transpose(tuple(perm)).consume_transpose().transpose(tuple(inv))     # pending transpose, other native order
        ops = [a, a.copy(), a * 1.0]
        ops[pos] = lazy
        return [yastn.add(*ops, amplitudes=list(amps))]
    if op == "add_mismatch":
        # two individually well-formed tensors that give different dimensions to one sector in disjoint blocks:
        # a + b must be rejected (YastnError) - or, if anything is returned, the monitors judge it
        _, i, k = step
        a = pool[i].consume_transpose()
        nsym = a.config.sym.NSYM
        half = len(a.struct.t) // 2
        c0 = a.struct.t[half][k * nsym:(k + 1) * nsym]
        lo = yastn.Tensor(config=a.config, s=a.struct.s, n=a.struct.n, dtype=a.yastn_dtype)
        hi = yastn.Tensor(config=a.config, s=a.struct.s, n=a.struct.n, dtype=a.yastn_dtype)
        for j, (t, Dd) in enumerate(zip(a.struct.t, a.struct.D)):
            if j < half:
                lo.set_block(ts=t, Ds=Dd, val="ones")
            else:
                Dn = tuple(d + (1 if (q == k and t[k * nsym:(k + 1) * nsym] == c0) else 0) for q, d in enumerate(Dd))
                hi.set_block(ts=t, Ds=Dn, val="ones")
        for x, y in ((lo, hi), (hi, lo)):
            try:
                x + y            # whatever is returned is judged by the boundary monitors at the __add__ event
            except Exception as e:
                if type(e).__name__ != "YastnError":
                    raise
        return []                # nothing joins the pool: which blocks are stored (hence the split) may depend on the configuration
    if op == "zero_block":
        c = pool[step[1]].copy()
        key = tuple(step[2])
        if key in c:             # block presence (explicit zero blocks) may differ between policies: absent = already zero
            c[key] = c[key] * 0  # documented item assignment on a private copy; key is in logical leg order
        return [c]
    if op == "remove_zero_blocks":
        return [pool[step[1]].remove_zero_blocks()]
    if op == "to_dict":
        t = pool[step[1]]
        return [yastn.Tensor.from_dict(t.to_dict(level=step[2]), config=cfg)]
    raise ValueError(op)


def initial_pool(prog, cfg):
    return [h.to_yastn(cfg) for h in prog.init]


def execute(prog, cfg, perturb=None, on_step=None, observe_steps=True):
    """Re-run a recorded program.  perturb(k, pool) may replace pool entries by lazily-equivalent ones."""
    import yastn
    pool = initial_pool(prog, cfg)
    obs = []
    for k, step in enumerate(prog.steps):
        if perturb is not None:
            perturb(k, pool)
        new = apply_step(pool, step, cfg)
        pool.extend(new)
        if observe_steps:
            obs.append([observe(x) for x in new])
        if on_step is not None:
            on_step(k, step, new)
    return pool, obs


# ------------------------------------------------------------------ generation

def _cands_tensordot(pool, rng):
    import yastn
    idx = [i for i, t in enumerate(pool) if isinstance(t, yastn.Tensor) and not t.isdiag]
    rng.shuffle(idx)
    for i in idx[:6]:
        for j in idx[:6]:
            a, b = pool[i], pool[j]
            la, lb = a.get_legs(), b.get_legs()
            pairs = [(x, y) for x in range(a.ndim) for y in range(b.ndim) if legs_contractible(la[x], lb[y], -1)]
            # also conj-compatible pairs (tensordot with conj=(0,1))
            if pairs:
                rng.shuffle(pairs)
                used_a, used_b, sel = set(), set(), []
                for x, y in pairs:
                    if x not in used_a and y not in used_b and (i != j or x != y):
                        sel.append((x, y)); used_a.add(x); used_b.add(y)
                k = rng.randint(1, min(3, len(sel)))
                sel = sel[:k]
                out_rank = a.ndim + b.ndim - 2 * k
                if out_rank <= MAX_RANK:
                    yield ("tensordot", i, j, [x for x, _ in sel], [y for _, y in sel], (0, 0))
            pairs = [(x, y) for x in range(a.ndim) for y in range(b.ndim) if legs_contractible(la[x], lb[y], +1)]
            if pairs:
                rng.shuffle(pairs)
                used_a, used_b, sel = set(), set(), []
                for x, y in pairs:
                    if x not in used_a and y not in used_b:
                        sel.append((x, y)); used_a.add(x); used_b.add(y)
                k = rng.randint(1, min(3, len(sel)))
                sel = sel[:k]
                if a.ndim + b.ndim - 2 * k <= MAX_RANK:
                    cj = rng.choice(((0, 1), (1, 0)))
                    yield ("tensordot", i, j, [x for x, _ in sel], [y for _, y in sel], cj)


def _small(t):
    import yastn
    return isinstance(t, yastn.Tensor) and t.size <= MAX_SIZE and t.ndim <= MAX_RANK


def propose(pool, rng, fermionic, fuse_modes=(None, None, "hard", "meta")):
    """One applicable step (or None)."""
    import yastn
    tens = [i for i, t in enumerate(pool) if isinstance(t, yastn.Tensor)]
    if not tens:
        return None
    # bias towards recent entries
    def pick(pred=lambda t: True):
        c = [i for i in tens if pred(pool[i])]
        if not c:
            return None
        w = [1 + 3 * (i >= len(pool) - 4) for i in c]
        return rng.choices(c, weights=w)[0]
    kind = rng.choice(("transpose", "conj", "scale", "add", "tensordot", "tensordot", "tensordot", "trace", "fuse", "fuse",
                       "unfuse", "svd", "qr", "add_leg", "remove_leg", "vdot", "norm", "swap_gate", "ncon", "broadcast",
                       "mask", "lazy", "diag", "flip_charges", "to_dict", "zero_block", "remove_zero_blocks", "unit_legs",
                       "addn_lazy", "add_mismatch", "mixed_partial", "svdvals", "outer_view", "outer_view"))
    if kind == "outer_view":
        # a = t (x) u (u = t with one block rescaled) and the lazy view of a with the two halves exchanged: same legs as a,
        # same buffer as a, different content - a pair for later vdot / add / tensordot steps
        i = pick(lambda t: 1 <= t.ndim <= 2 and not t.isdiag and 0 < t.size <= 24 and len(t.struct.t) >= 1
                 and not any(is_fused(l) for l in t.get_legs()))
        if i is None:
            return None
        return ("outer_view", i, rng.randrange(len(pool[i].struct.t)), rng.choice((2.5, -0.5, 3.0)))
    if kind == "svdvals":
        # values-only svd in the operand's natural axis order; the operand is read again afterwards
        i = pick(lambda t: t.ndim >= 2 and not t.isdiag and t.size > 0 and not any(is_fused(l) for l in t.get_legs()))
        if i is None:
            return None
        return ("svdvals", i, rng.randint(1, pool[i].ndim - 1), rng.choice((1, -1)))
    if kind == "mixed_partial":
        # plain tensor of rank 2..5 padded with unit legs to 5-6 native legs; groups fused hard / meta / left plain side by side;
        # ONE unfuse_legs call on a subset of the fused legs, then the rest
        if "hard" not in fuse_modes:
            return None           # only in programs that name fusion modes explicitly (not compared across default_fusion)
        i = pick(lambda t: 2 <= t.ndim <= 5 and not t.isdiag and not any(is_fused(l) for l in t.get_legs()))
        if i is None:
            return None
        a = pool[i]
        total = rng.choice((5, 6, 6)) if a.ndim <= 5 else a.ndim
        total = max(total, a.ndim)
        pads = [(rng.randint(0, a.ndim + k), rng.choice((1, -1))) for k in range(total - a.ndim)]
        p = list(range(total)); rng.shuffle(p)
        sizes = rng.choice(((2, 2, 2), (2, 2, 2), (2, 3, 1), (2, 2, 1, 1), (3, 2, 1), (2, 1, 2), (1, 2, 2, 1), (2, 2, 1))) if total == 6 else \
            rng.choice(((2, 2, 1), (2, 1, 2), (1, 2, 2), (2, 3), (3, 2)))
        if sum(sizes) != total:
            sizes = tuple(sizes) + (1,) * (total - sum(sizes)) if sum(sizes) < total else (2,) * (total // 2) + (1,) * (total % 2)
        modes = [rng.choice(("hard", "meta")) if g > 1 else "plain" for g in sizes]
        if rng.random() < 0.5 and len([g for g in sizes if g > 1]) >= 3:
            big = [k for k, g in enumerate(sizes) if g > 1]
            for k, m in zip(big, ("hard", "meta", "hard")):
                modes[k] = m
        fused = [k for k, m in enumerate(modes) if m != "plain"]
        sel = sorted(rng.sample(fused, rng.randint(1, len(fused))))
        return ("mixed_partial", i, pads, p, tuple(sizes), tuple(modes), tuple(sel))
    if kind == "transpose":
        i = pick(lambda t: t.ndim >= 2 and not t.isdiag)
        if i is None:
            return None
        p = list(range(pool[i].ndim)); rng.shuffle(p)
        return ("transpose", i, p)
    if kind == "conj":
        i = pick()
        return (rng.choice(("conj", "conj_blocks", "flip_signature")), i)
    if kind == "lazy":
        i = pick()
        return (rng.choice(("consume_transpose", "copy")), i)
    if kind == "scale":
        i = pick()
        return ("scale", i, rng.choice((2.0, -0.5, 0.25, -1.0)))
    if kind == "add":
        i = pick()
        a = pool[i]
        la = a.get_legs()
        for j in rng.sample(tens, len(tens)):
            b = pool[j]
            if b.ndim == a.ndim and b.isdiag == a.isdiag and tuple(b.n) == tuple(a.n) and \
                    all(legs_contractible(x, y, +1) for x, y in zip(la, b.get_legs())):
                return ("add", i, j, rng.choice((1, -1)))
        return None
    if kind == "tensordot":
        for c in _cands_tensordot(pool, rng):
            return c
        return None
    if kind == "trace":
        i = pick(lambda t: t.ndim >= 2 and not t.isdiag)
        if i is None:
            return None
        a = pool[i]
        la = a.get_legs()
        pairs = [(x, y) for x in range(a.ndim) for y in range(x + 1, a.ndim) if legs_contractible(la[x], la[y], -1)]
        if not pairs:
            return None
        x, y = rng.choice(pairs)
        return ("trace", i, [x], [y]) if rng.random() < 0.5 else ("trace", i, [y], [x])
    if kind == "fuse":
        i = pick(lambda t: t.ndim >= 2 and not t.isdiag)
        if i is None:
            return None
        a = pool[i]
        if any("s" in "".join(_op_string(l)) for l in a.get_legs()):
            return None
        p = list(range(a.ndim)); rng.shuffle(p)
        groups, k = [], 0
        while k < len(p):
            g = rng.choice((1, 1, 2, 2, 3))
            grp = p[k:k + g]
            groups.append(tuple(grp) if len(grp) > 1 else grp[0])
            k += g
        if all(not isinstance(g, tuple) for g in groups):
            groups = [tuple(p[:2])] + p[2:]
        return ("fuse", i, tuple(groups), rng.choice(fuse_modes))
    if kind == "unfuse":
        i = pick(lambda t: not t.isdiag and any(is_fused(l) and "s" not in "".join(_op_string(l)) for l in t.get_legs()))
        if i is None:
            return None
        a = pool[i]
        ax = [k for k, l in enumerate(a.get_legs()) if is_fused(l)]
        sel = rng.sample(ax, rng.randint(1, len(ax)))
        nleaf = sum(len(_leaves(l)) for l in a.get_legs())
        if nleaf > MAX_RANK + 2:
            return None
        return ("unfuse", i, tuple(sorted(sel)) if len(sel) > 1 or rng.random() < 0.5 else sel[0])
    if kind in ("svd", "qr"):
        i = pick(lambda t: t.ndim >= 2 and not t.isdiag and t.size > 0)
        if i is None:
            return None
        a = pool[i]
        p = list(range(a.ndim)); rng.shuffle(p)
        k = rng.randint(1, a.ndim - 1)
        if kind == "svd":
            return ("svd", i, p[:k], p[k:], rng.choice((1, -1)), rng.choice((True, False)))
        return ("qr", i, p[:k], p[k:], rng.choice((1, -1)))
    if kind == "add_leg":
        i = pick(lambda t: not t.isdiag and t.ndim < MAX_RANK)
        if i is None:
            return None
        return ("add_leg", i, rng.randint(0, pool[i].ndim), rng.choice((1, -1)))
    if kind == "addn_lazy":
        i = pick(lambda t: t.ndim >= 2 and not t.isdiag)
        if i is None:
            return None
        perm = list(range(pool[i].ndim)); rng.shuffle(perm)
        if perm == sorted(perm):
            perm = perm[1:] + perm[:1]
        return ("addn_lazy", i, perm, [rng.choice((1, -0.5, 2.0)) for _ in range(3)], rng.randrange(3))
    if kind == "add_mismatch":
        def ok(t):
            if t.isdiag or t.ndim < 1 or len(t.struct.t) < 2 or any(is_fused(l) for l in t.get_legs()):
                return False
            return True
        i = pick(ok)
        if i is None:
            return None
        a = pool[i].consume_transpose()
        nsym, half = a.config.sym.NSYM, len(a.struct.t) // 2
        # leg k whose charge in the first block of the upper half also occurs in the lower half
        ks = [k for k in range(a.ndim_n) if any(t[k * nsym:(k + 1) * nsym] == a.struct.t[half][k * nsym:(k + 1) * nsym] for t in a.struct.t[:half])]
        if not ks:
            return None
        return ("add_mismatch", i, rng.choice(ks))
    if kind == "unit_legs":
        i = pick(lambda t: not t.isdiag and t.ndim <= MAX_RANK - 2)
        if i is None:
            return None
        a = pool[i]
        sym = G.sym_name(a.config.sym)
        box = D.charge_box(sym)
        return ("unit_legs", i, rng.randint(0, a.ndim), rng.choice((1, -1)), G.canon(sym, rng.choice(box)),
                rng.choice((1, -1)), G.canon(sym, rng.choice(box)), rng.choice(fuse_modes))
    if kind == "remove_leg":
        i = pick(lambda t: not t.isdiag and t.ndim >= 1 and t.size > 0 and any(sum(l.D) == 1 and len(l.t) == 1 and not is_fused(l) for l in t.get_legs()))
        if i is None:
            return None
        ax = [k for k, l in enumerate(pool[i].get_legs()) if sum(l.D) == 1 and len(l.t) == 1 and not is_fused(l)]
        return ("remove_leg", i, rng.choice(ax))
    if kind == "vdot":
        if rng.random() < 0.7:
            shared = [(i, j) for i in tens for j in tens if i != j and pool[i]._data is pool[j]._data and pool[i].ndim == pool[j].ndim
                      and pool[i].isdiag == pool[j].isdiag
                      and all(legs_contractible(x, y, +1) for x, y in zip(pool[i].get_legs(), pool[j].get_legs()))]
            if shared:
                return ("vdot",) + rng.choice(shared)
        i = pick()
        a = pool[i]
        la = a.get_legs()
        for j in rng.sample(tens, len(tens)):
            b = pool[j]
            if b.ndim == a.ndim and b.isdiag == a.isdiag and all(legs_contractible(x, y, +1) for x, y in zip(la, b.get_legs())):
                return ("vdot", i, j)
        return None
    if kind == "norm":
        return ("norm", pick())
    if kind == "swap_gate":
        if not fermionic:
            return None
        i = pick(lambda t: t.ndim >= 2 and not t.isdiag)
        if i is None:
            return None
        a = pool[i]
        ax = rng.sample(range(a.ndim), 2)
        if rng.random() < 0.3 and a.ndim >= 3:
            rest = [k for k in range(a.ndim) if k not in ax]
            return ("swap_gate", i, (ax[0], (ax[1], rest[0])))
        return ("swap_gate", i, (ax[0], ax[1]))
    if kind == "ncon":
        # chain a-b-c through single matching legs
        for c in _cands_tensordot(pool, rng):
            if c[5] != (0, 0) or len(c[3]) != 1 or c[1] == c[2]:
                continue
            i, j, x, y = c[1], c[2], c[3][0], c[4][0]
            a, b = pool[i], pool[j]
            if a.ndim + b.ndim - 2 > MAX_RANK:
                continue
            ia = [0] * a.ndim
            ib = [0] * b.ndim
            ia[x] = ib[y] = 1
            out = [(0, k) for k in range(a.ndim) if k != x] + [(1, k) for k in range(b.ndim) if k != y]
            rng.shuffle(out)
            for o, (w, k) in enumerate(out):
                (ia if w == 0 else ib)[k] = -o
            return ("ncon", [i, j], [tuple(ia), tuple(ib)], [0, 0])
        return None
    if kind in ("broadcast", "mask"):
        di = [i for i in tens if pool[i].isdiag and pool[i].size > 0]
        if not di:
            return None
        d = rng.choice(di)
        ld = pool[d].get_legs(0)
        rng.shuffle(tens)
        for j in tens:
            b = pool[j]
            if b.isdiag:
                continue
            for k, l in enumerate(b.get_legs()):
                if not is_fused(l) and (legs_contractible(l, ld, +1) or legs_contractible(l, ld, -1)) and set(l.t) <= set(ld.t):
                    if kind == "broadcast":
                        return ("broadcast", d, j, k)
                    if "float" in str(pool[d].yastn_dtype) and pool[d].size:
                        # threshold strictly inside a gap of the spectrum, so round-off cannot move a value across it
                        v = np.sort(np.abs(pool[d]._data))
                        gaps = [(v[q + 1] - v[q], q) for q in range(len(v) - 1) if v[q + 1] - v[q] > 1e-6 * (1 + v[q + 1])]
                        if not gaps:
                            return None
                        q = rng.choice(gaps)[1]
                        return ("mask", d, j, float(0.5 * (v[q] + v[q + 1])), k)
        return None
    if kind == "diag":
        i = pick(lambda t: t.isdiag)
        if i is None:
            return None
        return ("diag", i, rng.random() < 0.6)
    if kind == "flip_charges":
        i = pick(lambda t: not t.isdiag and t.ndim >= 1 and not any(is_fused(l) for l in t.get_legs()))
        if i is None:
            return None
        a = pool[i]
        return ("flip_charges", i, rng.sample(range(a.ndim), rng.randint(1, a.ndim)))
    if kind == "to_dict":
        return ("to_dict", pick(), rng.choice((0, 1, 2)))
    if kind == "zero_block":
        i = pick(lambda t: len(t.struct.t) >= 2 and not t.isdiag and not any(is_fused(l) for l in t.get_legs()))
        if i is None:
            return None
        a = pool[i]
        keys = [tuple(x for t in k for x in t) for k in itertools.islice(itertools.product(*(l.t for l in a.get_legs())), 300)]
        keys = [k for k in keys if k in a]
        if not keys:
            return None
        return ("zero_block", i, rng.choice(keys))
    if kind == "remove_zero_blocks":
        i = pick(lambda t: t.size > 0 and any(not np.any(t._data[slice(*sl.slcs[0])]) for sl in t.slices))
        if i is None:
            i = pick()
        return ("remove_zero_blocks", i)
    return None


def generate(rng, nprng, sym, fermionic=False, length=12, cfg=None, ntensors=None, fuse_modes=(None, None, "hard", "meta")):
    """Generate (and execute under cfg) a random program.  Returns (Program, pool)."""
    import yastn
    cfg = cfg if cfg is not None else D.make_cfg(sym, fermionic)
    nleg = rng.randint(3, 5)
    uni = [D.gen_leg(rng, sym, dmax=2, nsec=(1, 3)) for _ in range(nleg)]
    dtype = rng.choice(("float64", "float64", "complex128"))
    init = []
    for _ in range(ntensors or rng.randint(3, 5)):
        r = rng.randint(2, 4)
        legs = [rng.choice(uni) if rng.random() < 0.5 else rng.choice(uni).conj() for _ in range(r)]
        h = D.gen_tensor(rng, nprng, sym, legs=legs, dtype=dtype, density=rng.choice((1.0, 1.0, 0.6)), fermionic=fermionic)
        init.append(h)
    prog = Program(sym, fermionic, init, [], dtype)
    pool = initial_pool(prog, cfg)
    tries = 0
    while len(prog.steps) < length and tries < length * 12:
        tries += 1
        step = propose(pool, rng, fermionic, fuse_modes)
        if step is None:
            continue
        try:
            new = apply_step(pool, step, cfg)
        except Exception as e:
            # a proposal the library rejects is not part of the program; the rejection class is remembered
            prog.rejections = getattr(prog, "rejections", [])
            prog.rejections.append((step[0], type(e).__name__, str(e)[:120]))
            if type(e).__name__ != "YastnError":
                raise
            continue
        if any(isinstance(x, yastn.Tensor) and not _small(x) for x in new):
            continue
        prog.steps.append(step)
        pool.extend(new)
        if len(pool) > MAX_POOL * 3:
            break
    return prog, pool
