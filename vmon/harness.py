"""Shared run-time harness: case RNG, counters, verdicts, evidence, sharding.

Every check module ``checks/cNN.py`` exposes

    PROP      = "C07"
    RULE      = "how cases are generated; what makes one distinct / non-trivial"
    def plan(tier)   -> {"cases": N, "shards": S, "budget_s": soft seconds per shard}
    def floors(tier) -> {counter_name: minimum}     (reach thresholds -> inconclusive)
    def run_case(ctx, idx)                          (one generated case)
    def canaries(ctx)             optional          (oracle self-test, must call ctx.canary)
    def run_shard(ctx)            optional          (replaces the default idx loop)
    def finalize(ctx, merged)     optional          (parent side: extra coverage keys)

The driver is ``vmon.main``.  A case obtains *all* its randomness from
``ctx.rng(idx)``, derived from (property, seed, idx), so a shard is any subset
of indices and a replay is "same tier, same seed, same idx".
"""
from __future__ import annotations

import collections
import hashlib
import json
import os
import random
import sys
import time
import traceback

VERIF = os.path.dirname(os.path.dirname(os.path.abspath(__file__)))
REPO = os.environ.get("VERIF_REPO", "/repo")
PY = "/venv/bin/python" if os.path.exists("/venv/bin/python") else sys.executable

_BOOTSTRAPPED = False


def bootstrap():
    """Put the tree under test first on sys.path; make BLAS deterministic."""
    global _BOOTSTRAPPED
    if _BOOTSTRAPPED:
        return
    _BOOTSTRAPPED = True
    for k in ("OMP_NUM_THREADS", "OPENBLAS_NUM_THREADS", "MKL_NUM_THREADS", "NUMEXPR_NUM_THREADS"):
        os.environ[k] = "1"
    os.environ["PYTHONDONTWRITEBYTECODE"] = "1"
    sys.dont_write_bytecode = True
    # the tree under test shadows the editable install in /venv
    if REPO in sys.path:
        sys.path.remove(REPO)
    sys.path.insert(0, REPO)
    if VERIF not in sys.path:
        sys.path.insert(1, VERIF)


def child_env():
    env = dict(os.environ)
    for k in ("OMP_NUM_THREADS", "OPENBLAS_NUM_THREADS", "MKL_NUM_THREADS", "NUMEXPR_NUM_THREADS"):
        env[k] = "1"
    env["PYTHONDONTWRITEBYTECODE"] = "1"
    env["PYTHONHASHSEED"] = "0"
    env["VERIF_REPO"] = REPO
    env["PYTHONPATH"] = REPO + os.pathsep + VERIF
    return env


def _seed_int(*parts) -> int:
    h = hashlib.sha256(":".join(str(p) for p in parts).encode()).digest()
    return int.from_bytes(h[:8], "big")


def jsonable(x, depth=0):
    """Best-effort conversion of witnesses / samples to JSON."""
    import numpy as np
    if depth > 8:
        return repr(x)[:200]
    if x is None or isinstance(x, (bool, int, str)):
        return x
    if isinstance(x, float):
        return x if x == x and abs(x) != float("inf") else repr(x)
    if isinstance(x, complex):
        return {"re": x.real, "im": x.imag}
    if isinstance(x, np.generic):
        return jsonable(x.item(), depth + 1)
    if isinstance(x, np.ndarray):
        if x.size > 64:
            return {"ndarray": list(x.shape), "dtype": str(x.dtype), "head": jsonable(x.ravel()[:16].tolist(), depth + 1)}
        return jsonable(x.tolist(), depth + 1)
    if isinstance(x, dict):
        return {str(k): jsonable(v, depth + 1) for k, v in x.items()}
    if isinstance(x, (list, tuple, set, frozenset)):
        return [jsonable(v, depth + 1) for v in x]
    return repr(x)[:300]


class CaseSkip(Exception):
    """Raised by a generator when a drawn case is not usable (counted, not judged)."""


class Ctx:
    def __init__(self, prop, tier, seed, shard=0, nshards=1, mute=False):
        self.prop, self.tier, self.seed = prop, tier, int(seed)
        self.shard, self.nshards = shard, nshards
        self.mute = mute          # muted ctx: foreign workload driven for another property's monitors
        self.counters = collections.Counter()
        self.sigs = set()
        self.samples = []
        self.violations = []
        self.margins = {}
        self.notes = {}
        self.idx = None
        self.canaries_fired = 0
        self.canaries_silent = []
        self.t0 = time.time()
        self.max_samples = 4

    # ---- randomness -------------------------------------------------
    def rng(self, idx=None, salt="") -> random.Random:
        idx = self.idx if idx is None else idx
        return random.Random(_seed_int(self.prop, self.seed, idx, salt))

    def nprng(self, idx=None, salt=""):
        import numpy as np
        idx = self.idx if idx is None else idx
        return np.random.default_rng(_seed_int(self.prop, self.seed, idx, salt, "np"))

    # ---- observations ----------------------------------------------
    def count(self, name, k=1):
        self.counters[name] += k

    def case(self, sig, nontrivial=True, sample=None):
        """Register one explored case with structural signature ``sig``."""
        self.counters["evaluations"] += 1
        if nontrivial:
            self.sigs.add(hashlib.sha1(repr(sig).encode()).hexdigest()[:16])
        if sample is not None and len(self.samples) < self.max_samples:
            self.samples.append(jsonable(sample))

    def margin(self, name, err, allowed):
        """Record observed error / allowed error; returns True when inside."""
        r = float(err) / float(allowed) if allowed > 0 else (0.0 if err == 0 else float("inf"))
        if r != r:
            r = float("inf")
        if r > self.margins.get(name, 0.0):
            self.margins[name] = r
        return r <= 1.0

    def note(self, name, value):
        self.notes[name] = value

    def violation(self, key, what, witness=None):
        """key = mechanism class (stable, never a seed/hash); what = human text."""
        if self.mute:
            self.counters["muted_violations"] += 1
            return
        if len(self.violations) < 200:
            self.violations.append({"key": key, "what": str(what)[:2000], "idx": self.idx,
                                    "shard": self.shard, "witness": jsonable(witness)})
        self.counters["violations_raw"] += 1

    def canary(self, name, fired: bool):
        if fired:
            self.canaries_fired += 1
        else:
            self.canaries_silent.append(name)

    # ---- (de)serialisation between shard and parent -------------------
    def dump(self):
        return {"counters": dict(self.counters), "sigs": sorted(self.sigs), "samples": self.samples,
                "violations": self.violations, "margins": self.margins, "notes": jsonable(self.notes),
                "canaries_fired": self.canaries_fired, "canaries_silent": self.canaries_silent,
                "wall_s": time.time() - self.t0}


def merge_dumps(dumps):
    out = {"counters": collections.Counter(), "sigs": set(), "samples": [], "violations": [], "margins": {},
           "notes": {}, "canaries_fired": 0, "canaries_silent": [], "shard_wall_s": []}
    for d in dumps:
        out["counters"].update(d["counters"])
        out["sigs"].update(d["sigs"])
        for s in d["samples"]:
            if len(out["samples"]) < 5:
                out["samples"].append(s)
        out["violations"].extend(d["violations"])
        for k, v in d["margins"].items():
            out["margins"][k] = max(v, out["margins"].get(k, 0.0))
        for k, v in d["notes"].items():
            if isinstance(v, list) and isinstance(out["notes"].get(k), list):
                out["notes"][k] = sorted(set(map(json.dumps, out["notes"][k])) | set(map(json.dumps, v)))
                out["notes"][k] = [json.loads(x) for x in out["notes"][k]]
            elif isinstance(v, dict) and isinstance(out["notes"].get(k), dict):
                for kk, vv in v.items():
                    if isinstance(vv, (int, float)) and isinstance(out["notes"][k].get(kk), (int, float)):
                        out["notes"][k][kk] += vv
                    else:
                        out["notes"][k][kk] = vv
            else:
                out["notes"][k] = v
        out["canaries_fired"] += d["canaries_fired"]
        out["canaries_silent"].extend(d["canaries_silent"])
        out["shard_wall_s"].append(round(d["wall_s"], 1))
    return out


def load_known_findings():
    path = os.path.join(VERIF, "known_findings.json")
    try:
        with open(path) as f:
            return json.load(f).get("findings", [])
    except FileNotFoundError:
        return []


def exc_key(exc, tb=None):
    """Mechanism key for an exception escaping a case: type + innermost yastn frame."""
    tb = tb if tb is not None else exc.__traceback__
    frames = traceback.extract_tb(tb)
    where = "?"
    for fr in reversed(frames):
        fn = fr.filename
        if "/yastn/" in fn:
            where = "yastn/" + fn.split("/yastn/", 1)[1] + ":" + fr.name
            break
    else:
        if frames:
            fr = frames[-1]
            where = os.path.basename(fr.filename) + ":" + fr.name
    return f"exception:{type(exc).__name__}@{where}"
