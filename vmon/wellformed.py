"""Independent well-formedness invariants for yastn.Tensor (property C02).

check_tensor(a) -> list[(key, message)]   (empty list = well-formed)

The invariants are re-derived here from the data model; the selection rule uses vmon.groups
(python ints), never config.sym.fuse.  I10 additionally runs the library's own is_consistent().
"""
from __future__ import annotations

import itertools
from functools import reduce
from operator import mul

import numpy as np

from . import groups as G


def _is_int(x):
    return isinstance(x, int) and not isinstance(x, bool)


def _fusion_ok(hf, s, sym, out, where, rootdims=None):
    """I6: structure of one hard-fusion record and consistency of product nodes with their children."""
    tree, op = hf.tree, hf.op
    if not (len(tree) == len(op) == len(hf.s) == len(hf.t) + 1 == len(hf.D) + 1):
        out.append(("I6:hf-lengths", f"{where}: tree/op/s/t/D lengths {len(tree)},{len(op)},{len(hf.s)},{len(hf.t)},{len(hf.D)}"))
        return
    if hf.s[0] != s:
        out.append(("I6:hf-signature", f"{where}: hf.s[0]={hf.s[0]} but leg signature {s}"))
    for x, y in zip(tree, op):
        if (x > 1 and y not in "ps") or (x == 1 and y not in "on"):
            out.append(("I6:hf-op", f"{where}: node size {x} has op {y!r}"))
            return
    if any(si not in (-1, 1) for si in hf.s):
        out.append(("I6:hf-signature", f"{where}: signatures {hf.s}"))
    # tree must be a valid pre-order encoding: node i with size k owns the next sub-trees summing to k leaves
    def parse(i):
        k = tree[i]
        if k == 1:
            return i + 1, 1
        j, leaves, kids = i + 1, 0, []
        while leaves < k:
            if j >= len(tree):
                raise ValueError
            kids.append(j)
            j, l = parse(j)
            leaves += l
        if leaves != k:
            raise ValueError
        children[i] = kids
        return j, k
    children = {}
    try:
        end, _ = parse(0)
        if end != len(tree):
            raise ValueError
    except (ValueError, RecursionError, IndexError):
        out.append(("I6:hf-tree", f"{where}: tree {tree} is not a valid fusion tree"))
        return
    name = sym
    for i in range(1, len(tree)):
        t, Dd = hf.t[i - 1], hf.D[i - 1]
        if len(t) != len(Dd):
            out.append(("I6:hf-tD", f"{where}: node {i} has {len(t)} charges and {len(Dd)} dimensions"))
            return
        if list(t) != sorted(set(t)):
            out.append(("I6:hf-t-order", f"{where}: node {i} charges not strictly ascending {t}"))
        if any((not _is_int(d)) or d <= 0 for d in Dd):
            out.append(("I6:hf-D", f"{where}: node {i} dims {Dd}"))
        if any(not G.is_canon(name, c) for c in t):
            out.append(("I6:hf-charge-range", f"{where}: node {i} charges {t}"))
    # product nodes below the root: stored sector dims == recomputed from children
    for i, kids in children.items():
        if op[i] != "p" or (i == 0 and rootdims is None):
            continue
        acc = {}
        for combo in itertools.product(*[list(zip(hf.t[k - 1], hf.D[k - 1])) for k in kids]):
            tt = G.add(name, [c[0] for c in combo], [hf.s[k] for k in kids], hf.s[i])
            acc[tt] = acc.get(tt, 0) + reduce(mul, (c[1] for c in combo), 1)
        stored = dict(zip(hf.t[i - 1], hf.D[i - 1])) if i > 0 else rootdims   # root: dims of the leg itself (from the blocks)
        for tt, d in stored.items():
            if acc.get(tt) != d:
                out.append(("I6:hf-product-dims", f"{where}: node {i} charge {tt} stores dim {d}, children give {acc.get(tt)}"))
                break


def check_tensor(a, dense_limit=2048, run_is_consistent=True):
    out = []
    st = a.struct
    sym = G.sym_name(a.config.sym)
    if sym not in G.MODULI:
        return out  # user-defined symmetry: nothing independent to say
    nsym = len(G.MODULI[sym])
    nd = len(st.s)
    # I1 types
    if not (isinstance(st.s, tuple) and isinstance(st.n, tuple) and isinstance(st.t, tuple) and isinstance(st.D, tuple)
            and isinstance(st.diag, bool) and _is_int(st.size)):
        out.append(("I1:types", f"struct field types {type(st.s).__name__},{type(st.n).__name__},{type(st.t).__name__},{type(st.D).__name__}"))
        return out
    if not all(_is_int(x) and x in (-1, 1) for x in st.s):
        out.append(("I1:signature", f"s={st.s}"))
    if len(st.n) != nsym or not all(_is_int(x) for x in st.n) or not G.is_canon(sym, st.n):
        out.append(("I3:n-range", f"n={st.n} not a canonical charge of {sym}"))
        return out
    if not (len(st.t) == len(st.D) == len(a.slices)):
        out.append(("I5:lengths", f"len t,D,slices = {len(st.t)},{len(st.D)},{len(a.slices)}"))
        return out
    # I2 ordered unique
    for i in range(len(st.t) - 1):
        if not st.t[i] < st.t[i + 1]:
            out.append(("I2:order", f"block charges not strictly ascending at {i}: {st.t[i]} !< {st.t[i+1]}"))
            break
    legdims = [dict() for _ in range(nd)]
    total = 0
    intervals = []
    for t, Dd, sl in zip(st.t, st.D, a.slices):
        if not (isinstance(t, tuple) and len(t) == nd * nsym and all(_is_int(x) for x in t)):
            out.append(("I1:block-charge", f"block charge {t!r} for ndim {nd}, nsym {nsym}"))
            return out
        # a zero dimension is tolerated only in the single block of a symmetry-less tensor: that is how
        # to_nonsymmetric()/to_dense() represent the (empty) dense image of a tensor with an empty leg
        zero_ok = nsym == 0 and len(st.t) == 1
        if not (isinstance(Dd, tuple) and len(Dd) == nd and all(_is_int(x) and (x > 0 or (zero_ok and x == 0)) for x in Dd)):
            out.append(("I4:block-shape", f"block shape {Dd!r}"))
            return out
        ts = [t[i * nsym:(i + 1) * nsym] for i in range(nd)]
        # I3 canonical + selection rule
        if any(not G.is_canon(sym, c) for c in ts):
            out.append(("I3:charge-range", f"block {t} has a non-canonical charge"))
        if G.add(sym, ts, st.s) != st.n:
            out.append(("I3:selection-rule", f"block {t}: sum s_i t_i = {G.add(sym, ts, st.s)} != n = {st.n}"))
        # I4 one dim per (leg, charge)
        for i, (c, d) in enumerate(zip(ts, Dd)):
            if legdims[i].setdefault(c, d) != d:
                out.append(("I4:leg-dims", f"leg {i} charge {c} has dims {legdims[i][c]} and {d}"))
        # I5 slices
        dp = Dd[0] if st.diag else reduce(mul, Dd, 1)
        if tuple(sl.D) != tuple(Dd) or sl.Dp != dp:
            out.append(("I5:slice-shape", f"block {t}: slice D={sl.D} Dp={sl.Dp} vs struct D={Dd} (Dp {dp})"))
        if len(sl.slcs) != 1 or sl.slcs[0][1] - sl.slcs[0][0] != dp:
            out.append(("I5:slice-interval", f"block {t}: interval {sl.slcs} for Dp {dp}"))
        else:
            intervals.append(tuple(sl.slcs[0]))
        total += dp
    if st.size != total:
        out.append(("I5:size", f"struct.size {st.size} != sum Dp {total}"))
    data = a._data
    if getattr(data, "ndim", 1) != 1 or len(data) != total:
        out.append(("I5:data-length", f"data shape {getattr(data, 'shape', None)} vs total {total}"))
    iv = sorted(intervals)
    lo = 0
    for x, y in iv:
        if x < lo or y > total:
            out.append(("I5:slice-overlap", f"intervals {iv[:6]}... overlap or leave [0,{total})"))
            break
        lo = y
    # I6 hfs
    if len(a.hfs) != nd:
        out.append(("I6:hfs-count", f"{len(a.hfs)} fusion records for {nd} native legs"))
    else:
        for i, hf in enumerate(a.hfs):
            _fusion_ok(hf, st.s[i], sym, out, f"leg {i}", legdims[i])
    # I7 mfs / trans
    try:
        if sum(mf[0] for mf in a.mfs) != nd:
            out.append(("I7:mfs-sum", f"mfs {a.mfs} do not add up to {nd} native legs"))
        for mf in a.mfs:
            if len(mf) < 1 or mf[0] < 1 or not _mf_valid(mf):
                out.append(("I7:mfs-tree", f"meta fusion {mf} invalid"))
    except Exception as e:
        out.append(("I7:mfs-tree", f"mfs {a.mfs!r}: {e!r}"))
    if sorted(a.trans) != list(range(nd)):
        out.append(("I7:trans", f"trans {a.trans} is not a permutation of {nd} legs"))
    # I8 diagonal
    if st.diag:
        if nd != 2 or sum(st.s) != 0 or any(st.n):
            out.append(("I8:diag-struct", f"diagonal tensor with s={st.s}, n={st.n}"))
        for t, Dd in zip(st.t, st.D):
            if t[:nsym] != t[nsym:] or Dd[0] != Dd[1]:
                out.append(("I8:diag-block", f"diagonal block {t} {Dd}"))
                break
    # I9 dense elements outside allowed sectors are exactly zero (small tensors only)
    if not out and 0 < total <= dense_limit and nd <= 6 and not st.diag:
        try:
            legs = a.get_legs(native=True)
            x = a.consume_transpose().to_numpy(native=True) if tuple(a.trans) != tuple(range(nd)) else a.to_numpy(native=True)
            offs = []
            for l in legs:
                o, lo = [], 0
                for c, d in zip(l.t, l.D):
                    o.append((tuple(c), lo, lo + d))
                    lo += d
                offs.append(o)
            sig = tuple(l.s for l in legs)
            for combo in itertools.islice(itertools.product(*offs), 4096):
                if G.add(sym, [c[0] for c in combo], sig) != st.n:
                    blk = x[tuple(slice(c[1], c[2]) for c in combo)]
                    if np.any(blk != 0):
                        out.append(("I9:forbidden-nonzero", f"dense elements in sector {[c[0] for c in combo]} are non-zero"))
                        break
        except Exception as e:  # an observation function failing on a produced tensor is itself ill-formedness
            out.append(("I9:dense-failed", f"to_numpy(native=True) raised {type(e).__name__}: {e}"))
    # I10 library's own notion
    if run_is_consistent:
        try:
            a.is_consistent()
        except Exception as e:
            out.append(("I10:is_consistent", f"{type(e).__name__}: {e}"))
    return out


def _mf_valid(mf):
    def parse(i):
        k = mf[i]
        if k == 1:
            return i + 1, 1
        j, leaves = i + 1, 0
        while leaves < k:
            j, l = parse(j)
            leaves += l
        if leaves != k:
            raise ValueError
        return j, k
    try:
        end, _ = parse(0)
        return end == len(mf)
    except (ValueError, IndexError, RecursionError):
        return False


# ====================================================================== monitor

def find_tensors(x, out, depth=0, limit=48):
    """Collect yastn.Tensor objects reachable from a return value (bounded)."""
    if len(out) >= limit or depth > 4 or x is None:
        return
    tn = type(x).__name__
    mod = getattr(type(x), "__module__", "")
    if tn == "Tensor" and mod.startswith("yastn"):
        out.append(x)
    elif isinstance(x, (list, tuple)):
        for v in x[:64]:
            find_tensors(v, out, depth + 1, limit)
    elif isinstance(x, dict):
        for v in list(x.values())[:64]:
            find_tensors(v, out, depth + 1, limit)
    elif mod.startswith("yastn") and hasattr(x, "__dict__") and depth < 3:
        for k, v in list(vars(x).items())[:32]:
            if isinstance(v, (dict, list, tuple)) or getattr(type(v), "__module__", "").startswith("yastn"):
                find_tensors(v, out, depth + 1, limit)


def _flat(x, out):
    try:
        for v in x:
            _flat(v, out)
    except TypeError:
        out.append(int(x) if hasattr(x, "__int__") else x)


def _is_T(x):
    return type(x).__name__ == "Tensor" and getattr(type(x), "__module__", "").startswith("yastn")


SAME_N = {"transpose", "moveaxis", "move_leg", "consume_transpose", "copy", "clone", "shallow_copy", "detach", "to",
          "fuse_legs", "unfuse_legs", "fuse_meta_to_hard", "swap_gate", "trace", "remove_zero_blocks",
          "drop_leg_history", "flip_charges", "switch_signature", "diag", "conj_blocks", "__mul__", "__rmul__", "__truediv__",
          "__neg__", "__pow__", "__abs__", "real", "imag", "sqrt", "rsqrt", "reciprocal", "exp", "bitwise_not",
          "__lt__", "__gt__", "__le__", "__ge__", "__add__", "__sub__"}


def expected_charges(ev, result):
    """[(tensor, expected n, label)] for calls whose result charge is dictated by algebra."""
    short = ev.short
    a = ev.args[0] if ev.args else None
    out = []
    if not _is_T(a) and short not in ("add", "ncon", "einsum"):
        return out
    sym = G.sym_name(a.config.sym) if _is_T(a) else None
    if sym is not None and sym not in G.MODULI:
        return out
    if short in SAME_N and _is_T(result):
        out.append((result, tuple(a.n), short))
    elif short in ("conj", "flip_signature") and _is_T(result):
        out.append((result, G.neg(sym, a.n), short))
    elif short in ("tensordot", "__matmul__") and len(ev.args) >= 2 and _is_T(ev.args[1]) and _is_T(result):
        b = ev.args[1]
        cj = ev.kwargs.get("conj", ev.args[3] if len(ev.args) > 3 else (0, 0))
        na = G.neg(sym, a.n) if cj[0] else tuple(a.n)
        nb = G.neg(sym, b.n) if cj[1] else tuple(b.n)
        out.append((result, G.add(sym, (na, nb)), short))
    elif short in ("broadcast", "apply_mask"):
        res = result if isinstance(result, (list, tuple)) else [result]
        for r, b in zip(res, ev.args[1:]):
            if _is_T(r) and _is_T(b):
                out.append((r, tuple(b.n), short))
    elif short == "add" and ev.args and all(_is_T(x) for x in ev.args) and _is_T(result):
        sym = G.sym_name(ev.args[0].config.sym)
        if sym in G.MODULI:
            out.append((result, tuple(ev.args[0].n), short))
    elif short in ("svd", "svd_with_truncation") and isinstance(result, tuple) and len(result) == 3:
        nU = ev.kwargs.get("nU", ev.args[3] if len(ev.args) > 3 else True)
        z = G.zero(sym)
        U, S, V = result
        if _is_T(U) and _is_T(S) and _is_T(V):
            out += [(U, tuple(a.n) if nU else z, short + ":U"), (S, z, short + ":S"), (V, z if nU else tuple(a.n), short + ":V")]
    elif short == "qr" and isinstance(result, tuple) and len(result) == 2 and all(_is_T(x) for x in result):
        out += [(result[0], tuple(a.n), "qr:Q"), (result[1], G.zero(sym), "qr:R")]
    elif short in ("eigh", "eigh_with_truncation") and isinstance(result, tuple) and len(result) == 2 and all(_is_T(x) for x in result):
        out += [(result[0], G.zero(sym), "eigh:S"), (result[1], G.zero(sym), "eigh:U")]
    elif short == "add_leg" and _is_T(result):
        leg = ev.kwargs.get("leg", ev.args[4] if len(ev.args) > 4 else None)
        s = ev.kwargs.get("s", ev.args[2] if len(ev.args) > 2 else -1)
        t = ev.kwargs.get("t", ev.args[3] if len(ev.args) > 3 else None)
        if leg is not None:
            if hasattr(leg, "legs"):
                return out
            s, t = leg.s, leg.t[0]
        if t is None:
            out.append((result, G.zero(sym), short))
        else:
            t = (t,) if isinstance(t, int) else tuple(t)
            out.append((result, G.add(sym, (tuple(a.n), G.canon(sym, t)), (1, s)), short))
    elif short == "remove_leg" and _is_T(result) and len(a.struct.t) > 0:
        axis = ev.kwargs.get("axis", ev.args[1] if len(ev.args) > 1 else -1)
        leg = a.get_legs(axis % a.ndim)
        if not hasattr(leg, "legs") and len(leg.t) == 1:
            out.append((result, G.add(sym, (tuple(a.n), leg.t[0]), (1, -leg.s)), short))
    elif short == "ncon" and isinstance(a, (list, tuple)) and a and all(_is_T(x) for x in a) and _is_T(result):
        sym = G.sym_name(a[0].config.sym)
        if sym in G.MODULI:
            cj = ev.kwargs.get("conjs", ev.args[2] if len(ev.args) > 2 else None) or [0] * len(a)
            out.append((result, G.add(sym, [G.neg(sym, x.n) if c else tuple(x.n) for x, c in zip(a, cj)]), short))
    return out


class WellformedMonitor:
    def __init__(self, report, dense_limit=1024, max_depth=None):
        self.report = report
        self.tensors = 0
        self.nonzero_charge = 0
        self.by_op = {}
        self.charge_checks = 0
        self.dense_limit = dense_limit
        self.max_depth = max_depth
        self.seen = {}
        self.unjudged_illformed_inputs = 0

    def before(self, ev):
        return None

    def _inputs_illformed(self, ev):
        ins = []
        find_tensors(list(ev.args), ins)
        find_tensors(dict(ev.kwargs), ins)
        for x in ins[:16]:
            if check_tensor(x, dense_limit=0, run_is_consistent=False):
                return True
        # constructors with the legacy t=/D= (or ts=) interface do not validate charges
        cfg = ev.kwargs.get("config") or next((a for a in ev.args if hasattr(a, "sym") and hasattr(a, "backend")), None)
        if cfg is None and ins:
            cfg = ins[0].config
        sym = G.sym_name(cfg.sym) if cfg is not None and hasattr(cfg, "sym") else None
        if sym in G.MODULI and len(G.MODULI[sym]):
            k = len(G.MODULI[sym])
            for name in ("t", "ts"):
                if name in ev.kwargs:
                    flat = []
                    _flat(ev.kwargs[name], flat)
                    if len(flat) % k == 0 and any(not G.is_canon(sym, tuple(flat[i:i + k])) for i in range(0, len(flat), k)):
                        return True
        return False

    def after(self, ev, token, result, exc):
        if exc is not None or (self.max_depth is not None and ev.depth > self.max_depth):
            return
        short = ev.short
        found = []
        find_tensors(result, found)
        if short in ("set_block", "__setitem__", "_fill_tensor") and ev.args and _is_T(ev.args[0]):
            found.append(ev.args[0])
        for t in found:
            # the same (immutable-by-contract) object is returned again and again by accessors: check once per state
            stamp = (id(t), id(t.struct), id(t._data), id(t.slices), id(t.hfs), t.mfs, tuple(t.trans))
            if self.seen.get(id(t)) == stamp:
                continue
            if len(self.seen) > 20000:
                self.seen.clear()
            self.seen[id(t)] = stamp
            self.tensors += 1
            self.by_op[short] = self.by_op.get(short, 0) + 1
            if any(t.struct.n):
                self.nonzero_charge += 1
            problems = check_tensor(t, dense_limit=self.dense_limit)
            if problems and self._inputs_illformed(ev):
                # the property speaks about well-formed inputs: an ill-formed operand (e.g. a test that builds a Z2 tensor
                # from charges 2 and 3 through the unvalidated t=/D= interface) makes the result unjudgeable
                self.unjudged_illformed_inputs += 1
                continue
            for key, msg in problems:
                self.report(f"illformed:{key}:{short}", f"{ev.name} returned an ill-formed tensor: {msg}",
                            {"call": ev.name, "depth": ev.depth, "struct": repr(t.struct)[:1500], "hfs": repr(t.hfs)[:800],
                             "mfs": repr(t.mfs), "trans": repr(t.trans)})
        for t, n, label in expected_charges(ev, result):
            self.charge_checks += 1
            if tuple(t.struct.n) != tuple(n):
                self.report(f"charge-postcondition:{label}", f"{ev.name}: result charge {t.struct.n}, algebra requires {n}",
                            {"call": ev.name, "depth": ev.depth})
