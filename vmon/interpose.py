"""API-boundary interposer: wraps public yastn callables in every namespace where they are bound.

    ip = Interposer(); ip.add(monitor); ip.install()      ...     ip.uninstall()

A monitor implements
    before(ev)            -> token (anything)      called before the original function
    after(ev, token, result, exc)                   called after return (exc is None) or raise

``ev`` carries: name (qualified), fn (original function), args, kwargs, depth (0 = called from outside
yastn wrappers), owner (class or None), kind ("method" | "function" | "classmethod").
Monitors run in the calling thread; yastn is single threaded here.  Exceptions raised by a monitor are
never swallowed silently: they are recorded in ``ip.monitor_errors`` and re-raised as MonitorError after
the original call completed, so a broken monitor cannot masquerade as a library failure unnoticed.
"""
from __future__ import annotations

import functools
import sys
import types

DUNDER_OK = {"__add__", "__sub__", "__mul__", "__rmul__", "__neg__", "__pow__", "__truediv__", "__matmul__",
             "__abs__", "__getitem__", "__setitem__", "__contains__", "__lt__", "__gt__", "__le__", "__ge__",
             "__radd__", "__rsub__", "__eq__", "__init__"}
SKIP_MODULE_PREFIX = ("yastn.backend", "yastn.sym", "yastn._version")
SKIP_NAMES = {"YastnError"}


class MonitorError(Exception):
    pass


class Event:
    __slots__ = ("name", "fn", "args", "kwargs", "depth", "owner", "kind", "public")

    def __init__(self, name, fn, args, kwargs, depth, owner, kind, public=True):
        self.name, self.fn, self.args, self.kwargs = name, fn, args, kwargs
        self.depth, self.owner, self.kind, self.public = depth, owner, kind, public

    @property
    def short(self):
        return self.name.rsplit(".", 1)[-1]


class Interposer:
    def __init__(self, max_depth=None):
        self.monitors = []
        self.depth = 0
        self.max_depth = max_depth
        self.patched = []          # (namespace_obj, attr, original_value)
        self.wrappers = {}         # id(original fn) -> wrapper
        self.calls = 0
        self.monitor_errors = []
        self.in_monitor = False

    def add(self, m):
        self.monitors.append(m)
        return m

    # ------------------------------------------------------------------
    def _wrap(self, fn, name, owner, kind):
        w = self.wrappers.get(id(fn))
        if w is not None:
            return w
        ip = self
        public = self._is_public(fn, owner, kind)

        @functools.wraps(fn)
        def wrapper(*args, **kwargs):
            if ip.in_monitor or (ip.max_depth is not None and ip.depth > ip.max_depth):
                return fn(*args, **kwargs)
            ip.calls += 1
            ev = Event(name, fn, args, kwargs, ip.depth, owner, kind, public)
            tokens = []
            ip.in_monitor = True
            try:
                for m in ip.monitors:
                    try:
                        tokens.append(m.before(ev))
                    except Exception as e:  # monitor bug
                        ip.monitor_errors.append((name, "before", repr(e)))
                        tokens.append(None)
            finally:
                ip.in_monitor = False
            ip.depth += 1
            try:
                result = fn(*args, **kwargs)
            except BaseException as exc:
                ip.depth -= 1
                ip._after(ev, tokens, None, exc)
                raise
            ip.depth -= 1
            ip._after(ev, tokens, result, None)
            return result

        wrapper.__vmon_original__ = fn
        self.wrappers[id(fn)] = wrapper
        return wrapper

    def _after(self, ev, tokens, result, exc):
        self.in_monitor = True
        try:
            for m, tok in zip(self.monitors, tokens):
                try:
                    m.after(ev, tok, result, exc)
                except Exception as e:
                    self.monitor_errors.append((ev.name, "after", repr(e)))
        finally:
            self.in_monitor = False

    # ------------------------------------------------------------------
    PUBLIC_PACKAGES = ("yastn", "yastn.tn.mps", "yastn.tn.fpeps", "yastn.tn.fpeps.gates", "yastn.operators",
                       "yastn.tensor.linalg", "yastn.tn.fpeps.envs")

    def _public_sets(self):
        """Functions / classes re-exported by the package namespaces = the public API (computed before patching)."""
        if getattr(self, "_pub", None) is None:
            fns, classes = set(), set()
            for pn in self.PUBLIC_PACKAGES:
                pkg = sys.modules.get(pn)
                if pkg is None:
                    continue
                for attr, obj in vars(pkg).items():
                    if attr.startswith("_"):
                        continue
                    obj = getattr(obj, "__vmon_original__", obj)
                    if isinstance(obj, types.FunctionType):
                        fns.add(id(obj))
                    elif isinstance(obj, type):
                        for c in obj.__mro__:
                            if getattr(c, "__module__", "").startswith("yastn"):
                                classes.add(c)
            self._pub = (fns, classes)
        return self._pub

    def _is_public(self, fn, owner, kind):
        fns, classes = self._public_sets()
        if id(fn) in fns:
            return True
        if owner is not None and owner in classes:
            n = fn.__name__
            return (not n.startswith("_")) or n in DUNDER_OK
        return False

    def install(self):
        import yastn  # noqa: F401  (make sure everything is imported)
        import yastn.tn.mps  # noqa: F401
        import yastn.tn.fpeps  # noqa: F401
        mods = [m for n, m in list(sys.modules.items())
                if (n == "yastn" or n.startswith("yastn.")) and m is not None and not n.startswith(SKIP_MODULE_PREFIX)]
        # 1. collect original functions worth wrapping (defined in yastn, public name or allowed dunder)
        targets = {}   # id(fn) -> (fn, qualified name, owner, kind)
        classes = set()
        for m in mods:
            for attr, obj in list(vars(m).items()):
                if isinstance(obj, type) and getattr(obj, "__module__", "").startswith("yastn") and not obj.__module__.startswith(SKIP_MODULE_PREFIX):
                    classes.add(obj)
                elif isinstance(obj, types.FunctionType) and obj.__module__.startswith("yastn") \
                        and not obj.__module__.startswith(SKIP_MODULE_PREFIX) and hasattr(obj, "__code__"):
                    if (not attr.startswith("_") or attr in DUNDER_OK) and attr not in SKIP_NAMES:
                        targets.setdefault(id(obj), (obj, f"{obj.__module__}.{obj.__name__}", None, "function"))
        for cls in classes:
            if issubclass(cls, BaseException) or (issubclass(cls, tuple) and hasattr(cls, "_fields")):
                continue
            if getattr(cls, "__dataclass_params__", None) is not None and cls.__dataclass_params__.frozen:
                continue   # Leg, LegMeta, Site, Bond...: immutable value objects
            for attr, obj in list(vars(cls).items()):
                if attr.startswith("_") and attr not in DUNDER_OK:
                    continue
                if attr == "__init__" and cls.__name__ == "Tensor":
                    continue   # called for every intermediate; constructor arguments are fresh internals
                if isinstance(obj, types.FunctionType):
                    if id(obj) in targets:   # also bound at module level: keep the module-level name
                        fn, qn, _, _ = targets[id(obj)]
                        targets[id(obj)] = (fn, qn, cls, "function")
                    else:
                        targets[id(obj)] = (obj, f"{cls.__module__}.{cls.__name__}.{attr}", cls, "method")
                elif isinstance(obj, classmethod) and isinstance(obj.__func__, types.FunctionType):
                    f = obj.__func__
                    w = self._wrap(f, f"{cls.__module__}.{cls.__name__}.{attr}", cls, "classmethod")
                    self.patched.append((cls, attr, obj))
                    setattr(cls, attr, classmethod(w))
        # 2. replace every binding (modules and classes) that is identical to an original
        for m in mods:
            for attr, obj in list(vars(m).items()):
                t = targets.get(id(obj)) if isinstance(obj, types.FunctionType) else None
                if t is not None:
                    self.patched.append((m, attr, obj))
                    setattr(m, attr, self._wrap(*t))
        for cls in classes:
            for attr, obj in list(vars(cls).items()):
                t = targets.get(id(obj)) if isinstance(obj, types.FunctionType) else None
                if t is not None:
                    self.patched.append((cls, attr, obj))
                    setattr(cls, attr, self._wrap(*t))
        self.n_targets = len(targets)
        return self

    def uninstall(self):
        for ns, attr, orig in reversed(self.patched):
            setattr(ns, attr, orig)
        self.patched.clear()
        self.wrappers.clear()
