"""pytest plugin: run the repository's own tests as a *workload* under the monitors.

    VMON_MONITORS=wellformed,immut,cache VMON_OUT=<file.json> pytest -p vmon.pytest_plugin tests/...

The tests are not edited and their pass/fail outcome is not a verdict of ours; what counts is what the
monitors observe on the tensors / calls / cache hits that the tests produce.  Each violation records the
test node id that was running.
"""
from __future__ import annotations

import json
import os

from . import harness as H

H.bootstrap()

_state = {"bundle": None, "violations": [], "current": None, "tests": 0}


def _report(key, what, witness=None):
    v = _state["violations"]
    if len(v) < 300:
        w = dict(witness or {})
        w["test"] = _state["current"]
        v.append({"key": key, "what": str(what)[:1500], "witness": H.jsonable(w)})


def pytest_configure(config):
    from .bundle import Bundle
    mons = set(os.environ.get("VMON_MONITORS", "wellformed,immut,cache").split(","))
    b = Bundle(_report, wellformed="wellformed" in mons, immut="immut" in mons, cache="cache" in mons)
    b.install()
    _state["bundle"] = b


def pytest_runtest_setup(item):
    _state["current"] = item.nodeid
    _state["tests"] += 1


def pytest_sessionfinish(session, exitstatus):
    b = _state["bundle"]
    out = os.environ.get("VMON_OUT")
    if b is None or not out:
        return
    worker = os.environ.get("PYTEST_XDIST_WORKER", "")
    path = out + (("." + worker) if worker else "")
    with open(path, "w") as f:
        json.dump({"counters": b.counters(), "notes": H.jsonable(b.notes()), "violations": _state["violations"],
                   "tests": _state["tests"], "exitstatus": int(exitstatus)}, f)
    b.uninstall()
