"""C05  Fermionic signs are consistent and order-independent.

Reference-model monitor with three families of cases.

(a) swap   harness tensors (vmon.dense: dense truth and the charge of every dense index are known without to_numpy)
           in the parity-carrying symmetries x every value of config.fermionic; the operand is realised plain / with a
           pending lazy transpose / consumed / copied, optionally fused (hard, meta, two levels, permuting groups);
           swap_gate is called with every form of ``axes`` (one pair, groups of legs, several pairs in one call, legs
           repeated across pairs) and in the ``charge=`` form (one charge for all axes / one per axis).  Oracle: every
           dense element of the result == operand element * prod_pairs (-1)^{sum_{k fermionic} p_k(g1) p_k(g2)}, the
           group parities taken from the element's leg charges with vmon.groups (exact equality); applying the same gate
           twice restores the operand exactly; nothing changes for bosonic flags; legs and total charge are unchanged.
(b) ncon   networks of 2-5 tensors with ``swap=`` on open and contracted legs (biased toward swaps between a
           contracted leg and a leg of a third tensor -> _einsum._resolve_bad_swaps step 1 / step 2 and the
           ``parity_sign`` command), odd-parity tensors included.  Oracle: np.einsum of the dense operands with one
           explicit parity-sign matrix per requested swap (sign(i, j) from the charges of dense indices i, j of the two
           swapped edges).  EVERY permutation of the contraction order (all <= 120 for <= 5 contracted labels, sampled
           above) must give that value, through ncon(order=), through relabelling (default order) and through
           einsum(order=, swap=).  Orders rejected with YastnError "inefficient order" are counted.
(c) fkron  dense fkron(*operators, sites=, application_order=) == product of explicit Jordan-Wigner matrices (vmon.jw)
           in application order, for all site permutations x application orders of 2-3 operators of every predefined
           fermionic family, bosonic families (no signs) and random harness operators under every fermionic flag;
           and the canonical (anti)commutation relations between sites (commutators between the distinguishable
           species of SpinfulFermions('U1xU1'), by that class's docstring).

Argument conventions swept in every family (oracle unchanged): the containers the user controls are written in every order
(swap= pairs shuffled, (j, i) for (i, j), a crossing listed twice = identity; swap_gate groups / pairs / legs inside a group
re-ordered, negative positions counted from the logical rank, the same pair twice in one call, axes and charges permuted
together); every call is also issued with its defaults (no order=, conjs omitted, swap omitted / [] / () = no signs at all);
falsy inputs (empty axes, rank-0 tensors and scalar network values, tensors without blocks, dimension-one odd legs, legs with
even charges only, total charge exactly zero); fused operands (hard / meta / two-level for swap_gate; hard- or meta-fused
contracted and open legs inside ncon networks, constituents mixing odd and even charges, also on lazily transposed operands).
Keys added: reordered-arguments:swap_gate:..., ...:negative-axes, value/exception:ncon-no-swap:<variant>.

Violation keys of family (b) are mechanism classes.  Every requested order is first classified by an independent GF(2)
analysis of the network (classify_order): 'resolvable' (a schedule of single-tensor swap gates exists for this order),
'inefficient' (a trace after a tensordot: the documented rejection), 'unresolvable:multi-bond' / 'unresolvable:traced-leg'
(the parity of a summed index would be needed after the contraction: no schedule exists, the only correct outcomes are a
YastnError or - for data that happens to be insensitive - the right value).  Keys:
  exception:ncon-swap:unresolvable-order:{multi-bond,traced-leg}   foreign exception (not YastnError) on such an order
  value:ncon-swap:unresolvable-order:{...}                         a WRONG value returned silently on such an order
  exception:ncon-swap:inefficient-order                            foreign exception instead of the documented YastnError
  exception:ncon-swap:resolvable-order:<ExcType>                   the scheduler fails although a schedule exists
  exception:ncon-swap:resolvable-order:pending-swap-at-trace       same, a swap with another tensor's leg pending at a trace
  value:ncon-swap:pending-swap-at-trace                            wrong value, swap pending at a trace step
  value:ncon-swap:{direct,jump,jump-odd}[+trace][:bosonic]         wrong value on any other order (by commands used)
Family (a): value:swap_gate:{axes,charge}[:fused-*][:lazy], value:swap_gate:bosonic-not-identity, involution:..., result-legs/
result-charge:..., and exception:swap_gate:charge-given-as-list (labelled probe: the docstring types charge as Sequence[int]).
Family (c): value:fkron:{fermionic,bosonic,random,single-site}, car:{anticommutator,commutator}:{c,c / c,c+}:{same-site,i<j,i>j},
car:two-operator-form:*, car:on-site-algebra:*.

Reach is reported through counters derived from the command list that _meta_ncon returns for the very call that was
executed (parity_sign commands, jumps on third-party tensors = step 1, jumps on the contracted tensors = step 2) and
through sys.monitoring LINE events restricted to the anchored functions.
"""
from __future__ import annotations

import inspect
import itertools
import string
import sys

import numpy as np

from vmon import dense as D
from vmon import groups as G
from vmon import jw
from vmon.harness import CaseSkip

from . import c01

PROP = "C05"
RULE = ("case = swap: (symmetry x fermionic flag [True / every per-component tuple / False]; 30 configurations cycled) x tensor of "
        "rank 1-5 with chosen odd/even total parity, block mask, lazy state, fusion recipe (none / hard / meta / two levels) x form "
        "of the call (pair, groups, several pairs, repeated legs, charge= single / per axis);  ncon: network of 2-5 tensors (tree + "
        "extra bonds, double bonds, traces, open legs, conj flags, lazy operands, odd tensors) x 1-4 swaps (open/contracted, "
        "contracted-vs-third-party biased) x every permutation of the contracted labels;  fkron: operator family x tuple of 2-3 "
        "operators x all site permutations x all application orders, and the CAR table of the family on 2-3 sites.  "
        "distinct = hash of (kind, configuration, leg sectors, stored block keys, lazy/fusion state, call form / network and swaps / "
        "operator names).  Every case also varies how the call is written (container order, (j,i) pairs, doubled crossings, negative "
        "axes, lists/tuples, defaults omitted, empty swap/axes) and includes falsy structures (rank 0, no blocks, D=1 odd legs, even-only "
        "legs, n=0) and fused operands (swap_gate: hard/meta/two-level; ncon: hard- or meta-fused bonds and open legs); non-trivial = a stored block exists and the result was compared element-wise (swap), the reference is "
        "non-zero and at least one order was accepted (ncon), the reference matrix is non-zero (fkron)")
ASSUMPTIONS = ["vmon.groups parity arithmetic on Python ints is the truth for signs; harness dense images are built from the blocks "
               "passed to set_block (no to_numpy on operands)",
               "the parity of a fused leg is the sum of the parities of its constituent legs (group arithmetic; Z2 and U1 components)",
               "NumPy einsum with explicit +-1 matrices on the swapped edges is the meaning of ncon(..., swap=...): a swap of two "
               "edges multiplies every term of the contraction by the swap sign of the two charges flowing through the edges "
               "(docstring of ncon/swap_gate; conjugation does not change parities)",
               "vmon.jw Jordan-Wigner model: site 0 first in the fermionic order, written product = matrix product, operator of "
               "charge n carries strings diag((-1)^{t.n}) over fermionic components on earlier sites (fkron docstring)",
               "tolerances: exact for swap_gate; 1e-13 * prod ||T_i||_F for networks (arithmetic order differs between orders; observed "
               "<= 1e-15 * scale); 64 eps * prod max|O| for fkron (outer products; observed <= 2 eps); 1e-13 absolute for CAR relations"]

SWAP_SYMS = ("Z2", "U1", "Z2xU1", "U1xU1", "U1xU1xZ2")
STATES = ("plain", "lazy", "lazy", "consumed", "copy")
POLICIES = ("fuse_contracted", "fuse_to_matrix", "no_fusion")
KINDS = ("swap", "ncon", "swap", "fkron", "swap", "ncon", "swap", "fkron", "swap")      # 9: coprime with 8 / 16 shards


def _flags(sym):
    k = G.nsym(sym)
    return (True,) + tuple(itertools.product((False, True), repeat=k)) + (False,)


CONFIGS = tuple((s, f) for s in SWAP_SYMS for f in _flags(s))                         # 4+4+6+6+10 = 30
FERMIONIC_CONFIGS = tuple((s, f) for s, f in CONFIGS if any(G.fmask(s, f)))
NCON_CONFIGS = FERMIONIC_CONFIGS + (("Z2", False), ("U1xU1", (False, False)), ("U1", True), ("U1xU1xZ2", (False, False, True)),
                                    ("Z2", True), ("U1xU1", True))

PREDEF = (
    ("SpinlessFermions", "Z2", {}), ("SpinlessFermions", "U1", {}),
    ("SpinfulFermions", "Z2", {}), ("SpinfulFermions", "U1", {}), ("SpinfulFermions", "U1xU1", {}),
    ("SpinfulFermions", "U1xU1xZ2", {}), ("SpinfulFermions", "U1xU1", {"fermionic": (True, True)}),
    ("SpinfulFermions_tJ", "Z2", {}), ("SpinfulFermions_tJ", "U1", {}), ("SpinfulFermions_tJ", "U1xU1", {}),
    ("SpinfulFermions_tJ", "U1xU1xZ2", {}),
    ("Spin12", "dense", {}), ("Spin12", "Z2", {}), ("Spin12", "U1", {}),
    ("Spin1", "dense", {}), ("Spin1", "Z3", {}), ("Spin1", "U1", {}),
)
NAMES = {
    "SpinlessFermions": ("I", "n", "c", "cp"),
    "SpinfulFermions": ("I", "nu", "nd", "cu", "cd", "cpu", "cpd", "Sz", "Sp", "Sm"),
    "SpinfulFermions_tJ": ("I", "nu", "nd", "cu", "cd", "cpu", "cpd", "Sz", "Sp", "Sm", "h"),
    "Spin12": ("I", "z", "sz", "sp", "sm"),          # the ones defined in all three symmetries
    "Spin1": ("I", "sz", "sp", "sm"),
}
# fkron case schedule: predefined families (fermionic ones twice), CAR tables, random harness operators
FK_SCHEDULE = tuple([("ops", i) for i in range(len(PREDEF))] + [("ops", i) for i in range(11)] +
                    [("car", i) for i in range(11)] + [("random", None)] * 14)

EPS = 2.3e-16
TOL_NET = 1e-13


def plan(tier):
    if tier == "thorough":
        return {"cases": 60000, "shards": 16, "budget_s": 800}
    return {"cases": 2430, "shards": 8, "budget_s": 240}


def floors(tier):
    k = 10 if tier == "thorough" else 1
    f = {"swap_cases": 300 * k, "swap_flag:True": 30 * k, "swap_flag:False": 30 * k, "swap_flag:tuple-all-true": 30 * k,
         "swap_flag:tuple-all-false": 30 * k, "swap_flag:tuple-mixed": 30 * k,
         "swap_sign_sensitive": 80 * k, "swap_odd_tensor": 60 * k, "swap_even_tensor": 60 * k,
         "swap_form:pair": 20 * k, "swap_form:groups": 20 * k, "swap_form:multi": 20 * k, "swap_form:repeat": 10 * k,
         "swap_form:charge-single": 20 * k, "swap_form:charge-list": 20 * k,
         "swap_fused:hard": 20 * k, "swap_fused:meta": 20 * k, "swap_fused:two-level": 10 * k, "swap_lazy_operands": 60 * k,
         "swap_charge_as_list": 10 * k, "swap_involution_checked": 250 * k, "swap_bosonic_identity_checked": 60 * k, "swap_elements_compared": 20000 * k,
         "ncon_networks": 100 * k, "ncon_orders_accepted": 1500 * k, "ncon_orders_rejected_inefficient": 5 * k,
         "ncon_sign_sensitive_networks": 40 * k, "ncon_odd_tensor_networks": 40 * k,
         "ncon_cmd:resolve_bad_swaps_orders": 300 * k, "ncon_cmd:parity_sign": 300 * k, "ncon_cmd:parity_sign_odd": 60 * k,
         "ncon_cmd:jump_step1": 50 * k, "ncon_cmd:jump_step2": 50 * k, "ncon_via:einsum": 100 * k, "ncon_via:relabel": 100 * k,
         "ncon_swap_open_open": 10 * k, "ncon_swap_contracted_thirdparty": 60 * k,
         "ncon_trace_shared_index_networks": 25 * k, "ncon_trace_shared_index_decided": 10 * k, "ncon_repeated_swap_networks": 8 * k,
         # (1) container order of user-controlled arguments
         "swap_reordered_argument_checked": 250 * k, "swap_form:doubled": 20 * k, "swap_negative_axes": 100 * k,
         "ncon_swap_arg:shuffled": 2000 * k, "ncon_swap_arg:flipped": 2000 * k, "ncon_swap_arg:doubled": 800 * k,
         # (2) defaults / omitted arguments, no sign on bosonic components
         "ncon_default_calls": 500 * k, "ncon_default:all-defaults": 60 * k, "ncon_default:swap-omitted": 80 * k,
         "ncon_default:einsum-swap-omitted": 80 * k, "ncon_conjs_omitted_calls": 150 * k,
         "swap_bosonic_component_discriminating": 50 * k, "swap_partial_tuple_discriminating": 20 * k, "ncon_partial_tuple_discriminating": 6 * k,
         # (3) falsy values
         "swap_form:empty": 10 * k, "swap_rank0_tensor": 3 * k, "swap_no_blocks_tensor": 15 * k, "swap_dim1_odd_leg": 40 * k,
         "swap_zero_charge_tensor": 80 * k, "swap_flavour:all-even": 12 * k,
         "ncon_default:swap-empty-list": 80 * k, "ncon_default:swap-empty-tuple": 80 * k, "ncon_scalar_results": 8 * k,
         "ncon_scalar_results_sign_sensitive": 2 * k, "ncon_empty_operand_networks": 25 * k, "ncon_dim1_odd_crossed_leg_networks": 25 * k,
         "ncon_even_only_crossed_leg_networks": 25 * k, "ncon_cmd:parity_sign_zero_charge": 100 * k,
         # (4) fused operands
         "swap_fused_mixed_parity_constituents": 80 * k, "swap_negative_axes_meta": 30 * k, "swap_negative_axes_meta_lazy": 10 * k,
         "ncon_fused_networks": 30 * k, "ncon_fused:hard": 12 * k, "ncon_fused:meta": 12 * k, "ncon_fused_crossed_leg_decided": 6 * k,
         "ncon_fused_open_leg_networks": 15 * k, "ncon_fused_mixed_parity_constituents": 25 * k, "ncon_fused_on_lazy_operand": 15 * k,
         "reach:resolve_step1_jump": 10 * k, "reach:resolve_step2_jump": 10 * k, "reach:parity_sign_swap_gate": 10 * k,
         "fkron_calls": 1500 * k, "fkron_sign_sensitive": 200 * k, "fkron_order_sensitive_cases": 30 * k,
         "fkron_fermionic_cases": 60 * k, "fkron_bosonic_cases": 15 * k, "fkron_random_cases": 10 * k,
         "car_relations": 300 * k, "car_commuting_species_relations": 10 * k}
    return f


# ================================================================== line reach (sys.monitoring)

class Reach:
    """LINE events on the anchored functions; a line fires once per case (DISABLE, restart_events at case start)."""
    ANCHORS = {   # name -> (function key, stripped source text, which occurrence)
        "resolve_step1_jump": ("_resolve_bad_swaps", "jump(C, ax, partner)", 0),
        "resolve_step2_jump": ("_resolve_bad_swaps", "jump(t, ls, edge)", 0),
        "resolve_step1_skipped": ("_resolve_bad_swaps", "return None", 0),
        "resolve_z2_cancel": ("_resolve_bad_swaps", "z2.discard(key)", 0),
        "resolve_same_tensor_absorbed": ("_resolve_bad_swaps", "by_tensor.setdefault(ten_s, []).extend(axes_s)", 0),
        "parity_sign_swap_gate": ("_execute_commands", "ts[d_ten] = swap_gate(ts[d_ten], axes=d_legs, charge=charge)", 0),
        "meta_ncon_final_swaps": ("_meta_ncon", "commands.append(('swap_gate', ten_out, ten_out, axes_swap))", 0),
        "meta_ncon_trace": ("_meta_ncon", "commands.append(('trace', ten1, ten1, (tuple(axes1), tuple(axes2))))", 0),
    }

    def __init__(self):
        self.ok = False
        self.tool = None
        self.codes = {}
        self.exec_lines = {}
        self.all_hits = {}
        self.case_hits = set()
        self.anchor_line = {}
        try:
            from yastn.tensor import _auxiliary, _contractions, _einsum
            mon = sys.monitoring
            funcs = {"_resolve_bad_swaps": _einsum._resolve_bad_swaps,
                     "_meta_ncon": getattr(_einsum._meta_ncon, "__wrapped__", _einsum._meta_ncon),
                     "_execute_commands": _einsum._execute_commands,
                     "swap_gate": _contractions.swap_gate,
                     "_meta_swap_gate": getattr(_contractions._meta_swap_gate, "__wrapped__", _contractions._meta_swap_gate),
                     "_meta_swap_gate_charge": getattr(_contractions._meta_swap_gate_charge, "__wrapped__", _contractions._meta_swap_gate_charge),
                     "fkron": _contractions.fkron,
                     "sign_canonical_order": _auxiliary.sign_canonical_order}
            funcs = {k: inspect.unwrap(v) for k, v in funcs.items()}
            for tid in (3, 4, 5, 2):
                if mon.get_tool(tid) is None:
                    mon.use_tool_id(tid, "vmon-c05-reach")
                    self.tool = tid
                    break
            if self.tool is None:
                return
            for name, fn in funcs.items():
                codes = []

                def rec(code):
                    codes.append(code)
                    for c in code.co_consts:
                        if hasattr(c, "co_lines"):
                            rec(c)
                rec(fn.__code__)
                lines = set()
                for code in codes:
                    self.codes[code] = name
                    lines |= {ln for _, _, ln in code.co_lines() if ln is not None and ln > code.co_firstlineno}
                    mon.set_local_events(self.tool, code, mon.events.LINE)
                self.exec_lines[name] = sorted(lines)
                self.all_hits[name] = set()
                src, first = inspect.getsourcelines(fn)
                for an, (fname, text, occ) in self.ANCHORS.items():
                    if fname != name:
                        continue
                    found = [first + off for off, line in enumerate(src) if line.strip() == text]
                    if len(found) > occ:
                        self.anchor_line[an] = (name, found[occ])
            mon.register_callback(self.tool, mon.events.LINE, self._cb)
            self.ok = True
        except Exception:        # monitoring unavailable -> reach counters stay 0 -> floors -> inconclusive
            self.ok = False

    def _cb(self, code, line):
        name = self.codes.get(code)
        if name is not None:
            self.case_hits.add((name, line))
        return sys.monitoring.DISABLE

    def start_case(self):
        self.case_hits = set()
        if self.ok:
            sys.monitoring.restart_events()

    def end_case(self, ctx):
        for name, line in self.case_hits:
            self.all_hits[name].add(line)
        for an, key in self.anchor_line.items():
            if key in self.case_hits:
                ctx.count("reach:" + an)

    def publish(self, ctx):
        for name in self.all_hits:
            ctx.note("lines_reached:" + name, sorted(self.all_hits[name]))
            ctx.note("lines_executable:" + name, list(self.exec_lines[name]))
        ctx.note("reach_monitor_attached", {"shards": 1 if self.ok else 0})
        ctx.note("reach_anchors_located", sorted(self.anchor_line))


_REACH = None


def reach():
    global _REACH
    if _REACH is None:
        _REACH = Reach()
    return _REACH


# ================================================================== shared helpers

def yerr(e):
    return type(e).__name__ == "YastnError"


def flag_class(sym, f):
    if f is True:
        return "True"
    if f is False:
        return "False"
    m = G.fmask(sym, f)
    return "tuple-all-true" if all(m) else ("tuple-all-false" if not any(m) else "tuple-mixed")


def index_charges(hleg):
    """Charge tuple of every dense index of a harness leg (ascending charge order = HLeg.offsets)."""
    out = [None] * hleg.dim
    for t, (lo, hi) in hleg.offsets().items():
        for i in range(lo, hi):
            out[i] = t
    return out


def odd(sym, n, ferm):
    """True when charge n is odd in some fermionic component."""
    return any(x % 2 for x, f in zip(n, G.fmask(sym, ferm)) if f)


def gsum(key, legs_in_group):
    """Component-wise integer sum of the charges of the legs of a group (parity of a group = parity of the sum)."""
    k = len(key[0]) if key else 0
    return tuple(sum(key[l][c] for l in legs_in_group) for c in range(k))


def swap_sign_array(ht, pairs, ferm):
    """+-1 array over the dense image of ``ht``: prod over (g1, g2) in pairs of swap_sign(sum charges g1, sum charges g2).
    g2 may also be a literal charge tuple wrapped as ('charge', t)."""
    S = np.ones(ht.shape, dtype=np.int64)
    offs = [l.offsets() for l in ht.legs]
    for key in itertools.product(*(l.ts for l in ht.legs)):
        s = 1
        for g1, g2 in pairs:
            t1 = gsum(key, g1)
            t2 = g2[1] if (len(g2) == 2 and g2[0] == "charge") else gsum(key, g2)
            s *= G.swap_sign(ht.sym, t1, t2, ferm)
        if s != 1:
            S[tuple(slice(*o[t]) for o, t in zip(offs, key))] = s
    return S


def unfuse_all(t):
    for _ in range(8):
        ax = tuple(i for i, l in enumerate(t.get_legs()) if l.is_fused())
        if not ax:
            return t
        t = t.unfuse_legs(axes=ax)
    return t


def compare_exact(ctx, key, what, r, exp, legs, n, witness):
    """Result legs / charge unchanged and every dense element exactly as expected."""
    import yastn
    if not isinstance(r, yastn.Tensor) or r.ndim != len(legs):
        ctx.violation("result-rank:" + key, f"{what}: result is not a rank-{len(legs)} tensor", witness)
        return False
    ok = True
    if tuple(r.n) != tuple(n):
        ctx.violation("result-charge:" + key, f"{what}: total charge {r.n} expected {tuple(n)}", witness)
        ok = False
    if tuple(r.get_signature()) != tuple(l.s for l in legs):
        ctx.violation("result-legs:" + key, f"{what}: signature {r.get_signature()} expected {tuple(l.s for l in legs)}", witness)
        return False
    for i, (yl, hl) in enumerate(zip(r.get_legs(), legs)):
        bad = D.sub_leg_ok(yl, hl)
        if bad:
            ctx.violation("result-legs:" + key, f"{what}: leg {i}: {bad}", witness)
            return False
    got = D.obs_dense(r, legs)
    if got.shape != exp.shape:
        ctx.violation("result-shape:" + key, f"{what}: dense shape {got.shape} expected {exp.shape}", witness)
        return False
    ctx.count("swap_elements_compared", int(exp.size))
    if not np.array_equal(got, exp):
        bad = np.argwhere(got != exp)
        w = dict(witness or {})
        w.update({"first_bad_index": bad[0].tolist(), "got": got[tuple(bad[0])], "expected": exp[tuple(bad[0])], "n_bad": len(bad)})
        ctx.violation("value:" + key, f"{what}: {len(bad)} dense element(s) differ from operand * parity sign "
                                      f"(first at {bad[0].tolist()}: got {got[tuple(bad[0])]!r} expected {exp[tuple(bad[0])]!r})", w)
        ok = False
    return ok


# ================================================================== (a) swap_gate

def even_box(sym):
    return [t for t in D.charge_box(sym) if not any(x % 2 for x in t)]


def odd_charges(sym, mask):
    return [t for t in D.charge_box(sym) if odd(sym, t, mask)]


def gen_parity_tensor(rng, nprng, sym, ferm, rank, want, dmax, flavour="generic"):
    """Tensor over random legs whose total charge is 'odd' / 'even' in the fermionic components or exactly 'zero' (when
    reachable).  flavour: generic | all-even (legs hold only even charges: no sign can ever appear) | dim1-odd (one leg is a
    single odd sector of dimension one) | empty (no stored block)."""
    mask = G.fmask(sym, ferm) if any(G.fmask(sym, ferm)) else G.fmask(sym, True)
    n = None
    for _attempt in range(12):
        legs = []
        for _ in range(rank):
            if flavour == "all-even":
                L = D.gen_leg(rng, sym, nsec=(1, 3), dmax=dmax, box=even_box(sym))
            else:
                L = D.gen_leg(rng, sym, nsec=(2, 3) if rng.random() < 0.8 else (1, 3), dmax=dmax)
                if rng.random() < 0.75:          # most legs carry a sector that is odd in a fermionic component
                    for _ in range(6):
                        if any(odd(sym, t, mask) for t in L.ts):
                            break
                        L = D.gen_leg(rng, sym, nsec=(2, 3), dmax=dmax)
            legs.append(L)
        if flavour == "dim1-odd" and rank:
            legs[rng.randrange(rank)] = D.HLeg(sym, rng.choice((-1, 1)), [(G.canon(sym, rng.choice(odd_charges(sym, mask))), 1)])
        if want == "zero":
            n = G.zero(sym)
            if D.allowed_keys(sym, legs, n):
                break
            continue
        n = D.gen_n(rng, sym, legs, "fit")
        for _ in range(12):
            if odd(sym, n, mask) == (want == "odd"):
                break
            n = D.gen_n(rng, sym, legs, "fit")
        break
    dt = rng.choice(("float64", "float64", "complex128"))
    a = D.gen_tensor(rng, nprng, sym, legs=legs, n=n, dtype=dt, density=rng.choice((1.0, 1.0, 0.7, 0.4)), fermionic=ferm)
    if flavour == "empty":
        a = a._new(blocks={})
    elif not a.blocks:           # thin block mask removed everything: keep emptiness for the 'empty' flavour
        a = D.gen_tensor(rng, nprng, sym, legs=legs, n=n, dtype=dt, density=1.0, fermionic=ferm)
    return a


def fusion_recipe(rng, rank):
    """Random permutation + partition of range(rank) into >= 2 groups, at least one of size >= 2."""
    perm = list(range(rank))
    if rng.random() < 0.6:
        rng.shuffle(perm)
    for _ in range(20):
        ngr = rng.randint(2, rank - 1)
        cuts = sorted(rng.sample(range(1, rank), ngr - 1))
        groups = [tuple(perm[a:b]) for a, b in zip([0] + cuts, cuts + [rank])]
        if any(len(g) > 1 for g in groups):
            return groups
    return [tuple(perm[:2])] + [(x,) for x in perm[2:]]


def as_axes_arg(rng, groups):
    """fuse_legs / swap_gate argument form of a list of groups: singletons as int (mostly)."""
    return tuple(g[0] if (len(g) == 1 and rng.random() < 0.8) else tuple(g) for g in groups)


def swap_case(ctx, idx, k):
    rng, nprng = ctx.rng(idx), ctx.nprng(idx)
    sym, ferm = CONFIGS[k % len(CONFIGS)]
    fcls = flag_class(sym, ferm)
    fermionic = any(G.fmask(sym, ferm))
    cfg = D.make_cfg(sym, ferm, tensordot_policy=rng.choice(POLICIES), default_fusion=rng.choice(("hard", "meta")))
    fuse = rng.choice(("none", "none", "hard", "meta", "two-level"))
    diag = fuse == "none" and rng.random() < 0.06
    want = rng.choice(("odd", "odd", "even", "zero"))
    flavour = rng.choice(("generic",) * 15 + ("all-even", "dim1-odd", "dim1-odd", "empty"))
    if diag:
        a = D.gen_diag(rng, nprng, sym, leg=D.gen_leg(rng, sym, nsec=(2, 3)), density=rng.choice((1.0, 0.7)), fermionic=ferm)
    else:
        rank = rng.randint(3, 5) if fuse != "none" else (0 if rng.random() < 0.03 else rng.choice((1, 2, 2, 3, 3, 4, 4, 5)))
        if fuse == "two-level":
            rank = rng.randint(4, 5)
        a = gen_parity_tensor(rng, nprng, sym, ferm, rank, want, dmax=2 if rank >= 4 else 3, flavour=flavour)
    ya, state = c01.realize(a, rng, cfg, rng.choice(STATES))
    if state != "plain":
        ctx.count("swap_lazy_operands")
    # ---- fusion: flat[j] = tuple of original legs (in order) that make up leg j of the tensor swap_gate is called on
    base, yb, modes = a, ya, []
    flat = [(i,) for i in range(a.rank)]
    if fuse != "none":
        levels = 2 if fuse == "two-level" else 1
        for lev in range(levels):
            r_now = len(flat)
            if r_now < 3:
                break
            groups = fusion_recipe(rng, r_now)
            mode = fuse if fuse in ("hard", "meta") else rng.choice(("hard", "meta"))
            modes.append(mode)
            yb = yb.fuse_legs(axes=as_axes_arg(rng, groups), mode=mode)
            flat = [tuple(x for j in g for x in flat[j]) for g in groups]
        order = [x for g in flat for x in g]
        base = a.permute(order)                      # the tensor obtained by unfusing everything again
        pos = {leg: p for p, leg in enumerate(order)}
        flat = [tuple(pos[x] for x in g) for g in flat]
        ctx.count("swap_fused:" + fuse)
    nl = len(flat)
    # ---- the call
    forms = ["charge-single", "charge-single", "charge-list", "charge-list"]
    if nl >= 2:
        forms += ["pair", "pair", "pair", "multi", "multi", "doubled"]
    if nl >= 3:
        forms += ["groups", "groups", "groups", "groups", "repeat", "repeat", "multi", "multi"]
    form = rng.choice(forms) if (nl > 0 and rng.random() > 0.04) else "empty"
    box = D.charge_box(sym)
    kwargs, pairs = {}, []
    if form == "pair":
        i, j = rng.sample(range(nl), 2)
        axes = (i, j) if rng.random() < 0.7 else ((i,), (j,))
        pairs = [(flat[i], flat[j])]
    elif form == "groups":
        m = rng.randint(3, min(nl, 5))
        sel = rng.sample(range(nl), m)
        cut = rng.randint(1, m - 1)
        g1, g2 = tuple(sel[:cut]), tuple(sel[cut:])
        axes = (g1 if len(g1) > 1 or rng.random() < 0.5 else g1[0], g2 if len(g2) > 1 or rng.random() < 0.5 else g2[0])
        pairs = [(tuple(x for j in g1 for x in flat[j]), tuple(x for j in g2 for x in flat[j]))]
    elif form == "doubled":       # the same crossing twice in one call is the identity (any grouping / order of the repeat)
        m = rng.randint(2, min(nl, 3))
        sel = rng.sample(range(nl), m)
        cut = rng.randint(1, m - 1)
        g1, g2 = tuple(sel[:cut]), tuple(sel[cut:])
        rep = (g2[::-1], g1) if rng.random() < 0.5 else (g1, g2)
        axes = tuple(g[0] if len(g) == 1 and rng.random() < 0.5 else g for g in (g1, g2) + rep)
        f1, f2 = tuple(x for j in g1 for x in flat[j]), tuple(x for j in g2 for x in flat[j])
        pairs = [(f1, f2), (f1, f2)]
    elif form == "empty":         # nothing to swap: identity
        axes = () if rng.random() < 0.5 else []
        if rng.random() < 0.4:
            kwargs["charge"] = tuple(rng.choice(box))
        pairs = []
    elif form in ("multi", "repeat"):
        npairs = rng.randint(2, 3)
        axes, used = [], []
        for p in range(npairs):
            pool = [x for x in range(nl) if x not in used]
            if form == "repeat" or len(pool) < 2:
                pool = list(range(nl))
            size = 2 if (len(pool) == 2 or rng.random() < 0.6) else 3
            sel = rng.sample(pool, size)
            if form == "repeat" and p > 0 and not (set(sel) & set(used)):
                sel[0] = rng.choice([x for x in used if x not in sel[1:]] or [sel[0]])     # a leg re-appears in another pair
            used += [x for x in sel if x not in used]
            cut = rng.randint(1, len(sel) - 1)
            g1, g2 = tuple(sel[:cut]), tuple(sel[cut:])
            axes += [g1 if len(g1) > 1 or rng.random() < 0.3 else g1[0], g2 if len(g2) > 1 or rng.random() < 0.3 else g2[0]]
            pairs.append((tuple(x for j in g1 for x in flat[j]), tuple(x for j in g2 for x in flat[j])))
        axes = tuple(axes)
    else:
        m = rng.randint(1, min(nl, 3))
        sel = rng.sample(range(nl), m)
        axes = sel[0] if (m == 1 and rng.random() < 0.5) else tuple(sel)
        if form == "charge-single":
            t = tuple(rng.choice(box))
            for _ in range(4):
                if any(x % 2 for x in t) or rng.random() < 0.2:
                    break
                t = tuple(rng.choice(box))
            kwargs["charge"] = t
            pairs = [(flat[j], ("charge", t)) for j in sel]
        else:
            ts = [tuple(rng.choice(box)) for _ in sel]
            kwargs["charge"] = tuple(ts) if rng.random() < 0.5 else list(ts)
            pairs = [(flat[j], ("charge", t)) for j, t in zip(sel, ts)]
    S = swap_sign_array(base, pairs, ferm)
    dense0 = base.dense()
    expected = dense0 * S
    stored_mask = dense0 != 0
    sensitive = bool(np.any(S[stored_mask] < 0)) if dense0.size else False
    witness = {"sym": sym, "fermionic": ferm, "state": state, "fuse": fuse, "modes": modes, "form": form,
               "axes": axes, "charge": kwargs.get("charge"),
               "pairs_in_unfused_legs": [[list(g1), list(g2)] for g1, g2 in pairs],
               "legs_after_unfusing": [x for g in flat for x in g] if fuse == "none" else order,
               "tensor": a.desc(values=a.size() <= 64)}
    call = f"axes={axes}" + (f", charge={kwargs['charge']!r}" if kwargs else "")
    what = f"swap_gate({call}) [{sym} fermionic={ferm} {state} fuse={fuse}{modes}]"
    # an equivalent call with the containers in another order: pairs reversed, the two groups of a pair exchanged, legs inside
    # a group reversed; for the charge form axes and charges permuted together
    def _tup(g):
        return (g,) if isinstance(g, int) else tuple(g)
    if kwargs:
        sel_v = list(_tup(axes))
        if form == "charge-list":
            q = list(range(len(sel_v)))
            rng.shuffle(q)
            axes_v, kwargs_v = tuple(sel_v[i] for i in q), {"charge": [kwargs["charge"][i] for i in q]}
        else:
            axes_v, kwargs_v = tuple(sel_v[::-1]), dict(kwargs)
    else:
        gl = [_tup(g) for g in axes]
        pl = [(gl[i + 1][::-1], gl[i]) if rng.random() < 0.7 else (gl[i], gl[i + 1]) for i in range(0, len(gl), 2)]
        rng.shuffle(pl)
        axes_v, kwargs_v = tuple(g for pr in pl for g in pr), {}
    # negative positions count from the LOGICAL rank of the (possibly meta-fused) tensor
    negative = False
    if rng.random() < 0.4:
        def _neg(i):
            nonlocal negative
            if rng.random() < 0.6:
                negative = True
                return i - nl
            return i
        axes = _neg(axes) if isinstance(axes, int) else tuple(_neg(g) if isinstance(g, int) else tuple(_neg(i) for i in g) for g in axes)
    # documented argument types are Sequence[...]: lists are passed as often as tuples
    if not isinstance(axes, int) and rng.random() < 0.3:
        axes = [list(g) if isinstance(g, tuple) else g for g in axes]
    witness["axes"] = axes
    call = f"axes={axes}" + (f", charge={kwargs['charge']!r}" if kwargs else "")
    what = f"swap_gate({call}) [{sym} fermionic={ferm} {state} fuse={fuse}{modes}]"
    listed = False
    if kwargs and rng.random() < 0.15:          # the charge(s) themselves as lists (Sequence[int] / Sequence[Sequence[int]])
        kwargs_l = {"charge": list(kwargs["charge"]) if form != "charge-list" else [list(t) for t in kwargs["charge"]]}
        listed = True
    reach().start_case()
    if listed:
        ctx.count("swap_charge_as_list")
        try:
            r = yb.swap_gate(axes=axes, **kwargs_l)
        except TypeError as e:
            if "concatenate tuple" not in str(e):
                raise
            ctx.violation("exception:swap_gate:charge-given-as-list", f"swap_gate(axes={axes}, charge={kwargs_l['charge']}) raised TypeError: {e} "
                          "(docstring: charge is a Sequence[int] | Sequence[Sequence[int]]; the same call with tuples works)",
                          {"axes": axes, "charge": kwargs_l["charge"], "sym": sym})
            r = yb.swap_gate(axes=axes, **kwargs)
    else:
        r = yb.swap_gate(axes=axes, **kwargs)
    if fermionic:
        key = "swap_gate:" + ("charge" if kwargs else "axes") + ("" if fuse == "none" else ":fused-" + fuse) + (":lazy" if state == "lazy" else "") \
              + (":negative-axes" if negative else "")
    else:
        key = "swap_gate:bosonic-not-identity"
    ru = unfuse_all(r) if fuse != "none" else r
    ok = compare_exact(ctx, key, what, ru, expected, base.legs, base.n, witness)
    # the fused result itself keeps the legs of the fused operand
    if fuse != "none" and (r.get_legs() != yb.get_legs() or tuple(r.n) != tuple(yb.n)):
        ctx.violation("result-legs:" + key, f"{what}: legs / charge of the fused result differ from the fused operand", witness)
    # the same gate with the containers of the arguments in another order
    rv = yb.swap_gate(axes=axes_v, **kwargs_v)
    ctx.count("swap_reordered_argument_checked")
    compare_exact(ctx, "reordered-arguments:" + key, f"swap_gate(axes={axes_v}{', charge=%r' % (kwargs_v['charge'],) if kwargs_v else ''}) "
                  f"[equivalent re-ordering of {call}; {sym} fermionic={ferm} {state} fuse={fuse}{modes}]",
                  unfuse_all(rv) if fuse != "none" else rv, expected, base.legs, base.n, witness)
    # involution
    r2 = r.swap_gate(axes=axes, **kwargs)
    r2u = unfuse_all(r2) if fuse != "none" else r2
    ctx.count("swap_involution_checked")
    if ok:
        compare_exact(ctx, "involution:" + key, what + " applied twice", r2u, dense0, base.legs, base.n, witness)
    if not fermionic:
        ctx.count("swap_bosonic_identity_checked")
        if sensitive:      # cannot happen: S is all ones when no component is fermionic
            raise AssertionError("harness: bosonic sign array is not trivial")
    reach().end_case(ctx)
    # must-reject: odd number of elements in axes
    if fermionic and form == "pair" and nl >= 3 and idx % 7 == 0:
        try:
            yb.swap_gate(axes=(0, 1, 2))
            ctx.violation("accepted:swap_gate:odd-axes", "swap_gate accepted an odd number of axes elements", witness)
        except Exception as e:
            if not (yerr(e) and "pairs" in str(e)):
                raise
            ctx.count("swap_odd_axes_rejected")
    ctx.count("swap_cases")
    ctx.count("swap_flag:" + fcls)
    ctx.count("swap_form:" + form)
    ctx.count("swap_sym:" + sym)
    ctx.count("swap_state:" + state)
    if diag:
        ctx.count("swap_diag_tensor")
    else:
        ctx.count("swap_flavour:" + flavour)
    if negative:
        ctx.count("swap_negative_axes")
        if "meta" in modes:
            ctx.count("swap_negative_axes_meta")
            if state == "lazy":
                ctx.count("swap_negative_axes_meta_lazy")
    if a.rank == 0:
        ctx.count("swap_rank0_tensor")
    if not len(a.blocks):
        ctx.count("swap_no_blocks_tensor")
    if any(l.dim == 1 and odd(sym, l.ts[0], True) for l in a.legs):
        ctx.count("swap_dim1_odd_leg")
    if len(a.blocks) and not any(a.n):
        ctx.count("swap_zero_charge_tensor")
    mixed_flag = fermionic and not all(G.fmask(sym, ferm))
    if (mixed_flag or not fermionic) and dense0.size:
        # the gate must NOT see the bosonic components: count the cases where an all-fermionic reading would differ
        if np.any((swap_sign_array(base, pairs, True) != S) & stored_mask):
            ctx.count("swap_bosonic_component_discriminating")
            if mixed_flag:
                ctx.count("swap_partial_tuple_discriminating")
    if fuse != "none":
        fm = G.fmask(sym, ferm if fermionic else True)
        used = [g for pr in pairs for g in pr if isinstance(g, tuple) and len(g) > 1 and not (len(g) == 2 and g[0] == "charge")]
        if any(len({odd(sym, key[l], fm) for l in g}) == 2 for g in used for key in base.blocks):
            ctx.count("swap_fused_mixed_parity_constituents")
    if len(a.blocks):
        ctx.count("swap_odd_tensor" if odd(sym, a.n, True) else "swap_even_tensor")
    if sensitive:
        ctx.count("swap_sign_sensitive")
    sig = ("swap", sym, repr(ferm), a.sig(), state, fuse, tuple(modes), form, repr(axes), repr(kwargs.get("charge")))
    ctx.case(sig, len(a.blocks) > 0, witness if (idx % 97 == 0) else None)


# ================================================================== (b) ncon / einsum with swap=

class Net:
    comp = {}            # parent edge id -> companion edge id (the two are fused into ONE leg of the yastn operands)
    groups = None        # per tensor: fuse_legs axes specification, or None
    fuse_mode = None
    shared_mode = False
    closed_mode = False


def gen_network(rng, nprng, sym, ferm, tier):
    net = Net()
    nt = rng.choice((2, 3, 3, 3, 4, 4, 4, 5, 5))
    maxlab = 5 if tier != "thorough" else rng.choice((5, 5, 5, 5, 6))
    maxrank = 4
    bonds = []
    # "shared" mode: one tensor t0 carries a partial trace on leading legs and a later surviving leg x that is named in
    # >= 2 swaps with legs of other tensors (the renumbering of swap records after a trace keeps the tensor id, so any
    # aliasing between the records of different swaps shows up here and nowhere else)
    shared = rng.random() < 0.3
    t0 = rng.randrange(nt) if shared else None
    if shared:
        bonds.append((t0, t0))
    closed = (not shared) and rng.random() < 0.1          # no open legs: rank-0 (scalar) result
    for i in range(1, nt):
        if rng.random() < 0.93:
            bonds.append((rng.randrange(i), i))
    for _ in range(rng.choice((0, 0, 1, 1, 2))):
        if rng.random() < 0.12:
            i = rng.randrange(nt)
            bonds.append((i, i))
        else:
            i, j = rng.sample(range(nt), 2)
            bonds.append((min(i, j), max(i, j)))
    deg = [0] * nt
    kept = []
    for i, j in bonds:
        need = {i: 2} if i == j else {i: 1, j: 1}
        if len(kept) < maxlab and all(deg[t] + c <= (3 if (shared and t == t0 and (i, j) != (t0, t0)) else maxrank) for t, c in need.items()):
            kept.append((i, j))
            for t, c in need.items():
                deg[t] += c
    bonds = kept
    nopen = []
    tot = 0
    for t in range(nt):
        k = rng.choice((0, 1, 1, 1, 2))
        k = max(k, 1 if deg[t] == 0 else 0)
        k = min(k, maxrank - deg[t], 5 - tot) if deg[t] else max(1, min(k, maxrank))
        k = max(k, 0)
        if shared:
            if t == t0:
                k = max(k, 4 - deg[t], 1 if rng.random() < 0.5 else 0)     # trace pair + x + at least one more surviving leg (rank 4 or 5)
                k = min(k, 5 - deg[t])
            else:
                k = max(k, 1)                                              # every other tensor offers a leg for x to cross
        if closed and deg[t]:
            k = 0
        nopen.append(k)
        tot += k
    # slots
    slots = {t: [] for t in range(nt)}       # per tensor: list of edge ids (a traced edge appears twice)
    edges = []                               # edge id -> dict(kind, ends=[(t, which)], leg)
    for i, j in bonds:
        e = len(edges)
        edges.append({"kind": "bond", "tens": (i, j)})
        slots[i].append((e, 0))
        slots[j].append((e, 1))
    for t in range(nt):
        for _ in range(nopen[t]):
            e = len(edges)
            edges.append({"kind": "open", "tens": (t,)})
            slots[t].append((e, 0))
    for t in range(nt):
        rng.shuffle(slots[t])
    ex = None
    if shared:
        # traced pair on leading positions (0,1) or (0,2), x on the last position with another surviving leg in between
        loop = [sl for sl in slots[t0] if edges[sl[0]]["tens"] == (t0, t0)][:2]
        rest = [sl for sl in slots[t0] if sl not in loop]
        ex = rest[-1][0]
        if len(rest) >= 2 and rng.random() < 0.3:
            slots[t0] = [loop[0], rest[0], loop[1]] + rest[1:]
        else:
            slots[t0] = loop + rest
    # (legs are drawn after the swaps are chosen, see below)
    # labels
    nb = len(bonds)
    pos_labels = rng.sample(range(1, 10), nb) if rng.random() < 0.5 else list(range(1, nb + 1))
    open_ids = [e for e, ed in enumerate(edges) if ed["kind"] == "open"]
    rng.shuffle(open_ids)
    label = {}
    bi = 0
    for e, ed in enumerate(edges):
        if ed["kind"] == "bond":
            label[e] = pos_labels[bi]
            bi += 1
    for o, e in enumerate(open_ids):
        label[e] = -o
    net.nt, net.edges, net.label, net.open_ids = nt, edges, label, open_ids
    net.contracted = sorted(label[e] for e, ed in enumerate(edges) if ed["kind"] == "bond")
    # swaps
    nsw = rng.choice((1, 1, 2, 2, 3) if tier != "thorough" else (1, 2, 2, 3, 3, 4))
    swaps, kinds = [], []
    ne = len(edges)
    banned = set()
    if shared:
        banned = {e for e, ed in enumerate(edges) if ed["tens"] == (t0, t0)}
        cand = [e for e, ed in enumerate(edges) if t0 not in ed["tens"]]
        rng.shuffle(cand)
        chosen, seen_t = [], set()
        for e in cand:                      # prefer partners on different tensors
            if not (set(edges[e]["tens"]) & seen_t):
                chosen.append(e)
                seen_t |= set(edges[e]["tens"])
        chosen += [e for e in cand if e not in chosen]
        for e in chosen[:rng.choice((2, 2, 3))]:
            swaps.append((ex, e) if rng.random() < 0.5 else (e, ex))
            kinds.append("shared_index_after_trace")
        if swaps and rng.random() < 0.25:   # the same pair an even number of times in total (cancels)
            swaps += [swaps[0], swaps[0]] if rng.random() < 0.5 else [swaps[-1][::-1], swaps[-1]]
            kinds += ["duplicate", "duplicate"]
        nsw = rng.choice((0, 0, 1))
    for _ in range(nsw):
        pair = None
        if ne < 2:
            break
        if rng.random() < 0.7:
            cand = [e for e, ed in enumerate(edges) if ed["kind"] == "bond" and ed["tens"][0] != ed["tens"][1]]
            rng.shuffle(cand)
            for e1 in cand:
                others = [e2 for e2, ed in enumerate(edges) if not (set(ed["tens"]) & set(edges[e1]["tens"]))]
                if others:
                    pair = (e1, rng.choice(others))
                    break
        if pair is None:
            pair = tuple(rng.sample(range(ne), 2))
        if set(pair) & banned:
            continue
        if rng.random() < 0.5:
            pair = (pair[1], pair[0])
        swaps.append(pair)
        k1, k2 = edges[pair[0]], edges[pair[1]]
        if k1["kind"] == "open" and k2["kind"] == "open":
            kinds.append("open_open")
        elif not (set(k1["tens"]) & set(k2["tens"])) and "bond" in (k1["kind"], k2["kind"]):
            kinds.append("contracted_thirdparty")
        elif k1["kind"] == "bond" and k2["kind"] == "bond":
            kinds.append("contracted_contracted_shared")
        else:
            kinds.append("contracted_open_shared" if "bond" in (k1["kind"], k2["kind"]) else "open_open")
    if swaps and rng.random() < 0.06:
        swaps.append(swaps[0])          # the same swap twice cancels
        kinds.append("duplicate")
    # fused edges: a companion edge with the same endpoints is inserted right after its parent on every endpoint; the yastn
    # operands get the two legs fused (hard or meta) into ONE leg carrying the parent's label, the oracle keeps both indices
    # (parity of the fused leg = sum of the parities of the constituents, which mix odd and even charges)
    net.comp = {}
    if rng.random() < 0.3:
        cand = [e for e, ed in enumerate(edges) if len(set(ed["tens"])) == len(ed["tens"]) and not (shared and t0 in ed["tens"])]
        rng.shuffle(cand)
        in_swaps = {e for pr in swaps for e in pr}
        cand.sort(key=lambda e: e not in in_swaps)          # prefer edges that are crossed
        for e in cand[:rng.choice((1, 1, 2))]:
            if any(len(slots[t]) > 4 for t in edges[e]["tens"]):
                continue
            c = len(edges)
            edges.append({"kind": "companion", "tens": edges[e]["tens"], "parent": e})
            for which, t in enumerate(edges[e]["tens"]):
                slots[t].insert(slots[t].index((e, which)) + 1, (c, which))
            net.comp[e] = c
        if net.comp:
            net.fuse_mode = rng.choice(("hard", "meta"))
    # legs: swapped edges get (when the symmetry allows) a sector that is odd in a fermionic component, used as witness
    swapped = {e for pr in swaps for e in pr}
    mask = G.fmask(sym, ferm) if any(G.fmask(sym, ferm)) else G.fmask(sym, True)
    small = {e for t in range(nt) if len(slots[t]) >= 5 for e, _ in slots[t]}      # rank-5 tensor: keep it below ~2000 elements
    for e, ed in enumerate(edges):
        dm = 1 if e in small else 2
        L = D.gen_leg(rng, sym, nsec=(2, 3) if rng.random() < 0.85 else (1, 2), dmax=dm)
        if e in swapped:
            for _ in range(6):
                if any(odd(sym, t, mask) for t in L.ts):
                    break
                L = D.gen_leg(rng, sym, nsec=(2, 3), dmax=dm)
        u = rng.random()
        if u < 0.08:                 # a dimension-one leg holding a single odd charge
            L = D.HLeg(sym, rng.choice((-1, 1)), [(G.canon(sym, rng.choice(odd_charges(sym, mask))), 1)])
        elif u < 0.18 and e in swapped:      # a crossed leg that holds only even charges: this crossing never gives a sign
            L = D.gen_leg(rng, sym, nsec=(1, 3), dmax=dm, box=even_box(sym))
        ed["leg"] = L
        oddts = [t for t in L.ts if odd(sym, t, mask)]
        ed["witness"] = rng.choice(oddts) if (e in swapped and oddts and rng.random() < 0.8) else rng.choice(L.ts)
    # tensors
    dt = rng.choice(("float64", "float64", "complex128"))
    net.hts, net.inds, net.slot_edges, net.groups = [], [], [], []
    empty_t = rng.randrange(nt) if rng.random() < 0.04 else None
    companions = set(net.comp.values())
    for t in range(nt):
        legs, wit = [], []
        for e, which in slots[t]:
            L = edges[e]["leg"] if which == 0 else edges[e]["leg"].conj()
            legs.append(L)
            wit.append(edges[e]["witness"])
        n = G.add(sym, wit, tuple(l.s for l in legs)) if legs else G.zero(sym)
        if rng.random() < 0.06:
            n = D.gen_n(rng, sym, legs, "any")
        h = D.gen_tensor(rng, nprng, sym, legs=legs, n=n, dtype=dt, density=rng.choice((1.0, 1.0, 1.0, 0.7)), fermionic=ferm)
        net.hts.append(h._new(blocks={}) if t == empty_t else h)
        net.inds.append(tuple(label[e] for e, _ in slots[t] if e not in companions))
        net.slot_edges.append([e for e, _ in slots[t]])
        spec = [(p_, p_ + 1) if e in net.comp else p_ for p_, (e, _) in enumerate(slots[t]) if e not in companions]
        net.groups.append(tuple(spec) if any(isinstance(g, tuple) for g in spec) else None)
    net.swap_edges, net.swap_kinds = swaps, kinds
    net.shared_mode, net.closed_mode = shared, closed
    net.swap = [(label[a], label[b]) for a, b in swaps]
    net.conjs = [0] * nt if rng.random() < 0.3 else [rng.randint(0, 1) for _ in range(nt)]
    net.out_legs = [edges[x]["leg"] for e in open_ids for x in [e] + ([net.comp[e]] if e in net.comp else [])]
    return net


def trace_shared_index(inds, swap):
    """Structure on which in-place renumbering of swap records after a TRACE is delicate: a tensor with a partial trace,
    a surviving leg of it that is named in >= 2 swaps whose other leg lives on another tensor, and - after removing the
    traced legs once - still a traced position below that leg (so renumbering the same record twice moves it again)."""
    import collections
    where = collections.defaultdict(list)
    for t, ind in enumerate(inds):
        for lab in ind:
            where[lab].append(t)
    for t, ind in enumerate(inds):
        traced = [p for p, lab in enumerate(ind) if ind.count(lab) == 2]
        if not traced:
            continue
        for p, lab in enumerate(ind):
            if p in traced:
                continue
            n = sum(1 for a, b in swap if (a == lab and t not in where[b]) or (b == lab and t not in where[a]))
            p1 = p - sum(q < p for q in traced)
            if n >= 2 and any(q < p1 for q in traced):
                return True
    return False


def net_oracle(net, sym, ferm, with_signs=True):
    """np.einsum of the dense operands with one +-1 array per requested swap (over the indices of the two swapped legs; a
    fused leg = parent + companion index, its charge the sum of the two)."""
    al = string.ascii_letters
    subs = ["".join(al[e] for e in se) for se in net.slot_edges]
    ops = [h.dense() for h in net.hts]

    def grp(e):
        return [e] + ([net.comp[e]] if e in net.comp else [])
    if with_signs:
        for a, b in net.swap_edges:
            ga, gb = grp(a), grp(b)
            ch = [index_charges(net.edges[x]["leg"]) for x in ga + gb]
            S = np.ones(tuple(len(c) for c in ch))
            for ix in np.ndindex(*S.shape):
                ta = gsum([ch[k][ix[k]] for k in range(len(ga))], range(len(ga)))
                tb = gsum([ch[len(ga) + k][ix[len(ga) + k]] for k in range(len(gb))], range(len(gb)))
                S[ix] = G.swap_sign(sym, ta, tb, ferm)
            subs.append("".join(al[x] for x in ga + gb))
            ops.append(S)
    out = "".join(al[x] for e in net.open_ids for x in grp(e))
    return np.einsum(",".join(subs) + "->" + out, *ops, optimize=True)


def _gf2_solve(rows, rhs):
    """Solve a linear system over GF(2); rows = coefficient bitmasks.  Returns a solution bitmask or None."""
    piv = []
    for r, b in zip(rows, rhs):
        for pr, pb, pbit in piv:
            if r >> pbit & 1:
                r ^= pr
                b ^= pb
        if r == 0:
            if b:
                return None
            continue
        piv.append((r, b, r.bit_length() - 1))
    sol = 0
    for r, b, pbit in reversed(piv):
        if b ^ (bin((r & ~(1 << pbit)) & sol).count("1") & 1):
            sol |= 1 << pbit
    return sol


def classify_order(inds, swap, order):
    """Is the requested set of swaps expressible by swap gates on single tensors when the network is contracted pairwise
    in this order?  Pure GF(2) algebra on the network structure (independent of yastn's jump-move scheduler):

    the sign exponent is a quadratic form  E = sum_{swaps} p(a) p(b)  in the parities of the edges, known modulo the
    charge constraint of every (merged) tensor  sum_{legs} p = const.  Terms with both edges on one tensor, and terms
    linear in an edge (constant = parity of a tensor charge, the ``parity_sign`` command) can be applied directly.
    When the group G of bonds between tensors c1, c2 is summed, every remaining term g*y (g in G, y on neither
    tensor) must be removable by adding multiples of constraints: (constraint of c1)*y toggles {g*y : g in G} (not
    available for a trace, where every g occurs twice), (constraint of a third tensor c3)*g toggles {g*y : y leg of c3
    not touching c1, c2}.  If the linear system has no solution the parity of a summed index would be needed after the
    contraction: no schedule of swap gates exists for this order ("unresolvable").

    Returns (events, hard): events in step order: [] (fine), 'inefficient' (trace after a tensordot: documented rejection),
    'unresolvable:multi-bond', 'unresolvable:traced-leg'; evaluation stops at the first unresolvable / inefficient step.
    hard = kinds of steps ('multi' = several bonds summed at once, 'trace') at which a swap with a third tensor was pending."""
    import collections
    ends = collections.defaultdict(list)
    for t, ind in enumerate(inds):
        for lab in ind:
            ends[lab].append(t)
    parent = list(range(len(inds)))

    def find(a):
        while parent[a] != a:
            parent[a] = parent[parent[a]]
            a = parent[a]
        return a

    def cl(lab):
        return {find(t) for t in ends[lab]}

    E = set()
    for x, y in swap:
        if x != y:
            E ^= {frozenset((x, y))}
    alive = set(ends)
    pos, dot_done, events, hard = 0, False, [], set()
    while pos < len(order):
        c1, c2 = find(ends[order[pos]][0]), find(ends[order[pos]][1])
        group = [order[pos]]
        while pos + len(group) < len(order):
            nx = order[pos + len(group)]
            if sorted((find(ends[nx][0]), find(ends[nx][1]))) != sorted((c1, c2)):
                break
            group.append(nx)
        pos += len(group)
        E = {k for k in E if not set.intersection(*[cl(l) for l in k])}       # both edges on one tensor: applied now
        Gs = set(group)
        if c1 == c2 and dot_done:
            events.append("inefficient")
        bad = {k for k in E if k & Gs}
        if bad:
            if c1 == c2:
                hard.add("trace")
            elif len(group) > 1:
                hard.add("multi")
            Y = [y for y in alive if y not in Gs and not (cl(y) & {c1, c2})]
            third = sorted({c for y in Y for c in cl(y)})
            unk = {}
            if c1 != c2:
                for y in Y:
                    unk[("a", y)] = len(unk)
            for g in group:
                for c3 in third:
                    unk[("b", g, c3)] = len(unk)
            rows, rhs = [], []
            for g in group:
                for y in Y:
                    r = (1 << unk[("a", y)]) if c1 != c2 else 0
                    for c3 in third:
                        if [find(t) for t in ends[y]].count(c3) == 1:
                            r |= 1 << unk[("b", g, c3)]
                    rows.append(r)
                    rhs.append(1 if frozenset((g, y)) in E else 0)
            sol = _gf2_solve(rows, rhs)
            if sol is None:
                events.append("unresolvable:traced-leg" if c1 == c2 else "unresolvable:multi-bond")
                return events, sorted(hard)
            E -= bad
            if c1 != c2:
                others = [l for l in alive if l not in Gs and [find(t) for t in ends[l]].count(c1) == 1]
                for y in Y:
                    if sol >> unk[("a", y)] & 1:
                        for l in others:
                            if l != y:
                                E ^= {frozenset((l, y))}
        if events:
            return events, sorted(hard)
        alive -= Gs
        if c1 != c2:
            parent[c2] = c1
            dot_done = True
    return events, sorted(hard)


def analyse_commands(cmds, net, sym, ferm):
    """Counters from the command list _meta_ncon returned for the executed call."""
    n = {i: h.n for i, h in enumerate(net.hts)}
    out = {"parity_sign": 0, "parity_sign_odd": 0, "parity_sign_zero_charge": 0, "parity_sign_even_nonzero_charge": 0,
           "jump_step1": 0, "jump_step2": 0, "swap_gate": 0, "trace": 0}
    pending = []
    for c in cmds:
        if c[0] == "tensordot":
            tout, (t1, t2), _ = c[1:]
            for j in pending:
                out["jump_step2" if j in (t1, t2) else "jump_step1"] += 1
            pending = []
            n[tout] = G.add(sym, (n[t1], n[t2]))
        elif c[0] == "trace":
            out["trace"] += 1
            for j in pending:
                out["jump_step2" if j == c[2] else "jump_step1"] += 1
            pending = []
            n[c[1]] = n[c[2]]
        elif c[0] == "parity_sign":
            out["parity_sign"] += 1
            pending.append(c[1])
            if c[1] in n and odd(sym, n[c[1]], ferm):
                out["parity_sign_odd"] += 1
            elif c[1] in n:
                out["parity_sign_zero_charge" if not any(n[c[1]]) else "parity_sign_even_nonzero_charge"] += 1
        elif c[0] == "swap_gate":
            out["swap_gate"] += 1
            n[c[1]] = n[c[2]]
        else:
            n[c[1]] = n[c[2]]
    return out


def compare_net(ctx, key, what, r, expected, net, nexp, tol, witness):
    import yastn
    legs = net.out_legs
    if not isinstance(r, yastn.Tensor) or r.ndim != len(net.open_ids):
        ctx.violation("result-rank:" + key, f"{what}: result is not a rank-{len(net.open_ids)} tensor", witness)
        return False
    if len(legs) != len(net.open_ids):         # fused open legs: compare after unfusing
        r = unfuse_all(r)
        if r.ndim != len(legs):
            ctx.violation("result-rank:" + key, f"{what}: unfused result is not a rank-{len(legs)} tensor", witness)
            return False
    if tuple(r.n) != tuple(nexp):
        ctx.violation("result-charge:" + key, f"{what}: total charge {r.n} expected {tuple(nexp)}", witness)
        return False
    if tuple(r.get_signature()) != tuple(l.s for l in legs):
        ctx.violation("result-legs:" + key, f"{what}: signature {r.get_signature()} expected {tuple(l.s for l in legs)}", witness)
        return False
    for i, (yl, hl) in enumerate(zip(r.get_legs(), legs)):
        bad = D.sub_leg_ok(yl, hl)
        if bad:
            ctx.violation("result-legs:" + key, f"{what}: leg {i}: {bad}", witness)
            return False
    got = D.obs_dense(r, legs)
    if got.shape != expected.shape:
        ctx.violation("result-shape:" + key, f"{what}: dense shape {got.shape} expected {expected.shape}", witness)
        return False
    err = float(np.max(np.abs(got - expected))) if expected.size else 0.0
    if not ctx.margin("arith:ncon-swap", err, tol):
        ctx.violation("value:" + key, f"{what}: dense result differs from einsum-with-parity-signs by {err:.3e} (allowed {tol:.3e}; "
                                      f"max|ref| = {float(np.max(np.abs(expected))) if expected.size else 0:.3e})", witness)
        return False
    return True


def ncon_case(ctx, idx, k):
    import yastn
    from yastn.tensor import _einsum
    rng, nprng = ctx.rng(idx), ctx.nprng(idx)
    vr = ctx.rng(idx, "call-variants")          # how the arguments of each call are written down
    sym, ferm = NCON_CONFIGS[k % len(NCON_CONFIGS)]
    fermionic = any(G.fmask(sym, ferm))
    cfg = D.make_cfg(sym, ferm, tensordot_policy=rng.choice(POLICIES))
    net = gen_network(rng, nprng, sym, ferm, ctx.tier)
    if not net.swap:
        raise CaseSkip
    expected = net_oracle(net, sym, ferm)
    plain = net_oracle(net, sym, ferm, with_signs=False)
    scale = 1.0
    for h in net.hts:
        scale *= max(c01.fnorm(h.dense()), 1e-300)
    tol = TOL_NET * scale + 1e-300
    sensitive = bool(np.max(np.abs(expected - plain)) > 1e3 * tol) if expected.size else False
    nonzero = bool(np.any(np.abs(expected) > 1e3 * tol)) if expected.size else False
    nexp = G.add(sym, [h.n for h in net.hts])
    users = [h.conj() if c else h for h, c in zip(net.hts, net.conjs)]
    states, ys = [], []
    for t, u in enumerate(users):
        y, st = c01.realize(u, rng, cfg, rng.choice(STATES))
        if net.groups[t] is not None:           # fused legs (hard / meta) on the operand, possibly on top of a lazy transpose
            y = y.fuse_legs(axes=net.groups[t], mode=net.fuse_mode)
        ys.append(y)
        states.append(st)
    noconj = not any(net.conjs)
    m = len(net.contracted)
    perms = list(itertools.permutations(net.contracted))
    sampled = len(perms) > 120
    if sampled:
        perms = rng.sample(perms, 120)
    al = string.ascii_letters
    all_labels = list(net.contracted) + [-o for o in range(len(net.open_ids))]
    base_w = {"sym": sym, "fermionic": ferm, "inds": net.inds, "conjs": net.conjs, "swap": net.swap, "swap_kinds": net.swap_kinds,
              "lazy": states, "fused": {"mode": net.fuse_mode, "groups": net.groups} if net.comp else None,
              "tensors": [u.desc(values=sum(x.size() for x in users) <= 96) for u in users]}

    def issue(via, order, sv, with_conjs=True, with_swap=True):
        """One call; returns (result, key of the command list that _meta_ncon was asked for)."""
        kw = {}
        if with_conjs:
            kw["conjs"] = net.conjs if vr.random() < 0.5 else tuple(net.conjs)
        if via == "order":
            if with_swap:
                kw["swap"] = [tuple(x) if vr.random() < 0.5 else list(x) for x in sv] if vr.random() < 0.7 else tuple(tuple(x) for x in sv)
            if order is not None:
                kw["order"] = list(order) if vr.random() < 0.5 else tuple(order)
            r = yastn.ncon(ys, net.inds, **kw)
            return r, (tuple(tuple(x) for x in net.inds), None if order is None else tuple(order), tuple(tuple(x) for x in sv) if with_swap else ())
        ren = {o: j for j, o in enumerate(order, start=1)}
        inds = [tuple(ren.get(x, x) if x > 0 else x for x in ind) for ind in net.inds]
        swp = [tuple(ren.get(x, x) if x > 0 else x for x in x2) for x2 in sv]
        if via == "relabel":                 # default order = ascending labels
            if with_swap:
                kw["swap"] = swp
            r = yastn.ncon(ys, inds, **kw)
        else:
            let = {lab: al[26 + j] for j, lab in enumerate(net.contracted)}      # contracted: upper case A, B, ...
            let.update({-o: al[o] for o in range(len(net.open_ids))})           # open: lower case a, b, ...
            sub = ",".join(("*" if c else "") + "".join(let[x] for x in ind) for c, ind in zip(net.conjs, net.inds))
            sub += "->" + "".join(al[o] for o in range(len(net.open_ids)))
            kw = {"order": "".join(let[x] for x in order)}
            if with_swap:
                kw["swap"] = ",".join(let[a_] + let[b_] for a_, b_ in sv)
            r = yastn.einsum(sub, *ys, **kw)       # einsum numbers the contracted letters by their position in order
        return r, (tuple(inds), None, tuple(swp) if with_swap else ())

    accepted = 0
    first_accepted = None
    agg = {"parity_sign": 0, "parity_sign_odd": 0, "parity_sign_zero_charge": 0, "parity_sign_even_nonzero_charge": 0,
           "jump_step1": 0, "jump_step2": 0, "swap_gate": 0, "trace": 0}
    resolve_orders = 0
    reach().start_case()
    for pi, perm in enumerate(perms):
        via = ("order", "order", "einsum", "order", "relabel", "order")[(pi + idx) % 6]
        order = list(perm)
        # the same set of crossings written differently: pairs in another order, (j, i) for (i, j), and a crossing that is
        # listed twice (= identity) added at random places
        sv = [tuple(x) for x in net.swap]
        variant = []
        if vr.random() < 0.6:
            vr.shuffle(sv)
            variant.append("shuffled")
        if vr.random() < 0.6:
            sv = [x[::-1] if vr.random() < 0.5 else x for x in sv]
            variant.append("flipped")
        if len(all_labels) >= 2 and vr.random() < 0.25:
            x1, x2 = vr.sample(all_labels, 2)
            for pr in ((x1, x2), (x2, x1) if vr.random() < 0.5 else (x1, x2)):
                sv.insert(vr.randrange(len(sv) + 1), pr)
            variant.append("doubled")
        for v_ in variant:
            ctx.count("ncon_swap_arg:" + v_)
        events, hard = classify_order(net.inds, sv, order)
        unres = next((e for e in events if e.startswith("unresolvable")), None)
        oclass = unres or ("inefficient" if events else "resolvable")
        ctx.count("ncon_order_class:" + oclass)
        omit_conjs = noconj and via != "einsum" and vr.random() < 0.5
        try:
            r, probe = issue(via, order, sv, with_conjs=not omit_conjs)
        except Exception as e:
            if yerr(e) and "inefficient order" in str(e):
                # the one documented rejection of a well-formed network (traces after a tensordot / interleaved bonds)
                ctx.count("ncon_orders_rejected_inefficient")
                if oclass == "resolvable":
                    ctx.count("ncon_inefficient_not_predicted")
                continue
            if yerr(e) and unres:
                # no pairwise schedule in this order can realise the swap: a YastnError is a legitimate rejection
                ctx.count("ncon_orders_rejected_unresolvable")
                continue
            w = dict(base_w, order=order, via=via, swap_as_passed=sv, order_class=oclass, error=repr(e)[:300])
            if unres:
                key = "exception:ncon-swap:" + unres.replace("unresolvable:", "unresolvable-order:")
            elif oclass == "inefficient":       # an order the library rejects anyway, but not with the documented error
                key = "exception:ncon-swap:inefficient-order"
            elif "trace" in hard:               # stale swap left behind by the trace step: the exception type is incidental
                key = "exception:ncon-swap:resolvable-order:pending-swap-at-trace"
            else:
                key = "exception:ncon-swap:resolvable-order:" + type(e).__name__
            ctx.count("ncon_orders_raised:" + oclass)
            ctx.violation(key, f"{via}(inds={net.inds}, order={order}, swap={sv}) raised {type(e).__name__}: {e} "
                               f"[order class by GF(2) analysis: {oclass}]", w)
            continue
        accepted += 1
        if first_accepted is None:
            first_accepted = order
        ctx.count("ncon_via:" + via)
        ctx.count("ncon_orders_returned:" + oclass)
        if omit_conjs:
            ctx.count("ncon_conjs_omitted_calls")
        cm = None
        try:
            cm = analyse_commands(_einsum._meta_ncon(*probe), net, sym, ferm)
        except Exception:
            ctx.count("ncon_command_probe_failed")
        if cm:
            for kk, v in cm.items():
                agg[kk] += v
            if cm["parity_sign"]:
                resolve_orders += 1
        mech = "direct"
        if cm and cm["parity_sign"]:
            mech = "jump" + ("-odd" if cm["parity_sign_odd"] else "")
        if cm and cm["trace"]:
            mech += "+trace"
        if unres:       # one key per mechanism: a value returned although no schedule of swap gates exists for this order
            key = "ncon-swap:" + unres.replace("unresolvable:", "unresolvable-order:")
        elif "trace" in hard:       # a swap with a leg of another tensor was pending when a trace was taken
            key = "ncon-swap:pending-swap-at-trace"
        else:
            key = "ncon-swap:" + mech + (":bosonic" if not fermionic else "") + (":" + oclass if oclass != "resolvable" else "")
        what = (f"{via}(inds={net.inds}, conjs={'omitted' if omit_conjs else net.conjs}, order={order}, swap={sv}) "
                f"[{sym} fermionic={ferm}; order class {oclass}{'; fused ' + net.fuse_mode if net.comp else ''}]")
        if not compare_net(ctx, key, what, r, expected, net, nexp, tol,
                           dict(base_w, order=order, via=via, swap_as_passed=sv, order_class=oclass, commands_summary=cm)):
            ctx.count("ncon_orders_mismatch:" + oclass + (":pending-swap-at-trace" if (not unres and "trace" in hard) else ""))
    # ---- defaults and falsy arguments: no swap given (omitted / [] / () / einsum default) = no signs at all;
    #      everything left at its default (ascending order, no conjs) when the network allows it
    defaults = []
    if first_accepted is not None:
        defaults += [("swap-omitted", "order", first_accepted, None), ("swap-empty-list", "order", first_accepted, []),
                     ("swap-empty-tuple", "relabel", first_accepted, ()), ("einsum-swap-omitted", "einsum", first_accepted, None)]
    defaults.append(("all-defaults", "order", None, None))
    for name, via, order, sv in defaults:
        oc = order if order is not None else sorted(net.contracted)
        ineff = bool(classify_order(net.inds, (), oc)[0])
        try:
            r, _ = issue(via, order, sv if sv is not None else [], with_conjs=not (noconj and name in ("all-defaults", "swap-omitted")),
                         with_swap=sv is not None)
        except Exception as e:
            if yerr(e) and "inefficient order" in str(e) and ineff:
                ctx.count("ncon_default_calls_rejected_inefficient")
                continue
            ctx.violation(f"exception:ncon-no-swap:{name}:{type(e).__name__}", f"{name}: {via}(inds={net.inds}, order={order}) without crossings raised "
                                                                            f"{type(e).__name__}: {e}", dict(base_w, order=order, via=via))
            continue
        ctx.count("ncon_default_calls")
        ctx.count("ncon_default:" + name)
        compare_net(ctx, "ncon-no-swap:" + name, f"{name}: {via}(inds={net.inds}, conjs={net.conjs}, order={order}) [{sym} fermionic={ferm}]",
                    r, plain, net, nexp, tol, dict(base_w, order=order, via=via, variant=name))
    reach().end_case(ctx)
    ctx.count("ncon_networks")
    ctx.count("ncon_orders_accepted", accepted)
    ctx.count("ncon_cmd:resolve_bad_swaps_orders", resolve_orders)
    for kk, v in agg.items():
        ctx.count("ncon_cmd:" + kk, v)
    for kd in net.swap_kinds:
        ctx.count("ncon_swap_" + kd)
    ctx.count("ncon_tensors:%d" % net.nt)
    ctx.count("ncon_labels:%d" % m)
    if sampled:
        ctx.count("ncon_orders_sampled_networks")
    if net.shared_mode:
        ctx.count("ncon_shared_mode_networks")
    if trace_shared_index(net.inds, net.swap):
        ctx.count("ncon_trace_shared_index_networks")
        if accepted and sensitive:
            ctx.count("ncon_trace_shared_index_decided")      # some order returned a value and the signs matter
    if len({frozenset(sw) for sw in net.swap}) < len(net.swap):
        ctx.count("ncon_repeated_swap_networks")
    if sensitive:
        ctx.count("ncon_sign_sensitive_networks")
    if nonzero:
        ctx.count("ncon_nonzero_networks")
    if any(odd(sym, h.n, ferm) for h in net.hts):
        ctx.count("ncon_odd_tensor_networks")
    if any(st != "plain" for st in states):
        ctx.count("ncon_lazy_networks")
    if not fermionic:
        ctx.count("ncon_bosonic_networks")
    # falsy structure / partial flags / fused operands
    if not net.open_ids and accepted:
        ctx.count("ncon_scalar_results")
        if sensitive:
            ctx.count("ncon_scalar_results_sign_sensitive")
    if any(not h.blocks for h in net.hts):
        ctx.count("ncon_empty_operand_networks")
    sw_edges = {e for pr in net.swap_edges for e in pr}
    if any(net.edges[e]["leg"].dim == 1 and odd(sym, net.edges[e]["leg"].ts[0], True) for e in sw_edges):
        ctx.count("ncon_dim1_odd_crossed_leg_networks")
    if any(not any(odd(sym, t, True) for t in net.edges[e]["leg"].ts) for e in sw_edges):
        ctx.count("ncon_even_only_crossed_leg_networks")
    if fermionic and not all(G.fmask(sym, ferm)) and expected.size and np.max(np.abs(expected - net_oracle(net, sym, True))) > 1e3 * tol:
        ctx.count("ncon_partial_tuple_discriminating")       # reading the bosonic component as fermionic would change the value
    if noconj:
        ctx.count("ncon_no_conj_networks")
    if net.comp:
        ctx.count("ncon_fused_networks")
        ctx.count("ncon_fused:" + net.fuse_mode)
        if accepted:
            ctx.count("ncon_fused_networks_decided")
        if sw_edges & set(net.comp):
            ctx.count("ncon_fused_crossed_leg_networks")
            if accepted and sensitive:
                ctx.count("ncon_fused_crossed_leg_decided")
        if any(e in net.comp for e in net.open_ids):
            ctx.count("ncon_fused_open_leg_networks")
        fm = G.fmask(sym, ferm if fermionic else True)
        if any(len({odd(sym, t, fm) for x in (e, c_) for t in net.edges[x]["leg"].ts}) == 2 for e, c_ in net.comp.items()):
            ctx.count("ncon_fused_mixed_parity_constituents")
        if any(st == "lazy" and net.groups[t] is not None for t, st in enumerate(states)):
            ctx.count("ncon_fused_on_lazy_operand")
    sig = ("ncon", sym, repr(ferm), tuple(h.sig() for h in net.hts), tuple(net.inds), tuple(net.conjs), tuple(net.swap), tuple(states),
           net.fuse_mode, repr(net.groups))
    ctx.case(sig, nonzero and accepted > 0,
             dict(base_w, orders_accepted=accepted, commands=agg) if idx % 89 == 1 else None)


# ================================================================== (c) fkron

class Fam:
    """One predefined operator class: yastn operators + dense local matrices / charges read through to_numpy."""
    _cache = {}

    def __init__(self, i):
        import yastn
        cls, sym, kw = PREDEF[i]
        self.cls, self.symarg = cls, sym
        self.ops = getattr(yastn.operators, cls)(sym=sym, **kw)
        self.cfg = self.ops.config
        self.sym = G.sym_name(self.cfg.sym)
        self.fer = self.cfg.fermionic
        self.fermionic = any(G.fmask(self.sym, self.fer))
        self.space = self.ops.space()
        self.charges = jw.state_charges(self.space)
        self.d = len(self.charges)
        self.tag = cls + ":" + sym + "".join(f":{k}={v}" for k, v in sorted(kw.items()))
        self.named = {}
        for name in NAMES[cls]:
            if cls.startswith("Spinful") and name[-1] in "ud" and name[:-1] in ("n", "c", "cp"):
                self.named[name] = getattr(self.ops, name[:-1])(name[-1])
            else:
                self.named[name] = getattr(self.ops, name)()
        self.loc = {k: jw.local(v, self.space) for k, v in self.named.items()}
        zero = G.zero(self.sym)
        self.charged = [k for k in self.named if self.loc[k][1] != zero]
        self.weighted = self.charged * 3 + [k for k in self.named if k not in self.charged]
        # species for the CAR table: (annihilator name, creator name)
        if cls == "SpinlessFermions":
            self.species = [("c", "cp")]
        elif cls.startswith("Spinful"):
            self.species = [("cu", "cpu"), ("cd", "cpd")]
        else:
            self.species = []
        self.distinguishable = cls.startswith("Spinful") and self.sym == "U1xU1"

    @classmethod
    def get(cls, i):
        if i not in cls._cache:
            cls._cache[i] = Fam(i)
        return cls._cache[i]


def fkron_compare(ctx, key, what, res, exp, legs, nexp, sym, tol, witness):
    """legs: yastn space Leg per site.  Returns the dense matrix (or None)."""
    import yastn
    N = len(legs)
    if not isinstance(res, yastn.Tensor) or res.ndim != 2 * N:
        ctx.violation("result-rank:" + key, f"{what}: result is not a rank-{2 * N} tensor", witness)
        return None
    if tuple(res.n) != tuple(nexp):
        ctx.violation("result-charge:" + key, f"{what}: total charge {res.n} expected {tuple(nexp)}", witness)
    if tuple(res.get_signature()) != (1, -1) * N:
        ctx.violation("result-legs:" + key, f"{what}: signature {res.get_signature()}", witness)
        return None
    for i, yl in enumerate(res.get_legs()):
        sp = legs[i // 2]
        allowed = dict(zip((tuple(t) for t in sp.t), sp.D))
        for t, Dt in zip(yl.t, yl.D):
            if allowed.get(tuple(t)) != Dt:
                ctx.violation("result-legs:" + key, f"{what}: leg {i} has sector {t}:{Dt} not in the space of site {i // 2}", witness)
                return None
    got = jw.tensor_matrix(res, legs)
    if got.shape != exp.shape:
        ctx.violation("result-shape:" + key, f"{what}: dense shape {got.shape} expected {exp.shape}", witness)
        return None
    err = float(np.max(np.abs(got - exp))) if exp.size else 0.0
    if not ctx.margin("arith:fkron", err, tol):
        w = dict(witness or {})
        w.update({"got": got, "expected": exp})
        rel = "equals MINUS the reference" if np.max(np.abs(got + exp)) <= tol else "differs from the reference"
        ctx.violation("value:" + key, f"{what}: dense matrix {rel} (Jordan-Wigner product in application order), err {err:.3e}", w)
    return got


def enumerate_fkron(ctx, key, tag, ylist, locs, op_legs, op_spaces, sym, ferm, names, witness):
    """All site permutations x application orders (default + all permutations) of the given operators.

    operators[j] lives on sites[j].  Default application order: the last listed operator is applied first, i.e. the
    operator is the product as written, O_0 O_1 ... O_{m-1}.  application_order = (a0, a1, ...) applies operator a0 first
    and the last entry last, i.e. the written product is O_{a[-1]} ... O_{a1} O_{a0}."""
    import yastn
    m = len(ylist)
    nexp = G.add(sym, [n for _, n in locs])
    tol = 64 * EPS * float(np.prod([max(1.0, float(np.max(np.abs(mat))) if mat.size else 1.0) for mat, _ in locs]))
    values = set()
    sens = 0
    for sites in itertools.permutations(range(m)):
        spaces, legs = [None] * m, [None] * m
        for j, st in enumerate(sites):            # operator j (with its own local space) lives on site sites[j]
            spaces[st], legs[st] = op_spaces[j], op_legs[j]
        model, bos_model = jw.Model(spaces, sym, ferm), jw.Model(spaces, sym, False)
        for ao in [None] + list(itertools.permutations(range(m))):
            written = list(range(m)) if ao is None else list(ao)[::-1]
            factors = [(locs[j][0], locs[j][1], sites[j]) for j in written]
            exp = model.product(factors)
            kw = {}
            if not (ao is None and sites == tuple(range(m))):         # the documented defaults are used once per case
                kw["sites"] = sites if sum(sites[:2]) % 2 else list(sites)
            if ao is not None:
                kw["application_order"] = ao if ao[0] % 2 else list(ao)
            what = f"fkron({', '.join(names)}{''.join(f', {a}={b}' for a, b in kw.items())}) [{tag}]"
            res = yastn.fkron(*ylist, **kw)
            ctx.count("fkron_calls")
            fkron_compare(ctx, key, what, res, exp, legs, nexp, sym, tol, dict(witness, sites=sites, application_order=ao))
            if np.max(np.abs(exp - bos_model.product(factors))) > tol:
                sens += 1
            values.add((np.round(exp, 9) + 0.0).tobytes())
    ctx.count("fkron_sign_sensitive", sens)
    return sens, len(values)


def fkron_ops_case(ctx, idx, fi):
    rng = ctx.rng(idx)
    F = Fam.get(fi)
    m = rng.choice((2, 2, 3, 3, 3))
    names = [rng.choice(F.weighted) for _ in range(m)]
    ylist = [F.named[nm] for nm in names]
    locs = [F.loc[nm] for nm in names]
    witness = {"family": F.tag, "operators": names}
    reach().start_case()
    sens, nvals = enumerate_fkron(ctx, "fkron:" + ("fermionic" if F.fermionic else "bosonic"), F.tag, ylist, locs, [F.space] * m,
                                  [F.charges] * m, F.sym, F.fer, names, witness)
    reach().end_case(ctx)
    ctx.count("fkron_fermionic_cases" if F.fermionic else "fkron_bosonic_cases")
    ctx.count("fkron_family:" + F.tag)
    if nvals > 1:
        ctx.count("fkron_order_sensitive_cases")
    if not F.fermionic and sens:
        raise AssertionError("harness: bosonic family produced a sign-sensitive reference")
    nonzero = all(np.any(mat) for mat, _ in locs)
    ctx.case(("fkron", F.tag, tuple(names)), nonzero, dict(witness, sign_sensitive_calls=sens, distinct_reference_matrices=nvals) if idx % 61 == 3 else None)


def fkron_random_case(ctx, idx, k):
    """Random harness operators (own space per site, arbitrary charge) under every fermionic flag."""
    rng, nprng = ctx.rng(idx), ctx.nprng(idx)
    sym, ferm = rng.choice(FERMIONIC_CONFIGS) if rng.random() < 0.8 else rng.choice(CONFIGS)
    cfg = D.make_cfg(sym, ferm)
    m = rng.choice((2, 3, 3))
    hts = []
    for _ in range(m):
        L = D.gen_leg(rng, sym, s=1, nsec=(2, 3), dmax=2)
        want_odd = rng.random() < 0.7
        n = D.gen_n(rng, sym, [L, L.conj()], "fit")
        for _ in range(10):
            if odd(sym, n, True) == want_odd:
                break
            n = D.gen_n(rng, sym, [L, L.conj()], "fit")
        hts.append(D.gen_tensor(rng, nprng, sym, legs=[L, L.conj()], n=n, dtype=rng.choice(("float64", "complex128")), density=1.0, fermionic=ferm))
    ylist = [c01.realize(h, rng, cfg, rng.choice(("plain", "lazy", "consumed")))[0] for h in hts]
    locs = [(h.dense(), h.n) for h in hts]
    spaces = [index_charges(h.legs[0]) for h in hts]
    legs = [h.legs[0].to_yastn() for h in hts]
    names = [f"R{j}{list(h.n)}" for j, h in enumerate(hts)]
    tag = f"random:{sym}:fermionic={ferm}"
    witness = {"family": tag, "operators": [h.desc(values=True) for h in hts]}
    reach().start_case()
    sens, nvals = enumerate_fkron(ctx, "fkron:random", tag, ylist, locs, legs, spaces, sym, ferm, names, witness)
    reach().end_case(ctx)
    ctx.count("fkron_random_cases")
    ctx.count("fkron_random_flag:" + flag_class(sym, ferm))
    if nvals > 1:
        ctx.count("fkron_order_sensitive_cases")
    ctx.case(("fkron-random", sym, repr(ferm), tuple(h.sig() for h in hts)), all(len(h.blocks) for h in hts),
             {"family": tag, "charges": [list(h.n) for h in hts], "sign_sensitive_calls": sens} if idx % 67 == 5 else None)


def car_case(ctx, idx, fi):
    """(Anti)commutation relations between fkron-built site operators on N = 2, 3 sites."""
    import yastn
    rng = ctx.rng(idx)
    F = Fam.get(fi)
    if not F.species:
        raise CaseSkip
    N = rng.choice((2, 3))
    I = F.named["I"]
    model = jw.Model([F.charges] * N, F.sym, F.fer)
    dim = model.dim
    tol = 1e-13
    tj = F.cls.endswith("_tJ")
    witness = {"family": F.tag, "N": N}
    reach().start_case()

    def site_op(name, i):
        """dense fkron(I, .., op at position i, .., I), listing the operators in site order or permuted with sites="""
        opsl = [I] * N
        opsl[i] = F.named[name]
        if rng.random() < 0.5:
            res = yastn.fkron(*opsl)
        else:
            p = list(range(N))
            rng.shuffle(p)
            res = yastn.fkron(*[opsl[s] for s in p], sites=p)
        ctx.count("fkron_calls")
        fac = [(F.loc[name][0], F.loc[name][1], i)]
        return fkron_compare(ctx, "fkron:single-site", f"fkron(I.., {name}@{i}, ..I) [{F.tag}]", res, model.product(fac), [F.space] * N,
                             F.loc[name][1], F.sym, 16 * EPS, dict(witness, op=name, site=i))

    mats = {}
    for (cn, cpn) in F.species:
        for i in range(N):
            mats[(cn, i)] = site_op(cn, i)
            mats[(cpn, i)] = site_op(cpn, i)
    if any(v is None for v in mats.values()):
        reach().end_case(ctx)
        ctx.case(("car", F.tag, N), False)
        return
    nrel = 0
    for (s1, (c1, cp1)), (s2, (c2, cp2)) in itertools.product(enumerate(F.species), repeat=2):
        # documented convention of SpinfulFermions('U1xU1'): the two species are distinguishable and commute
        commute = F.distinguishable and s1 != s2
        sgn = -1.0 if commute else 1.0
        name = "commutator" if commute else "anticommutator"
        # on-site algebra the relations between sites are built on: {c_s, c_s'} = 0, {c_s, c_s'^+} = delta_ss'
        # (tJ: projected space, {c_s, c_s^+} = 1 - n_other; different species on one site are not canonical there)
        la = F.loc[c1][0]
        for lab, bn in (("c,c", c2), ("c,c+", cp2)):
            lb = F.loc[bn][0]
            lrel = la @ lb + sgn * lb @ la
            if lab == "c,c":
                ltgt = np.zeros((F.d, F.d))
            elif s1 != s2:
                ltgt = None if tj else np.zeros((F.d, F.d))
            else:
                ltgt = np.eye(F.d) - (F.loc["nd" if c1 == "cu" else "nu"][0] if tj else 0.0)
            if ltgt is not None:
                nrel += 1
                if not ctx.margin("arith:car", float(np.max(np.abs(lrel - ltgt))), tol):
                    ctx.violation(f"car:on-site-algebra:{lab}", f"on-site {name} of {c1} and {bn} is not canonical [{F.tag}]",
                                  dict(witness, species=(c1, bn), got=lrel))
        for i, j in itertools.product(range(N), repeat=2):
            for lab, bn in (("c,c", c2), ("c,c+", cp2)):
                A, B = mats[(c1, i)], mats[(bn, j)]
                rel = A @ B + sgn * B @ A
                if i != j:
                    tgt = np.zeros((dim, dim))          # {c_i, c_j} = 0 = {c_i, c_j^+}   (commutators for distinguishable species)
                else:                                   # same site: the on-site relation, carried to the N-site space
                    lb, nb = F.loc[bn]
                    tgt = model.embed(la @ lb + sgn * lb @ la, G.add(F.sym, (F.loc[c1][1], nb)), i)
                nrel += 1
                if commute:
                    ctx.count("car_commuting_species_relations")
                err = float(np.max(np.abs(rel - tgt)))
                if not ctx.margin("arith:car", err, tol):
                    where = "same-site" if i == j else ("i<j" if i < j else "i>j")
                    ctx.violation(f"car:{name}:{lab}:{where}", f"{name} of {c1}@{i} and {bn}@{j} built with fkron on {N} sites differs from "
                                                               f"{'0' if i != j else 'the on-site relation'} by {err:.2e} [{F.tag}]",
                                  dict(witness, i=i, j=j, species=(c1, bn), relation=lab))
        # direct two-operator form (written products): fkron(c, c+, sites=(i, j)) + fkron(c+, c, sites=(j, i)) = 0 for i != j
        for i, j in itertools.permutations(range(N), 2):
            rest = [s for s in range(N) if s not in (i, j)]
            x = yastn.fkron(F.named[c1], F.named[cp2], *[I] * len(rest), sites=[i, j] + rest)
            y = yastn.fkron(F.named[cp2], F.named[c1], *[I] * len(rest), sites=[j, i] + rest)
            ctx.count("fkron_calls", 2)
            X, Y = jw.tensor_matrix(x, [F.space] * N), jw.tensor_matrix(y, [F.space] * N)
            nrel += 1
            if commute:
                ctx.count("car_commuting_species_relations")
            if np.any(X):
                ctx.count("car_two_operator_nonzero")
            err = float(np.max(np.abs(X + sgn * Y)))
            if not ctx.margin("arith:car", err, tol):
                ctx.violation("car:two-operator-form:" + name,
                              f"fkron({c1},{cp2},sites=({i},{j})) {'-' if commute else '+'} fkron({cp2},{c1},sites=({j},{i})) != 0 "
                              f"(err {err:.2e}) [{F.tag}]", dict(witness, i=i, j=j, species=(c1, cp2)))
    reach().end_case(ctx)
    ctx.count("car_relations", nrel)
    ctx.count("car_cases")
    ctx.count("car_family:" + F.tag)
    ctx.case(("car", F.tag, N), True, {"kind": "car", "family": F.tag, "N": N, "relations": nrel} if idx % 53 == 7 else None)


# ================================================================== driver

def run_case(ctx, idx):
    kind = KINDS[idx % len(KINDS)]
    k = idx // len(KINDS)
    if kind == "swap":
        # 5 swap slots per block of 9: spread the 30 configurations over slots as well as blocks
        slot = (0, 2, 4, 6, 8).index(idx % len(KINDS))
        swap_case(ctx, idx, k * 5 + slot)
    elif kind == "ncon":
        slot = (1, 5).index(idx % len(KINDS))
        ncon_case(ctx, idx, k * 2 + slot)
    else:
        slot = (3, 7).index(idx % len(KINDS))
        what, fi = FK_SCHEDULE[(k * 2 + slot) % len(FK_SCHEDULE)]
        if what == "ops":
            fkron_ops_case(ctx, idx, fi)
        elif what == "car":
            car_case(ctx, idx, fi)
        else:
            fkron_random_case(ctx, idx, k)


def end_shard(ctx):
    reach().publish(ctx)


def canaries(ctx):
    """Each of the three comparators must fire on a corrupted observation / a corrupted reference."""
    import random
    import yastn
    sub = type(ctx)(ctx.prop, ctx.tier, ctx.seed)
    rng, nprng = random.Random(5), np.random.default_rng(5)
    # (a) one block of the expected array with the wrong sign / a forgotten pair
    legs = [D.HLeg("U1", 1, [((0,), 1), ((1,), 2)]), D.HLeg("U1", 1, [((0,), 2), ((1,), 1)]), D.HLeg("U1", -1, [((0,), 1), ((1,), 1), ((2,), 2)])]
    a = D.gen_tensor(rng, nprng, "U1", legs=legs, n=(0,), dtype="float64", density=1.0, fermionic=True)
    ya = a.to_yastn(D.make_cfg("U1", True))
    S = swap_sign_array(a, [((0,), (1,))], True)
    r = ya.swap_gate(axes=(0, 1))
    compare_exact(sub, "canary", "canary", r, a.dense() * S, a.legs, a.n, None)
    clean = not sub.violations
    compare_exact(sub, "canary", "canary", r, a.dense(), a.legs, a.n, None)                # sign forgotten
    ctx.canary("swap-sign-forgotten", clean and bool(np.any(S < 0)) and any(v["key"].startswith("value:") for v in sub.violations))
    sub.violations.clear()
    e = a.dense() * S
    e[tuple(np.argwhere(e != 0)[0])] *= -1
    compare_exact(sub, "canary", "canary", r, e, a.legs, a.n, None)                        # one element flipped
    ctx.canary("swap-one-element", any(v["key"].startswith("value:") for v in sub.violations))
    sub.violations.clear()
    compare_exact(sub, "canary", "canary", r, a.dense() * S, a.legs, G.add("U1", (a.n, (1,))), None)
    ctx.canary("swap-charge", any(v["key"].startswith("result-charge") for v in sub.violations))
    sub.violations.clear()
    # (b) a chain A(-0,1) B(1,2,-1) C(2,-2) with a swap between bond 1 and the open leg of C: the reference without the
    #     sign matrix must be flagged
    found = False
    for sd in range(50):
        rg, nrg = random.Random(100 + sd), np.random.default_rng(100 + sd)
        net = Net()
        L = [D.HLeg("U1", rg.choice((-1, 1)), [((0,), 1), ((1,), 2)]) for _ in range(5)]      # edges: 0 open A, 1 bond AB, 2 bond BC, 3 open B, 4 open C
        net.edges = [{"kind": kd, "leg": l} for kd, l in zip(("open", "bond", "bond", "open", "open"), L)]
        net.slot_edges = [[0, 1], [1, 2, 3], [2, 4]]
        net.inds = [(0, 1), (1, 2, -1), (2, -2)]
        net.open_ids, net.out_legs = [0, 3, 4], [L[0], L[3], L[4]]
        net.nt, net.conjs, net.swap, net.swap_edges = 3, [0, 0, 0], [(1, -2)], [(1, 4)]
        net.hts = [D.gen_tensor(rg, nrg, "U1", legs=lg, n=nn, dtype="float64", density=1.0, fermionic=True)
                   for lg, nn in (([L[0], L[1]], None), ([L[1].conj(), L[2], L[3]], None), ([L[2].conj(), L[4]], None))]
        exp, plain = net_oracle(net, "U1", True), net_oracle(net, "U1", True, with_signs=False)
        if exp.size and np.max(np.abs(exp - plain)) > 1e-6:
            found = True
            break
    if found:
        ys = [h.to_yastn(D.make_cfg("U1", True)) for h in net.hts]
        r = yastn.ncon(ys, net.inds, conjs=net.conjs, swap=net.swap)
        nexp = G.add("U1", [h.n for h in net.hts])
        compare_net(sub, "canary", "canary", r, exp, net, nexp, 1e-10, None)
        clean = not sub.violations
        compare_net(sub, "canary", "canary", r, plain, net, nexp, 1e-10, None)
        ctx.canary("ncon-swap-ignored", clean and any(v["key"].startswith("value:") for v in sub.violations))
        sub.violations.clear()
        cm = analyse_commands((("parity_sign", 0, 1, (0,)), ("tensordot", net.nt, (0, 1), ((0,), (0,)))), net, "U1", True)
        ctx.canary("command-classifier", cm["parity_sign"] == 1 and cm["jump_step2"] == 1 and cm["jump_step1"] == 0)
    else:
        ctx.canary("ncon-swap-ignored:no-sensitive-network-found", False)
    # GF(2) order classifier on hand-checked structures
    chain = ((-0, 1), (1, 2, -1), (2, 3), (3, -2))
    ctx.canary("order-classifier",
               classify_order(chain, ((1, -2),), (1, 2, 3))[0] == [] and
               classify_order(((1, 2, -0), (1, 2, -1), (-2, -3)), ((1, -2),), (1, 2))[0] == ["unresolvable:multi-bond"] and
               classify_order(((1, 2, -0), (1, 2, -1), (-2, -3)), ((1, -2), (2, -2)), (1, 2))[0] == [] and
               classify_order(((1, 2, -0), (1, 2, -1), (-2,)), ((1, -2),), (1, 2)) == ([], ["multi"]) and
               classify_order(((1, 1, -0), (-1, -2)), ((1, -1),), (1,))[0] == ["unresolvable:traced-leg"] and
               classify_order(((1, 1, -0), (-1,)), ((1, -1),), (1,)) == ([], ["trace"]) and
               classify_order(((1, 2), (1, 3, 3, 2)), (), (1, 3, 2))[0] == ["inefficient"] and
               classify_order(((0, 1), (2, 1), (2, 3, 4), (4, 3)), ((1, 3),), (3, 4, 1, 2)) == ([], ["multi"]))
    # (c) fkron against the bosonic model (strings dropped) / reversed application order
    F = Fam.get(1)
    model, bos = jw.Model([F.charges] * 2, F.sym, F.fer), jw.Model([F.charges] * 2, F.sym, False)
    res = yastn.fkron(F.named["c"], F.named["cp"], sites=(0, 1))            # c_0 cp_1 = -(c x cp): the string matters
    fac = [(F.loc["c"][0], F.loc["c"][1], 0), (F.loc["cp"][0], F.loc["cp"][1], 1)]
    n0 = G.zero(F.sym)
    fkron_compare(sub, "canary", "canary", res, model.product(fac), [F.space] * 2, n0, F.sym, 1e-13, None)
    clean = not sub.violations
    fkron_compare(sub, "canary", "canary", res, bos.product(fac), [F.space] * 2, n0, F.sym, 1e-13, None)
    ctx.canary("fkron-string-dropped", clean and any(v["key"].startswith("value:") for v in sub.violations))
    sub.violations.clear()
    fkron_compare(sub, "canary", "canary", res, model.product(fac[::-1]), [F.space] * 2, n0, F.sym, 1e-13, None)
    ctx.canary("fkron-order-reversed", any(v["key"].startswith("value:") for v in sub.violations))


def finalize(cov, merged):
    c = merged["counters"]
    notes = merged["notes"]
    summary = {}
    for k in sorted(notes):
        if k.startswith("lines_reached:"):
            name = k.split(":", 1)[1]
            ex = notes.get("lines_executable:" + name, [])
            got = [x for x in notes[k] if x in set(ex)]
            summary[name] = {"reached": len(got), "executable": len(ex), "missed_lines": [x for x in ex if x not in set(got)]}
            cov.pop(k, None)
            cov.pop("lines_executable:" + name, None)
    cov["anchor_lines"] = summary
    cov["fkron_families"] = sorted(k.split(":", 1)[1] for k in c if k.startswith("fkron_family:"))
    cov["car_families"] = sorted(k.split(":", 1)[1] for k in c if k.startswith("car_family:"))
    if not summary:
        cov["inconclusive_reasons"].append("line-reach monitor did not attach (sys.monitoring unavailable?)")
    else:
        r = summary.get("_resolve_bad_swaps", {"reached": 0, "executable": 1})
        frac = r["reached"] / max(1, r["executable"])
        cov["resolve_bad_swaps_line_fraction"] = round(frac, 3)
        need = 0.6
        if frac < need:
            cov["inconclusive_reasons"].append(f"only {frac:.0%} of the lines of _resolve_bad_swaps were reached (need {need:.0%})")
    if len(cov["fkron_families"]) < len(PREDEF):
        cov["inconclusive_reasons"].append(f"only {len(cov['fkron_families'])} of {len(PREDEF)} predefined operator families exercised by fkron")
