"""C10  TDVP conserves what it must and is exact on the full manifold.

Every case builds a random Hermitian Hamiltonian (Hterm list -> generate_mpo; its dense matrix *is* H), an
initial MPS of an admissible charge and drives ``mps.tdvp_`` over a time grid.  After every snapshot:

 always        TDVP_out fields vs the requested grid (ti, tf, steps, dt, time_independent, yield_initial),
               charge sector kept (tensor charge, no weight on other charges), right-canonical site tensors, no
               central block, norm == 1 when normalize=True
 u = 1j        norm conservation (normalize=False) and energy conservation within a bound derived from the expmv
 Hermitian H   tolerance: (#expmv calls) * C_TOL * tol (+ floor) -- 1site always, 2site/12site with non-binding opts_svd
 full manifold dense psi(t_k) == scipy.linalg.expm(-u (t_k - t_0) H) psi_0 for u in {1j, 1, complex}, every method / order /
               flag combination (up to a scalar when subtract_E=True), whenever the bond dimensions are maximal *and* have the
               structure under which the projector-splitting sweep is exact (vmon.tnref_dt.exactness_premise: every bond left
               of a switch point is left-complete, every bond right of it right-complete -- always true without symmetries;
               with symmetries a bond can be left-complete in one charge sector and right-complete in another, the manifold
               is then still the whole sector but the integrator is only accurate to its order; such cases are counted as
               maximal_bonds_but_mixed_completeness and not judged by this clause)
 H(t)          bounded convergence-order restatement at maximal bond dimension: errors at dt, dt/2, dt/4 against a
               fine-step 4th-order Magnus propagator shrink by >= 2^(p-0.5) while above the noise floor (else inconclusive)

A start that is not canonical is judged by the same reference (the docstring promises that tdvp_ canonises it).  When such
a case violates a value clause the case is re-run from a canonised copy; if that run is clean the violation is reported
under the single mechanism key ``noncanonical-start:not-canonized``.
"""
from __future__ import annotations

import numpy as np

from vmon import groups as G
from vmon import tnref_dt as T
from vmon.harness import CaseSkip

PROP = "C10"
RULE = ("case = (symmetry [7], local space: named operator class or random generic charge set with fermionic flags, N, "
        "random Hermitian Hterm Hamiltonian as MPO / scaled MPO / list / tuple / MPO sum, admissible charge, initial "
        "state: harness-built full / fractional / D=1 manifold or random_mps(D_total), canonical or exactly as built, "
        "scaled or not, real or complex; time grid with 1-3 snapshots, start time, dt dividing the interval or not, "
        "u in {1j, 1, complex}, method 1site/2site/12site, order 2nd/4th, opts_expmv variant, normalize, subtract_E, "
        "precompute, yield_initial; time-dependent generators: three step sizes); distinct = hash of those structural "
        "choices; non-trivial = sector dimension >= 2 and at least one snapshot judged")
ASSUMPTIONS = ["scipy.linalg.expm / dense matrix-vector products on <= 4096-dimensional sectors are the truth",
               "the dense matrix of the MPO(s) returned by generate_mpo defines H (non-Hermitian or charge-changing images are "
               "skipped and counted)",
               "MpsMpoOBC.to_tensor + Tensor.to_numpy(legs=...) are observation functions (cross-validated by C01/C06)",
               "expmv delivers its documented tolerance per call; the conservation bound is (#calls) * 2 * tol + 1e-12",
               "time-dependent reference: 4th-order Gauss-Legendre Magnus propagator with 400 steps per interval",
               "exactness at maximal bond dimension is demanded only under the one-sided-completeness premise (see module "
               "docstring); it is a theorem there and only an O(dt^p) approximation otherwise",
               "a single expmv call needing more than 3 s of CPU time on tensors of < 1000 elements is a hang"]

C_TOL = 2.0        # allowed error per expmv call, in units of its tol
FLOOR = 1e-12
NTOL = 1e-10       # canonical form
FULL_FLOOR = 1e-11
ORDER_FLOOR = 1e-9


def plan(tier):
    if tier == "thorough":
        return {"cases": 3500, "shards": 16, "budget_s": 780}
    return {"cases": 315, "shards": 8, "budget_s": 110}


def floors(tier):
    k = 8 if tier == "thorough" else 1
    f = {"snapshots": 80 * k, "noncanonical_starts": 10 * k, "full_manifold_comparisons": 20 * k,
         "bookkeeping_checks": 80 * k, "sector_checks": 80 * k, "canonical_checks": 80 * k,
         "energy_conservation_checks": 30 * k, "norm_conservation_checks": 10 * k, "normalised_checks": 20 * k,
         "dt_not_dividing": 10 * k, "yield_initial_checked": 3 * k, "H:list": 5 * k, "H:single": 5 * k,
         "u:real-time": 20 * k, "u:imaginary-time": 5 * k, "u:complex": 5 * k, "order_tests": 2 * k,
         "order_ratios_judged": 2 * k, "order_ratios_judged:2nd": 2 * k, "order_ratios_judged:4th": 2 * k,
         "timedep:callable-returns-list": 2 * k, "timedep:callable-returns-mpo": 2 * k, "timedep:uneven_dt_pairs": 3 * k,
         "fermionic_cases": 10 * k, "bond_growth_runs": 3 * k,
         "omitted:all": 4 * k, "omitted:none": 20 * k, "omitted:times": k, "omitted:dt": k,
         "H_special:zero": k, "H_special:identity": k, "H_special:scaled": 3 * k, "start:scaled": 10 * k,
         "N=1": 4 * k, "N=2": 8 * k, "must_reject_ok": 3 * k, "tiny_dt_runs": 2 * k, "intervals_below_1e-12": k, "2site_or_12site_with_empty_opts_svd": 3 * k}
    for m in ("1site", "2site", "12site"):
        for o in ("2nd", "4th"):
            f[f"mo:{m}:{o}"] = 3 * k
    return f


U_CHOICES = (("real-time", 1j), ("real-time", 1j), ("real-time", 1j), ("imaginary-time", 1.0), ("complex", 0.3 + 0.7j),
             ("complex", 0.6 - 0.5j))
OPTS_EXPMV = (None, None, None, {"hermitian": True, "ncv": 5, "tol": 1e-12}, {"hermitian": True, "ncv": 5, "tol": 1e-12},
              {"hermitian": True, "tol": 1e-10}, {"hermitian": True, "ncv": 12, "tol": 1e-13},
              {"hermitian": False, "ncv": 3, "tol": 1e-11}, {"hermitian": True, "ncv": 2, "tol": 1e-9})


def expmv_tol(opts):
    return 1e-12 if (opts is None or "tol" not in opts) else float(opts["tol"])


# ------------------------------------------------------------------ expmv watchdog (API-boundary interposer, no source edit)

class ExpmvStall(Exception):
    pass


GUARD = {"installed": False, "seconds": 3.0}        # CPU seconds (ITIMER_VIRTUAL): immune to a loaded machine


def install_expmv_guard():
    """tdvp_ calls yastn.tn.mps._tdvp.expmv once per local update (milliseconds for the tensors used here).  A call that
    does not return within GUARD['seconds'] of *CPU time* is interrupted and reported: expmv's adaptive loop can spin forever."""
    import signal
    import yastn.tn.mps._tdvp as td
    if GUARD["installed"]:
        return
    orig = td.expmv

    def guarded(f, v, t=1., *args, **kwargs):
        def on_alarm(signum, frame):
            info = {"vector_size": int(v.size), "t": repr(t), "opts": {k: repr(x) for k, x in kwargs.items()}}
            fr = frame
            while fr is not None:        # read the loop state of the spinning expmv frame (witness / mechanism only)
                if fr.f_code.co_name == "expmv" and "krylov" in fr.f_code.co_filename:
                    loc = fr.f_locals
                    for name in ("omega", "tau", "ncv", "ncv_max", "m", "reject", "t_now", "t_out"):
                        if name in loc:
                            try:
                                info[name] = float(loc[name]) if not isinstance(loc[name], bool) else loc[name]
                            except (TypeError, ValueError):
                                info[name] = repr(loc[name])
                    if loc.get("V") is not None:
                        info["basis"] = len(loc["V"])
                    break
                fr = fr.f_back
            raise ExpmvStall(info)
        old = signal.signal(signal.SIGVTALRM, on_alarm)
        signal.setitimer(signal.ITIMER_VIRTUAL, GUARD["seconds"])
        try:
            return orig(f, v, t, *args, **kwargs)
        finally:
            signal.setitimer(signal.ITIMER_VIRTUAL, 0)
            signal.signal(signal.SIGVTALRM, old)

    guarded.__wrapped__ = orig
    td.expmv = guarded
    GUARD["installed"] = True


# ------------------------------------------------------------------ observation of one state

def observe(ctx, psi, sec, tag, witness, normalize, canonical=True):
    """Sector and canonical-form clauses; returns the dense sector vector exactly as the MPS represents it."""
    sp = sec.sp
    v, nten = T.mps_dense(psi, sp)
    ctx.count("sector_checks")
    if nten != sec.n:
        ctx.violation("sector:tensor-charge", f"{tag}: charge of psi.to_tensor() is {nten}, initial state had {sec.n}", witness)
    w_out = float(np.max(np.abs(v[sec.mask_out]))) if sec.mask_out.any() else 0.0
    if w_out != 0.0:
        ctx.violation("sector:weight-outside", f"{tag}: amplitude {w_out:.3e} on basis states of another charge", witness)
    lg0 = psi[0].get_legs(axes=0)
    if len(lg0.t) != 1 or tuple(int(x) for x in lg0.t[0]) != sec.n or tuple(lg0.D) != (1,):
        ctx.violation("sector:first-virtual-leg", f"{tag}: first virtual leg is {lg0}, expected charge {sec.n} with D=1", witness)
    if not canonical:
        return v[sec.idx]
    ctx.count("canonical_checks")
    if psi.pC is not None:
        ctx.violation("not-canonical:central-block", f"{tag}: central block left at {psi.pC}", witness)
    # sites 1..N-1 must be right isometries; site 0 has left dimension 1, i.e. it is an isometry up to the norm of the
    # state, which normalize=False is allowed to keep in psi.factor or in the first tensor
    defect, c0 = T.site_isometry_defect(psi, site0_upto_scale=True)
    if not ctx.margin("canonical", defect, NTOL):
        ctx.violation("not-canonical", f"{tag}: max |A A^+ - 1| = {defect:.3e} (right-canonical form expected)", witness)
    if abs(c0 - 1.0) > 1e-8:
        ctx.count("norm_kept_in_first_tensor")
    return v[sec.idx]


# ------------------------------------------------------------------ one monitored tdvp_ run

def within(ctx, name, err, allowed):
    """ctx.margin, but observations that violate are recorded under a separate name so that the worst *passing* margin
    stays visible next to the known findings."""
    if err <= allowed:
        return ctx.margin(name, err, allowed)
    ctx.margin(name + " (violating cases)", err, allowed)
    return False


def guarded_iter(ctx, gen, tag, witness, failed):
    """Iterate tdvp_; an expmv call that never returns becomes a (specifically keyed) violation instead of a dead shard."""
    while True:
        try:
            out = next(gen)
        except StopIteration:
            return
        except ExpmvStall as e:
            info = e.args[0] if e.args else {}
            ctx.count("expmv_stalls")
            om = info.get("omega")
            if isinstance(om, float) and om != om:
                key, why = "hang:expmv:nan-error-estimate", ("the error estimate is NaN, so the step is rejected forever "
                                                             "(no guard against non-finite values in the adaptive loop)")
            elif info.get("ncv_max") is not None and info["ncv_max"] < 30 and info["ncv_max"] == info.get("vector_size"):
                key, why = "hang:expmv:krylov-cap-from-stored-size", (
                    "the Krylov size is capped by ncv_max = min(30, v.size), but v.size counts only the stored elements of the "
                    "block-sparse vector, which can be far fewer than the dimension of the local space f acts on; the adaptive loop "
                    "can then only shrink the time step (or, if the first expansion used a larger user ncv, not even that)")
            else:
                key, why = "hang:expmv:no-progress", "the adaptive loop makes no progress"
            failed.append((key, f"{tag}: a single expmv call inside tdvp_ did not return within {GUARD['seconds']} s of CPU time ({why}); loop state {info}",
                           dict(witness, expmv=info)))
            failed.append(("__stalled__", "", {}))
            return
        except Exception as e:
            # An exception escaping tdvp_ on a documented-valid input is a violation (key = type + innermost yastn frame, as
            # the driver would name it).  It is collected like the value clauses so that a start that is not canonical can be
            # classified: un-normalised environments overflow (NaN -> LinAlgError / ValueError / OverflowError).
            import traceback
            from vmon.harness import exc_key
            ctx.count("exceptions_inside_tdvp")
            failed.append((exc_key(e), f"{tag}: exception escaped tdvp_: {e!r}", dict(witness, traceback=traceback.format_exc()[-2500:])))
            failed.append(("__stalled__", "", {}))
            return
        yield out



TDVP_DEFAULTS = {"times": (0, 0.1), "dt": 0.1, "u": 1j, "method": "1site", "order": "2nd", "opts_expmv": None, "opts_svd": None,
                 "normalize": True, "subtract_E": False, "precompute": False, "yield_initial": False}


def apply_omissions(run):
    """Arguments in run['omit'] are not passed to tdvp_; the run description is set to their documented defaults."""
    for k in run.get("omit", ()):
        run[k] = TDVP_DEFAULTS[k]
        if k == "times":
            run["times_arg"] = None
        if k == "u":
            run["ukind"] = "real-time"
    if run["method"] in ("2site", "12site") and run["opts_svd"] is None:
        run["opts_svd"] = {}                         # required by these methods; {} = no truncation
    return run


def tdvp_kwargs(run):
    omit = run.get("omit", frozenset())
    shuffle = run.get("shuffle")
    kw = {}
    if "times" not in omit:
        kw["times"] = run["times_arg"]
    for k in ("dt", "u", "method", "order", "normalize", "subtract_E", "precompute", "yield_initial"):
        if k not in omit:
            kw[k] = run[k]
    for k in ("opts_expmv", "opts_svd"):
        if run[k] is not None:
            items = list(run[k].items())
            if shuffle is not None:
                shuffle.shuffle(items)              # insertion order of an options dictionary must not matter
            kw[k] = dict(items)
    if shuffle is not None:
        items = list(kw.items())
        shuffle.shuffle(items)
        kw = dict(items)
    return kw


def must_reject(ctx, psi, H, witness, rng):
    """Arguments that the error messages of tdvp_ define as invalid: YastnError expected (raised at the first next())."""
    import yastn
    import yastn.tn.mps as mps
    a = rng.uniform(0.05, 0.3)
    what, kw = rng.choice((("times:zero-length-interval", {"times": (0.0, a, a)}), ("times:t0==t1", {"times": (a, a)}),
                           ("times:final-time-0", {"times": 0}), ("times:descending", {"times": (a, 0.0)}),
                           ("times:not-ascending", {"times": (0.0, 2 * a, a)}), ("dt=0", {"dt": 0.0}), ("dt<0", {"dt": -0.1}),
                           ("method-unknown", {"method": "one-site"}), ("order-unknown", {"order": "1st"}),
                           ("2site-without-opts_svd", {"method": "2site"})))
    ctx.count("must_reject_cases")
    try:
        next(mps.tdvp_(psi.shallow_copy(), H, **kw))
    except yastn.YastnError:
        ctx.count("must_reject_ok")
        return
    ctx.violation("must-reject:" + what, f"tdvp_(psi, H, {kw}) did not raise YastnError", witness)


def expected_steps(delta, dt):
    """Smallest number of equal steps not longer than dt (dt is 'adjusted down')."""
    r = delta / dt
    k = int(np.floor(r))
    if abs(r - round(r)) < 1e-9:
        return int(round(r)), True       # dt divides the interval (within rounding)
    return k + 1, False


def run_tdvp(ctx, psi, H, sec, run, tag, witness, full, ref0, Hfun=None, judge=True):
    """Drive tdvp_ and judge every snapshot.  Returns dict(violated_value=[...], final=vector, ...).

    ref0 : dense sector vector of the initial state (as the MPS represents it, norm included)
    full : bond dimensions maximal (full-manifold clause applies)
    Value-clause failures are *collected* (not yet reported) so that the caller can classify the mechanism."""
    import yastn.tn.mps as mps
    times, dt, u = run["times"], run["dt"], run["u"]
    normalize, subtract_E = run["normalize"], run["subtract_E"]
    tol = expmv_tol(run["opts_expmv"])
    kw = tdvp_kwargs(run)
    N = psi.N
    nsub = 1 if run["order"] == "2nd" else 5
    hermitian_real_time = (u == 1j) and Hfun is None
    n0 = float(np.linalg.norm(ref0))
    E0 = sec.energy(ref0)
    failed = []          # (key, what, witness)
    calls = 0
    k = 0
    first = True
    final = None
    errs_full = []
    bonds0 = T.total_bond_dims(psi)
    install_expmv_guard()
    for out in guarded_iter(ctx, mps.tdvp_(psi, H, **kw), tag, witness, failed):
        if first and run["yield_initial"]:
            first = False
            ctx.count("yield_initial_checked")
            if not (out.ti == times[0] and out.tf == times[0] and out.steps == 0 and out.time_independent == (Hfun is None)):
                ctx.violation("bookkeeping:yield_initial", f"{tag}: initial yield is {tuple(out)}, expected (t0, t0, {Hfun is None}, dt, 0)", witness)
            v = observe(ctx, psi, sec, tag + " initial", witness, normalize, canonical=not run["start_noncanonical"])
            # the initial state itself, or (a canonising tdvp_ with normalize=True) its normalised version
            dev = T.rel_diff(v, ref0)
            if normalize:
                dev = min(dev, T.rel_diff(v, ref0 / n0))
            if not ctx.margin("yield_initial", dev, 1e-12):
                ctx.violation("yield_initial:state-changed", f"{tag}: the state yielded before the evolution differs from the initial "
                              f"state by {dev:.3e}", witness)
            continue
        first = False
        k += 1
        if k >= len(times):
            ctx.violation("bookkeeping:too-many-snapshots", f"{tag}: more snapshots than requested times", witness)
            break
        ctx.count("snapshots")
        t_prev, t_k = times[k - 1], times[k]
        delta = t_k - t_prev
        w = dict(witness, snapshot=k, out=[float(out.ti), float(out.tf), bool(out.time_independent), float(out.dt), int(out.steps)])
        # ---------------- bookkeeping
        ctx.count("bookkeeping_checks")
        tscale = max(abs(t_k), abs(t_prev))          # relative: times of any magnitude are judged alike
        if out.ti != t_prev:
            ctx.violation("bookkeeping:ti", f"{tag} snapshot {k}: ti = {out.ti!r}, interval starts at {t_prev!r}", w)
        guard_case = delta < 1e-10 and out.steps <= 0
        if not guard_case and not ctx.margin("tf", abs(out.tf - t_k), 1e-12 * tscale):
            ctx.violation("bookkeeping:tf", f"{tag} snapshot {k}: tf = {out.tf!r}, requested snapshot {t_k!r}", w)
        if out.time_independent != (Hfun is None):
            ctx.violation("bookkeeping:time_independent", f"{tag}: time_independent = {out.time_independent}", w)
        s_exp, divides = expected_steps(delta, dt)
        if not divides:
            ctx.count("dt_not_dividing")
        # when dt divides the interval up to rounding, "the ratio is an integer" is not decidable in floating point: the real
        # ratio may be a hair above k, for which k + 1 (slightly shorter) steps are the documented answer as well
        if out.steps != s_exp and not (divides and out.steps == s_exp + 1) and delta < 1e-10:
            # specific mechanism: steps = int((t1 - t0 - 1e-12) // dt) + 1 -- the guard 1e-12 is an absolute time
            failed.append(("time-grid:absolute-1e-12-guard",
                           f"{tag} snapshot {k}: {out.steps} steps (dt = {out.dt!r}, tf = {out.tf!r}) for the interval {delta!r} with requested "
                           f"dt = {dt!r}; expected {s_exp}.  The step count subtracts an absolute 1e-12 from the interval, so intervals "
                           f"of that magnitude (large ||H||, small times) get a wrong, here non-positive, number of steps and the state "
                           f"is handed back without having been evolved to the requested time", w))
            failed.append(("__stalled__", "", {}))
            break
        if out.steps != s_exp and not (divides and out.steps == s_exp + 1):
            ctx.violation("bookkeeping:steps", f"{tag} snapshot {k}: {out.steps} steps for an interval {delta!r} with dt = {dt!r}; "
                          f"the smallest number of steps not longer than dt is {s_exp}", w)
        if out.steps > 0 and not ctx.margin("steps*dt", abs(out.steps * out.dt - delta), 1e-12 * tscale):
            ctx.violation("bookkeeping:dt", f"{tag} snapshot {k}: steps*dt = {out.steps * out.dt!r} != interval {delta!r}", w)
        if out.dt > dt * (1 + 1e-12):
            ctx.violation("bookkeeping:dt-increased", f"{tag} snapshot {k}: used dt = {out.dt!r} exceeds requested dt = {dt!r}", w)
        if divides and out.steps == s_exp + 1:
            ctx.count("steps_k+1_at_exact_division")
        calls += max(int(out.steps), s_exp) * nsub * 4 * N
        allowed = calls * C_TOL * tol + FLOOR
        # ---------------- state clauses
        v = observe(ctx, psi, sec, f"{tag} snapshot {k}", w, normalize)
        final = v
        nv = float(np.linalg.norm(v))
        if nv == 0 or not np.isfinite(nv):
            failed.append(("state-lost", f"{tag} snapshot {k}: norm of the state is {nv}", w))
            break
        if normalize:
            ctx.count("normalised_checks")
            if not within(ctx, "normalised" + ("" if run["conserving"] else ":truncation-binding"), abs(nv - 1.0), allowed):
                if not run["conserving"] and nv < 1.0:
                    failed.append(("not-normalised:truncation-binding",
                                   f"{tag} snapshot {k}: ||psi|| = {nv!r} with normalize=True and a binding truncation ({run['opts_svd']}): "
                                   f"post_2site_ keeps the truncated Schmidt values un-normalised and the {run['method']} sweep does not "
                                   f"renormalise, although normalize=True promises a result of unit norm", w))
                elif run["method"] in ("2site", "12site") and abs(nv - n0) <= allowed * n0:
                    failed.append(("not-normalised:2site-keeps-initial-norm",
                                   f"{tag} snapshot {k}: ||psi|| = {nv!r} with normalize=True: the {run['method']} sweep normalises the local "
                                   f"tensors but never resets psi.factor, so the norm {n0!r} of the initial state survives", w))
                else:
                    failed.append(("not-normalised", f"{tag} snapshot {k}: ||psi|| = {nv!r} with normalize=True", w))
        elif hermitian_real_time and run["conserving"]:
            ctx.count("norm_conservation_checks")
            if not within(ctx, "norm-drift", abs(nv - n0) / n0, allowed):
                failed.append(("norm-drift", f"{tag} snapshot {k}: ||psi|| went from {n0!r} to {nv!r} (real time, Hermitian H, "
                               f"normalize=False; allowed relative drift {allowed:.1e})", w))
        if hermitian_real_time and run["conserving"]:
            ctx.count("energy_conservation_checks")
            E = sec.energy(v)
            if not within(ctx, "energy-drift", abs(E - E0), 2 * allowed * sec.scale):
                failed.append(("energy-drift:" + run["method"], f"{tag} snapshot {k}: <H> went from {E0!r} to {E!r} (drift {E - E0:.3e}, "
                               f"allowed {2 * allowed * sec.scale:.1e}; ||H|| = {sec.scale:.3g}, bond dimensions {bonds0} -> "
                               f"{T.total_bond_dims(psi)})", w))
        # ---------------- full manifold: exact evolution
        if full and Hfun is None and T.exactness_premise(psi, run["counts"]):
            ctx.count("full_manifold_comparisons")
            ctx.count("full:" + run["method"] + ":" + run["order"] + ":" + run["ukind"])
            ref = T.expm_apply(sec.Hs, ref0, u, t_k - times[0])
            if normalize:
                # the norm itself is judged by the normalisation clause above
                err = T.rel_diff(v / nv, ref / np.linalg.norm(ref), upto_scalar=subtract_E)
            else:
                err = T.rel_diff(v, ref, upto_scalar=subtract_E)
                if run["start_noncanonical"]:
                    # a canonising tdvp_ may keep the norm of a non-canonical start or normalise it: both readings accepted
                    err = min(err, T.rel_diff(v, ref / n0, upto_scalar=subtract_E))
            errs_full.append(err)
            if not within(ctx, "full-manifold", err, allowed + FULL_FLOOR):
                failed.append(("full-manifold-mismatch:" + run["method"], f"{tag} snapshot {k}: maximal bond dimension, but the state differs from "
                               f"expm(-u t H) psi0 by {err:.3e} (relative; allowed {allowed + FULL_FLOOR:.1e}); u = {u}, t = {t_k - times[0]!r}", w))
        elif full:
            ctx.count("full_manifold_lost_or_timedep")
    if judge and k != len(times) - 1 and not failed:
        ctx.violation("bookkeeping:snapshots", f"{tag}: {k} snapshots yielded for {len(times) - 1} requested", witness)
    return {"failed": failed, "final": final, "snapshots": k, "errs_full": errs_full, "bonds0": bonds0, "bonds1": T.total_bond_dims(psi)}


# ------------------------------------------------------------------ case generation

def draw_grid(rng, unit, light=False, tiny=False):
    """times tuple + dt.  unit = 1/||H||: ||H|| * dt stays below 0.3.  Every interval is (k - 1 + frac) * dt with frac in
    [0.15, 0.9] (dt does not divide it: k steps of a smaller size) or exactly k * dt, so that the documented step count is
    unambiguous for times of any magnitude; tiny: dt = 1e-8 * unit."""
    m = rng.choice((1, 1, 2) if light else (1, 1, 2, 3))
    dt = (1e-8 if tiny else rng.uniform(0.08, 0.3)) * unit
    t0 = 0.0 if tiny else rng.choice((0.0, 0.0, 0.25, -0.4)) * unit
    times = [t0]
    for _ in range(m):
        k = rng.choice((1, 1, 2) if light else (1, 1, 2, 3))
        if dt < 1e-11:
            k = 1           # intervals at the scale of the library's absolute 1e-12 guard: one step is the documented minimum
        length = k * dt if rng.random() < 0.35 else (k - 1 + rng.uniform(0.15, 0.9)) * dt
        times.append(times[-1] + length)
    return tuple(times), dt


def initial_state(cs, n, counts, kinds):
    import yastn
    import yastn.tn.mps as mps
    rng, nprng, sp, N = cs["rng"], cs["nprng"], cs["sp"], cs["N"]
    kind = rng.choice(kinds)
    dtype = rng.choice(("float64", "complex128"))
    if kind.startswith("random_mps"):
        Dfull = max(sum(min(l, r) for l, r in c.values()) for c in counts)
        Dtot = rng.choice((1, 2, 3)) * Dfull if kind == "random_mps_big" else rng.choice((1, 2, 3, 4, 6))
        I = mps.product_mpo(sp.I, N)
        try:
            psi = mps.random_mps(I, n=n, D_total=Dtot, dtype=dtype, sigma=rng.choice((1, 2, 4)) if kind == "random_mps" else 50)
        except yastn.YastnError as e:
            if "zero state" in str(e):
                raise CaseSkip
            raise
        desc = {"kind": "random_mps", "D_total": Dtot, "dtype": dtype}
    else:
        psi = T.make_mps(rng, nprng, sp, N, n, mode=kind, dtype=dtype, counts=counts)
        desc = {"kind": kind, "dtype": dtype}
    canon = rng.random() < 0.5
    if canon:
        psi.canonize_(to="first", normalize=rng.random() < 0.5)
    if rng.random() < 0.3:
        # any norm is legal: normalize=True gives norm 1, normalize=False keeps track of the norm (ratio to the start conserved)
        f = rng.choice((2.0, 0.5, -1.5, 10.0 ** rng.randint(-20, 20), -(10.0 ** rng.randint(-20, 20))))
        if canon or rng.random() < 0.5:
            psi = f * psi                                        # psi.factor != 1, tensors untouched
            desc["scaled"] = ["factor", f]
        else:
            j = rng.randrange(N)
            psi[j] = f * psi[j]
            desc["scaled"] = ["site", j, f]
    desc["canonical"] = canon
    return psi, desc


def special_hamiltonian(rng, H, sp, N):
    """Extreme but legal generators: H = 0 (factor 0), H = c * identity, H scaled by 10^k (k = -8..6)."""
    import yastn.tn.mps as mps
    kind = rng.choice(("zero", "identity", "scaled", "scaled", "scaled"))
    if kind == "zero":
        Hz = H[0] if isinstance(H, (list, tuple)) else H
        return 0 * Hz, "single", {"special": "zero"}
    if kind == "identity":
        c = rng.choice((-1, 1)) * round(rng.uniform(0.3, 3.0), 3)
        return c * mps.product_mpo(sp.I, N), "single", {"special": "identity", "c": c}
    k = rng.choice((-8, -6, -4, -2, 2, 4, 6))
    f = 10.0 ** k
    if isinstance(H, (list, tuple)):
        return type(H)([f * h for h in H]), "list", {"special": "scaled", "log10": k}
    return f * H, "scaled", {"special": "scaled", "log10": k}


def run_case(ctx, idx):
    rng, nprng = ctx.rng(idx), ctx.nprng(idx)
    sym = G.ALL_SYMS[idx % len(G.ALL_SYMS)]
    timedep = (idx // 7) % 9 == 5
    order = rng.choice(("2nd", "2nd", "4th"))
    Nch = (2, 3, 3, 4) if timedep else (1, 2, 2, 3, 3, 4, 4, 5, 5, 6)
    # a 4th-order step costs five sweeps: keep those chains (and the three-run order tests) smaller
    sp, N, groups = T.draw_chain(rng, nprng, sym, Nch, cap=64 if timedep else (600 if order == "2nd" else 200))
    cs = {"rng": rng, "nprng": nprng, "sp": sp, "N": N}
    sp.cfg.backend.random_seed(rng.randrange(2 ** 31))
    form = rng.choice(T.H_FORMS)
    if timedep:
        return run_timedep(ctx, idx, cs, sym, groups, order)
    H, hform = T.build_H(rng, sp, N, groups, form)
    special = None
    H_unscaled = H
    if rng.random() < 0.12:
        H, hform, special = special_hamiltonian(rng, H, sp, N)
        ctx.count("H_special:" + special["special"])
    Hd = T.hermitian_dense_or_skip(ctx, H, sp, allow_zero=special is not None)
    goal = rng.choice(("full", "full", "full", "conserve", "conserve", "grow"))
    n, dims = T.pick_charge(rng, sp, N)
    if goal == "full" and rng.random() < 0.8:
        # prefer a sector in which maximal bond dimensions satisfy the premise of the exactness property
        good = [q for q in dims if dims[q] >= 2 and T.exactness_premise(None, T.block_counts(sp, N, q))]
        if good:
            n = rng.choice(good)
    sec = T.Sector(ctx, Hd, sp, N, n)
    counts = T.block_counts(sp, N, n)

    if goal == "full":
        kinds = ("full", "full", "random_mps_big")
    elif goal == "conserve":
        kinds = ("frac", "frac", "one", "random_mps", "random_mps", "full")
    else:
        kinds = ("one", "frac", "random_mps")
    psi, sdesc = initial_state(cs, n, counts, kinds)
    if rng.random() < 0.07:
        must_reject(ctx, psi, H, {"idx": idx, "space": sp.desc(), "N": N}, rng)
    ukind, u = rng.choice(U_CHOICES) if goal == "full" else rng.choice(U_CHOICES[:4])
    method = rng.choice(("2site", "12site")) if goal == "grow" else rng.choice(("1site", "1site", "2site", "12site"))
    if N == 1 and method == "2site":
        method = rng.choice(("1site", "12site"))         # a two-site update needs two sites
    Dfull = max(sum(min(l, r) for l, r in c.values()) for c in counts)
    opts_svd = None
    binding = False
    if method != "1site" or rng.random() < 0.15:
        opts_svd = rng.choice(({"D_total": 4 * Dfull + 8}, {"D_total": 4 * Dfull + 8, "tol": 1e-14}, {"tol": 1e-14},
                               {"D_total": 100000, "tol": 1e-13}, {}, {}, {"D_total": 1}))
        binding = opts_svd == {"D_total": 1} and method != "1site" and Dfull > 1
    unit = 1.0 / sec.scale if sec.scale > 0 else 1.0
    tiny = rng.random() < (0.5 if (special is not None and special.get("log10", 0) >= 4) else 0.06)
    times, dt = draw_grid(rng, unit, light=(order == "4th"), tiny=tiny)
    single_time = len(times) == 2 and times[0] == 0.0 and rng.random() < 0.4
    run = {"times": times, "times_arg": (times[1] if single_time else (list(times) if rng.random() < 0.3 else times)),
           "dt": dt, "u": u, "ukind": ukind, "method": method, "order": order, "opts_expmv": rng.choice(OPTS_EXPMV),
           "opts_svd": opts_svd, "normalize": rng.random() < 0.5, "subtract_E": rng.random() < 0.3,
           "precompute": rng.random() < 0.5, "yield_initial": rng.random() < 0.25, "counts": counts,
           "conserving": not binding, "start_noncanonical": not sdesc["canonical"], "shuffle": rng}
    # optional arguments left out: none / one / all (pure defaults: tdvp_(psi, H)).  times and dt can only be left to their
    # defaults (0, 0.1) and 0.1 when that keeps ||H|| * t moderate and the number of steps small
    optional = ["u", "method", "order", "opts_expmv", "opts_svd", "normalize", "subtract_E", "precompute", "yield_initial"]
    times_ok = 0.1 * sec.scale <= 6.0 and not binding
    dt_ok = max(b - a for a, b in zip(times[:-1], times[1:])) <= 0.45
    r = rng.random()
    if r < 0.08 and times_ok:
        run["omit"] = frozenset(optional + ["times", "dt"])
    elif r < 0.40:
        pool = optional + (["times"] if times_ok else []) + (["dt"] if dt_ok else [])
        pick = rng.choice(pool)
        run["omit"] = frozenset([pick])
        if pick == "times":
            run["dt"] = 0.1 / (rng.choice((1, 2, 3)) - 1 + rng.uniform(0.15, 0.9))      # a step that suits the default interval
    else:
        run["omit"] = frozenset()
    apply_omissions(run)
    times, dt, u, ukind, method, order, opts_svd = (run[k] for k in ("times", "dt", "u", "ukind", "method", "order", "opts_svd"))
    single_time = single_time and "times" not in run["omit"]
    binding = binding and run["opts_svd"] == {"D_total": 1} and run["method"] != "1site"
    run["conserving"] = not binding
    v0, n_ten = T.mps_dense(psi, sp)
    ref0 = v0[sec.idx]
    if float(np.linalg.norm(ref0)) == 0:
        raise CaseSkip
    full = T.exactness_premise(psi, counts) and not binding
    if T.is_full_manifold(psi, counts) and not full:
        ctx.count("maximal_bonds_but_mixed_completeness")
    wrun = {k: (repr(v) if k in ("u", "opts_expmv", "times_arg") else (sorted(v) if k == "omit" else v)) for k, v in run.items()
            if k not in ("counts", "shuffle")}
    witness = {"idx": idx, "space": sp.desc(), "N": N, "H_form": hform, "H_special": special, "terms": T.terms_desc(groups), "charge": list(n),
               "sector_dim": int(len(sec.idx)), "start": sdesc, "bond_dims_start": T.total_bond_dims(psi), "full_manifold": full,
               "goal": goal, "run": wrun}
    sig = (sym, sp.family, sp.fermionic, sp.phys.sectors, N, hform, len(groups), n, sdesc["kind"], sdesc.get("D_total"), sdesc["dtype"],
           sdesc["canonical"], sdesc.get("scaled"), len(times), times[0], single_time, ukind, repr(u), method, order, repr(run["opts_expmv"]),
           repr(opts_svd), run["normalize"], run["subtract_E"], run["precompute"], run["yield_initial"], full, repr(special), tiny,
           tuple(sorted(run["omit"])))
    ctx.count("H:" + ("list" if hform == "list" else "single"))
    ctx.count("Hform:" + hform)
    ctx.count("start:" + sdesc["kind"])
    ctx.count("u:" + ukind)
    ctx.count("sym:" + sym)
    ctx.count(f"mo:{method}:{order}")
    for flag in ("normalize", "subtract_E", "precompute"):
        ctx.count(f"{flag}:{run[flag]}")
    if sp.fermionic:
        ctx.count("fermionic_cases")
    if not sdesc["canonical"]:
        ctx.count("noncanonical_starts")
    if full:
        ctx.count("full_manifold_starts")
    ctx.count(f"N={N}")
    ctx.count("omitted:" + ("all" if len(run["omit"]) > 1 else (next(iter(run["omit"])) if run["omit"] else "none")))
    if sdesc.get("scaled"):
        ctx.count("start:scaled")
    if tiny and "dt" not in run["omit"] and "times" not in run["omit"]:
        ctx.count("tiny_dt_runs")
        if min(b - a for a, b in zip(times[:-1], times[1:])) < 1e-12:
            ctx.count("intervals_below_1e-12")
    if opts_svd == {} and method != "1site":
        ctx.count("2site_or_12site_with_empty_opts_svd")
    if binding:
        ctx.count("binding_truncation_runs(bookkeeping-only)")

    psi_backup = psi.shallow_copy() if not sdesc["canonical"] else None
    psi_start = psi.shallow_copy() if (special is not None and special["special"] == "scaled") else None
    res = run_tdvp(ctx, psi, H, sec, run, "tdvp", witness, full, ref0)
    if res["bonds1"] != res["bonds0"]:
        ctx.count("bond_growth_runs")
    ctx.case(sig, len(sec.idx) >= 2 and res["snapshots"] >= 1,
             {k: witness[k] for k in ("space", "N", "H_form", "charge", "sector_dim", "start", "bond_dims_start", "full_manifold", "run")})
    failed = [f for f in res["failed"] if f[0] != "__stalled__"]
    if not failed:
        return
    if min(b - a for a, b in zip(times[:-1], times[1:])) < 1e-10:
        # the same guard can also produce zero steps: ds = (t1 - t0) / steps then divides by zero
        failed = [(("time-grid:absolute-1e-12-guard", f[1] + "  [steps = int((t1 - t0 - 1e-12) // dt) + 1 evaluated to 0]", f[2])
                   if f[0].startswith("exception:ZeroDivisionError") else f) for f in failed]
    if any(f[0].startswith("time-grid:") for f in failed):
        for key, what, w in failed:
            ctx.violation(key, what, w)
        return
    if psi_backup is not None:
        # mechanism classification: is the absence of canonisation the (only) cause?
        ctx.count("noncanonical_reruns")
        sub = type(ctx)(ctx.prop, ctx.tier, ctx.seed, mute=False)
        psic = psi_backup
        psic.canonize_(to="first", normalize=run["normalize"])       # what a canonising tdvp_ would do first
        v0c, _ = T.mps_dense(psic, sp)
        kfail = min([f[2].get("snapshot", len(times) - 1) for f in failed] + [len(times) - 1])
        run2 = dict(run, start_noncanonical=True, times=times[:kfail + 1], times_arg=tuple(times[:kfail + 1]), yield_initial=False,
                    omit=run["omit"] - {"times", "yield_initial"}, shuffle=None)
        r2 = run_tdvp(sub, psic, H, sec, run2, "tdvp(canonised copy)", witness,
                      T.exactness_premise(psic, counts), v0c[sec.idx], judge=False)
        if not r2["failed"] and not sub.violations:
            keys = sorted({f[0] for f in failed})
            ctx.violation("noncanonical-start:not-canonized",
                          f"tdvp_ started from a state that is not canonical (as produced by {sdesc['kind']}) violates {keys}; the same run from "
                          f"psi.canonize_(to='first') satisfies every clause, i.e. tdvp_ does not canonise its input although the docstring "
                          f"says it does.  First failure: {failed[0][1]}", dict(failed[0][2], failed_clauses=keys))
            return
    if psi_start is not None:
        # metamorphic classification: exp(-u t H) depends on the product t*H only.  Re-run the *same evolution* written as
        # (H / f, f * times, f * dt); if that run satisfies every clause, the failure is a dependence on the scale of H alone.
        ctx.count("rescaled_reruns")
        f = 10.0 ** special["log10"]
        sub = type(ctx)(ctx.prop, ctx.tier, ctx.seed, mute=False)
        sec1 = T.Sector(None, T.ham_dense(H_unscaled, sp), sp, N, n)
        kfail = min([ff[2].get("snapshot", len(times) - 1) for ff in failed] + [len(times) - 1])
        t2 = tuple(t * f for t in times[:kfail + 1])
        run2 = dict(run, times=t2, times_arg=t2, dt=run["dt"] * f, yield_initial=False, omit=run["omit"] - {"times", "dt", "yield_initial"},
                    shuffle=None)
        if psi_backup is not None:
            psi_start.canonize_(to="first", normalize=run["normalize"])
        v0s, _ = T.mps_dense(psi_start, sp)
        r2 = run_tdvp(sub, psi_start, H_unscaled, sec1, run2, "tdvp(rescaled)", witness, T.exactness_premise(psi_start, counts) and not binding,
                      v0s[sec1.idx], judge=False)
        if not r2["failed"] and not sub.violations:
            keys = sorted({ff[0] for ff in failed})
            ctx.violation("scale-dependence:H-scaled-" + ("down" if special["log10"] < 0 else "up"),
                          f"tdvp_ with H = 1e{special['log10']} * H0 violates {keys}, while the same evolution written as (H0, times * "
                          f"1e{special['log10']}, dt * 1e{special['log10']}) satisfies every clause: the result depends on the scale of H at "
                          f"fixed t*H (expmv decides the 'happy breakdown' of its Krylov expansion by an absolute threshold tol on the "
                          f"sub-diagonal, which has the units of H).  First failure: {failed[0][1]}", dict(failed[0][2], failed_clauses=keys))
            return
    for key, what, w in failed:
        ctx.violation(key, what, w)


# ------------------------------------------------------------------ time-dependent generators: convergence order

def run_timedep(ctx, idx, cs, sym, groups, order):
    import yastn.tn.mps as mps
    rng, nprng, sp, N = cs["rng"], cs["nprng"], cs["sp"], cs["N"]
    if len(groups) < 2:
        raise CaseSkip
    half = len(groups) // 2
    Ha = T.build_mpo(sp, N, groups[:half])
    Hb = T.build_mpo(sp, N, groups[half:])
    Hda = T.hermitian_dense_or_skip(ctx, Ha, sp)
    Hdb = T.hermitian_dense_or_skip(ctx, Hb, sp)
    n, dims = T.pick_charge(rng, sp, N, pbig=1.0)
    seca = T.Sector(ctx, Hda, sp, N, n)
    secb = T.Sector(ctx, Hdb, sp, N, n)
    if len(seca.idx) < 2:
        raise CaseSkip
    counts = T.block_counts(sp, N, n)
    scale = seca.scale + 2 * secb.scale
    t0 = rng.choice((0.0, 0.3, -0.2)) / scale
    order = rng.choice(("2nd", "4th"))
    # step sizes in the asymptotic regime but with errors well above the noise floor for three halvings
    dt0 = (rng.uniform(0.25, 0.4) if order == "2nd" else rng.uniform(0.9, 1.3)) / scale
    nst = 2
    Ttot = nst * dt0
    shape = rng.choice(("ramp", "cos"))
    c = rng.uniform(0.5, 1.0)
    if shape == "ramp":
        f = lambda t: 1.0 + c * (t - t0) / Ttot
    else:
        f = lambda t: float(np.cos(2.5 * c * (t - t0) / Ttot))
    as_list = rng.random() < 0.5
    if as_list:
        Hcall = lambda t: [Ha, f(t) * Hb]
    else:
        Hcall = lambda t: Ha + f(t) * Hb
    Hfun = lambda t: seca.Hs + f(t) * secb.Hs
    ukind, u = rng.choice(U_CHOICES)
    method = rng.choice(("1site", "2site", "12site"))
    Dfull = max(sum(min(l, r) for l, r in cc.values()) for cc in counts)
    opts_svd = {"D_total": 4 * Dfull + 8} if method != "1site" else None
    psi0 = T.make_mps(rng, nprng, sp, N, n, mode="full", dtype=rng.choice(("float64", "complex128")), counts=counts)
    psi0.canonize_(to="first")
    v0, _ = T.mps_dense(psi0, sp)
    ref0 = v0[seca.idx]
    normalize = rng.random() < 0.5
    ref = T.magnus4_propagate(Hfun, ref0, u, t0, t0 + Ttot, 400)
    if normalize:
        ref = ref / np.linalg.norm(ref)
    sec = seca
    witness = {"idx": idx, "space": sp.desc(), "N": N, "terms": T.terms_desc(groups), "split": half, "charge": list(n),
               "sector_dim": int(len(sec.idx)), "timedep": {"shape": shape, "c": c, "t0": t0, "T": Ttot, "dt0": dt0, "as_list": as_list},
               "u": repr(u), "method": method, "order": order, "normalize": normalize}
    ctx.count("order_tests")
    ctx.count("sym:" + sym)
    ctx.count("u:" + ukind)
    ctx.count(f"mo:{method}:{order}")
    ctx.count("H:" + ("list" if as_list else "single"))
    ctx.count("timedep:callable-returns-" + ("list" if as_list else "mpo"))
    if sp.fermionic:
        ctx.count("fermionic_cases")
    errs = []
    for j, div in enumerate((1, 2, 4)):
        psi = psi0.shallow_copy()
        run = {"times": (t0, t0 + Ttot), "times_arg": (t0, t0 + Ttot), "dt": dt0 / div * (1 + 1e-9), "u": u, "ukind": ukind,
               "method": method, "order": order, "opts_expmv": {"hermitian": True, "tol": 1e-13}, "opts_svd": opts_svd,
               "normalize": normalize, "subtract_E": False, "precompute": rng.random() < 0.5, "yield_initial": False,
               "counts": counts, "conserving": False, "start_noncanonical": False}
        r = run_tdvp(ctx, psi, Hcall, sec, run, f"timedep dt0/{div}", dict(witness, div=div), True, ref0, Hfun=Hfun)
        for key, what, w in r["failed"]:
            if key != "__stalled__":
                ctx.violation(key, what, w)
        if r["final"] is None or any(f[0] == "__stalled__" for f in r["failed"]):
            return
        errs.append(T.rel_diff(r["final"], ref))
    # ---- a dt that does not divide the interval is adjusted down to ds = T / ceil(T / dt): the run must coincide with the run
    # that asks for ds directly - same sampling times of the generator, same final state (seeded C10_A3: midpoint taken of
    # the requested dt, not of the adjusted step)
    m = rng.choice((2, 3))
    frac = rng.uniform(0.3, 0.7)
    pre = rng.random() < 0.5
    finals, sampled = [], []
    for lab, dt_req in (("uneven", Ttot / (m - frac)), ("even", Ttot / m * (1 + 1e-9))):
        seen = []

        def Hrec(t, seen=seen):
            seen.append(float(t))
            return Hcall(t)
        run = {"times": (t0, t0 + Ttot), "times_arg": (t0, t0 + Ttot), "dt": dt_req, "u": u, "ukind": ukind,
               "method": method, "order": order, "opts_expmv": {"hermitian": True, "tol": 1e-13}, "opts_svd": opts_svd,
               "normalize": normalize, "subtract_E": False, "precompute": pre, "yield_initial": False,
               "counts": counts, "conserving": False, "start_noncanonical": False}
        r = run_tdvp(ctx, psi0.shallow_copy(), Hrec, sec, run, f"timedep {lab} dt", dict(witness, dt_kind=lab, m=m, frac=frac), True, ref0, Hfun=Hfun)
        for key, what, w in r["failed"]:
            if key != "__stalled__":
                ctx.violation(key, what, w)
        if r["final"] is None or any(f[0] == "__stalled__" for f in r["failed"]):
            return
        finals.append(r["final"])
        sampled.append(seen)
    ctx.count("timedep:uneven_dt_pairs")
    ctx.count("timedep:generator_samples_recorded", len(sampled[0]) + len(sampled[1]))
    wu = dict(witness, m=m, frac=frac, sampled_uneven=sampled[0][:12], sampled_even=sampled[1][:12])
    tsc = abs(t0) + Ttot
    if len(sampled[0]) != len(sampled[1]) or any(abs(a - b) > 1e-7 * tsc for a, b in zip(*sampled)):
        ctx.violation("timedep:sampling-depends-on-requested-dt", f"time-dependent generator, {method}, order {order}: with dt = T/{m - frac:.3f} "
                      f"(adjusted to T/{m}) the generator is sampled at {sampled[0][:6]}..., with dt = T/{m} at {sampled[1][:6]}...", wu)
    dev = T.rel_diff(finals[0], finals[1])
    if not ctx.margin("timedep:uneven-vs-even-dt", dev, 1e-8):
        ctx.violation("timedep:state-depends-on-requested-dt", f"time-dependent generator, {method}, order {order}: the final state with "
                      f"dt = T/{m - frac:.3f} (adjusted to T/{m}) differs from the one with dt = T/{m} by {dev:.3e}", wu)
    sig = (sym, sp.family, sp.fermionic, sp.phys.sectors, N, n, "timedep", shape, as_list, ukind, method, order, normalize)
    ctx.case(sig, True, dict(witness, errors=errs))
    witness["errors"] = errs
    judge_order(ctx, errs, order, method, witness)


def judge_order(ctx, errs, order, method, witness):
    """Bounded restatement of 'converges at the stated order': each halving of dt shrinks the error by >= 2^(p-0.5)
    as long as both errors are above the noise floor (otherwise the ratio is not judged)."""
    p = 2 if order == "2nd" else 4
    need = 2 ** (p - 0.5)
    for a, b, lab in ((errs[0], errs[1], "dt->dt/2"), (errs[1], errs[2], "dt/2->dt/4")):
        if a > ORDER_FLOOR and b > ORDER_FLOOR:
            ctx.count("order_ratios_judged")
            ctx.count("order_ratios_judged:" + order)
            ratio = a / b
            ctx.margin(f"order:{order}:needed/observed-ratio", need / ratio, 1.0)
            if ratio < need:
                ctx.violation("convergence-order:" + order, f"time-dependent generator, {method}, order {order}: error {lab} shrank by "
                              f"{ratio:.2f} < 2^({p}-0.5) = {need:.2f}; errors at dt, dt/2, dt/4 = {errs}", witness)
        else:
            ctx.count("order_ratios_at_noise_floor")


# ------------------------------------------------------------------ canaries

def canaries(ctx):
    import random
    import yastn.tn.mps as mps
    rng, nprng = random.Random(11), np.random.default_rng(11)
    sp = T.named_space("U1", "spinless")
    N, n = 4, (2,)
    groups = T.draw_terms(rng, sp, N, cplx=True)
    H = T.build_mpo(sp, N, groups)
    sec = T.Sector(None, T.ham_dense(H, sp), sp, N, n)
    counts = T.block_counts(sp, N, n)

    def fresh():
        return type(ctx)(ctx.prop, ctx.tier, ctx.seed)

    def base_run(**kw):
        r = {"times": (0.0, 0.2, 0.5), "times_arg": (0.0, 0.2, 0.5), "dt": 0.13, "u": 1j, "ukind": "real-time", "method": "1site",
             "order": "2nd", "opts_expmv": None, "opts_svd": None, "normalize": False, "subtract_E": False, "precompute": False,
             "yield_initial": False, "counts": counts, "conserving": True, "start_noncanonical": False}
        r.update(kw)
        return r

    def start():
        psi = T.make_mps(random.Random(3), np.random.default_rng(3), sp, N, n, mode="full", counts=counts)
        psi.canonize_(to="first")
        v0, _ = T.mps_dense(psi, sp)
        return psi, v0[sec.idx]

    # healthy run is silent
    sub = fresh()
    psi, ref0 = start()
    r = run_tdvp(sub, psi, H, sec, base_run(), "canary", {}, True, ref0)
    ctx.canary("healthy-run-is-silent", not r["failed"] and not sub.violations and r["snapshots"] == 2 and len(r["errs_full"]) == 2)
    # reference evolved with a slightly different Hamiltonian -> full-manifold and energy clauses fire
    sub = fresh()
    psi, ref0 = start()
    sec2 = T.Sector(None, T.ham_dense(H, sp), sp, N, n)
    sec2.Hs = sec2.Hs + 1e-6 * np.diag(np.arange(len(sec2.idx)))
    r = run_tdvp(sub, psi, H, sec2, base_run(), "canary", {}, True, ref0)
    ctx.canary("perturbed-reference", any(f[0].startswith("full-manifold-mismatch") for f in r["failed"]))
    # wrong initial vector (norm / energy of another state) -> drift clauses fire
    sub = fresh()
    psi, ref0 = start()
    other = ref0 * 1.001
    other[0] += 0.05
    r = run_tdvp(sub, psi, H, sec, base_run(), "canary", {}, False, other)
    ks = {f[0] for f in r["failed"]}
    ctx.canary("drift-oracles", "norm-drift" in ks and any(x.startswith("energy-drift") for x in ks))
    # grid bookkeeping: judge a run against a different requested grid / dt
    sub = fresh()
    psi, ref0 = start()
    asked = base_run()
    # tdvp_ runs on the true grid (0, 0.2, 0.5), dt = 0.13 while the oracle is told (0, 0.25, 0.5), dt = 0.05
    lie_run = dict(asked, times=(0.0, 0.25, 0.5), dt=0.05)
    real_dt = asked["dt"]
    orig = mps.tdvp_

    def shim(psi_, H_, **kw):
        kw["dt"] = real_dt
        return orig(psi_, H_, **kw)
    mps.tdvp_ = shim
    try:
        run_tdvp(sub, psi, H, sec, lie_run, "canary", {}, False, ref0)
    finally:
        mps.tdvp_ = orig
    ks = {v["key"] for v in sub.violations}
    ctx.canary("grid-bookkeeping", {"bookkeeping:tf", "bookkeeping:steps"} <= ks)
    # watchdog: an expmv call that spins is interrupted (CPU-time timer) and surfaces as ExpmvStall
    import yastn.tn.mps._tdvp as td
    install_expmv_guard()
    psi, ref0 = start()
    keep = GUARD["seconds"]
    GUARD["seconds"] = 0.2

    def spin(x):
        while True:
            pass
    try:
        td.expmv(spin, psi[1], 0.1j)
        fired = False
    except ExpmvStall:
        fired = True
    finally:
        GUARD["seconds"] = keep
    ctx.canary("expmv-watchdog", fired)
    # sector / canonical observation
    sub = fresh()
    psi, ref0 = start()
    sec3 = T.Sector(None, T.ham_dense(H, sp), sp, N, (1,))
    observe(sub, psi, sec3, "canary", {}, True)
    bad = psi.shallow_copy()
    bad.A[2] = 1.001 * bad.A[2]
    observe(sub, bad, sec, "canary", {}, True)
    ks = {v["key"] for v in sub.violations}
    ctx.canary("sector-and-canonical", {"sector:tensor-charge", "sector:weight-outside", "not-canonical"} <= ks)
    # order oracle: a first-order error sequence must be rejected for p = 2
    sub = fresh()
    judge_order(sub, [1e-3, 2.5e-4, 6.25e-5], "4th", "canary", {})      # a 2nd-order sequence offered as 4th order
    judge_order(sub, [1e-3, 5e-4, 2.5e-4], "2nd", "canary", {})         # a 1st-order sequence offered as 2nd order
    ks = {v["key"] for v in sub.violations}
    sub2 = fresh()
    judge_order(sub2, [1e-3, 2.4e-4, 5.9e-5], "2nd", "canary", {})      # a genuine 2nd-order sequence is accepted
    ctx.canary("order-ratio", {"convergence-order:4th", "convergence-order:2nd"} <= ks and not sub2.violations)


def finalize(cov, merged):
    c = merged["counters"]
    cov["symmetries_seen"] = sorted(k[4:] for k in c if k.startswith("sym:"))
    if len(cov["symmetries_seen"]) < 7:
        cov["inconclusive_reasons"].append("not every symmetry exercised")
    cov["full_manifold_by_method_order_u"] = {k[5:]: int(v) for k, v in c.items() if k.startswith("full:")}
