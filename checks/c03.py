"""C03  Leg fusion is a faithful, reversible change of basis.

Metamorphic monitor.  Every operand is a harness tensor over *universe* legs (vmon.dense), so its unfused dense
truth is known without yastn.  A *recipe* is a list of fusion trees over the original legs (e.g. [(2, (0, 3)), 1]):
it is realised bottom-up with fuse_legs (one call per tree level, random leg order in the intermediate levels, the
modes of a *route*: hard / meta / meta-then-hard / hard-then-meta / fuse_meta_to_hard), optionally followed by a lazy
transpose of the fused legs, and undone by unfuse_legs in random rounds.  No assumption is made on the ordering
inside a fused index: all value comparisons happen (a) after unfusing, over the universe legs, (b) on
basis-independent quantities (norm, vdot, multiset of stored values, fully contracted results), or (c) between two
operands embedded by the library into the same union leg.

clauses
  round trip     unfuse(fuse(a)) == a  (bit-exact dense, legs equal incl. history, charge), ||fuse(a)|| == ||a||,
                 multiset of non-zero elements unchanged, leg histories / signatures as documented
  binary         operands over the same universe with EQUAL / OVERLAPPING / DISJOINT stored sector sets, fused by the
                 same trees (independent lazy states, independent intermediate orders, equivalent routes):
                 unfuse(fa +- fb) == a +- b, vdot(fa, fb) == vdot(a, b), tensordot over fused legs == over originals,
                 trace over fused pairs == trace over originals, to_numpy(legs=union) / legs_union / _embed relations
  partial        groups fused independently by hard / meta / no fusion (native rank <= 8, nested groups), optional lazy transpose, ONE
                 unfuse_legs call on a random subset of the fused legs (biased to two hard legs of different size around a meta leg
                 that stays fused): the INTERMEDIATE tensor is judged - histories, native constituents of every logical leg against
                 the universe legs (logical grouping), agreement with unfusing the same legs one call at a time (legs, shape,
                 elements), vdot / tensordot over the logical legs with a partner unfused leg by leg, then the round trip
  forms          the same operation written differently must give the same tensor as the reference form (which is judged against the
                 dense truth): fuse_legs axes as lists / mixed containers / (i,) for single legs, mode omitted (default_fusion hard and
                 meta) or overridden by force_fusion; unfuse_legs axes reversed / shuffled / list / with repeats / int / () (no-op);
                 drop_leg_history on plain and fused legs; all legs into one, rank-1 and rank-0 results, dimension-one legs, tensors
                 without blocks; ncon over fused legs with shuffled labels vs tensordot; block() with any dictionary insertion order,
                 order / container of common_legs, int keys, omitted common_legs
  block          yastn.block vs the harness direct sum: norm, vdot, full contraction over blocked legs, sum then
                 contraction, trace over a blocked pair; blocks of fused pieces and fusions of blocked legs; SUM-NODE MISMATCH:
                 sectors of the blocked leg removed after block() (explicit zero blocks + remove_zero_blocks, different sectors in
                 the two operands) and the blocked leg then hard-fused with a neighbour -> history p(..s(..)..) whose direct-sum
                 node differs between the operands while the constituent legs agree: vdot / tensordot / trace / round trip
  must-reject    different trees, hard vs meta, different order inside a group, different signature of an inner leg,
                 different inner dimension of a charge stored in both operands -> YastnError in + / vdot / tensordot / trace
"""
from __future__ import annotations

import itertools
import string
import sys

import numpy as np

from vmon import dense as D
from vmon import groups as G
from vmon.harness import CaseSkip
from checks.c01 import check_result, fnorm, realize, yerr

PROP = "C03"
RULE = ("case = (symmetry, kind in roundtrip/partial/forms/pair/tensordot/trace/block/reject, universe legs with 1-3 sectors of dim 1-3, block "
        "presence masks with a requested relation equal/overlapping/disjoint, fusion trees: ALL ordered partitions of rank<=4 at "
        "depth 1 (enumerated over 7 symmetries x 3 routes) and sampled trees of rank<=6, depth<=3, route hard/meta/meta-then-hard/"
        "hard-then-meta/fuse_meta_to_hard, lazy state of every operand and of the fused tensor, tensordot policy); distinct = hash "
        "of (kind, symmetry, legs, stored block keys, trees, routes, lazy states); non-trivial = some operand stores a block and "
        "at least one fused leg exists")
ASSUMPTIONS = ["harness dense images are built from the same blocks passed to set_block (no to_numpy involved)",
               "to_numpy(legs=universe legs) of a completely UNFUSED result is the observation function (cross-validated by C01c)",
               "NumPy einsum/tensordot/vdot on arrays of <= 4096 elements is the truth",
               "nothing is assumed on the order of elements inside a fused or blocked index"]
EPS = 2.3e-16
POLICIES = ("fuse_to_matrix", "fuse_contracted", "no_fusion")
ENUM_ROUTES = ("hard", "meta", "fuse_meta_to_hard")
STRIDE_QUICK = 11
N_SAMPLED = {"quick": 8960, "thorough": 134400}
KINDS = ("roundtrip", "pair", "tensordot", "roundtrip", "trace", "block", "pair", "reject",
         "partial", "tensordot", "block", "reject", "roundtrip", "pair", "trace", "forms")


# ------------------------------------------------------------------ trees

def leaves(T):
    return [x for c in T for x in leaves(c)] if isinstance(T, tuple) else [T]


def height(T):
    return 1 + max(height(c) for c in T) if isinstance(T, tuple) else 0


def nodes_of(T):
    """All internal nodes of a tree (children before parents)."""
    if isinstance(T, tuple):
        for c in T:
            yield from nodes_of(c)
        yield T


def relabel(T, m):
    return tuple(relabel(c, m) for c in T) if isinstance(T, tuple) else m[T]


def hist(T, kind):
    return kind(T) + "(" + "".join(hist(c, kind) for c in T) + ")" if isinstance(T, tuple) else "o"


def depth_of(trees):
    return max([height(T) for T in trees] or [0])


def flat_of(trees):
    return [x for T in trees for x in leaves(T)]


def enum_depth1():
    """Every ordered partition of the legs of a rank 1..4 tensor into groups of consecutive (after permutation) legs."""
    out = []
    for r in range(1, 5):
        for perm in itertools.permutations(range(r)):
            for mask in range(1 << (r - 1)):
                groups, cur = [], [perm[0]]
                for i in range(1, r):
                    if (mask >> (i - 1)) & 1:
                        groups.append(cur)
                        cur = [perm[i]]
                    else:
                        cur.append(perm[i])
                groups.append(cur)
                out.append(tuple(tuple(g) if len(g) > 1 else g[0] for g in groups))
    return out


ENUM = enum_depth1()
N_ENUM_FULL = len(ENUM) * len(G.ALL_SYMS) * len(ENUM_ROUTES)      # 221 * 7 * 3 = 4641
assert len(ENUM) == 1 + 4 + 24 + 192


def n_enum(tier):
    return N_ENUM_FULL if tier == "thorough" else len(range(0, N_ENUM_FULL, STRIDE_QUICK))


def gen_trees(rng, items, depth, must_fuse=True):
    """Forward random generation: `depth` rounds of (permute, cut into groups of consecutive legs)."""
    items = list(items)
    for rnd in range(depth):
        if len(items) < 2:
            break
        rng.shuffle(items)
        cuts = [rng.random() < 0.55 for _ in range(len(items) - 1)]
        if must_fuse and all(cuts):
            cuts[rng.randrange(len(cuts))] = False
        if rnd > 0 and rng.random() < 0.7:
            # fuse the fused: make sure an already fused item is grouped with a neighbour (height grows)
            nest = [i for i, it in enumerate(items) if isinstance(it, tuple)]
            if nest:
                i = rng.choice(nest)
                cuts[min(i, len(cuts) - 1)] = False
        groups, cur = [], [items[0]]
        for it, c in zip(items[1:], cuts):
            if c:
                groups.append(cur)
                cur = [it]
            else:
                cur.append(it)
        groups.append(cur)
        items = [tuple(g) if len(g) > 1 else g[0] for g in groups]
    return items


def single_tree(rng, items, depth):
    """One tree containing all items (a fused group), height <= depth."""
    items = list(items)
    if len(items) == 1:
        return items[0]
    t = gen_trees(rng, items, depth - 1) if depth > 1 and len(items) > 2 else items
    if len(t) == 1:
        return t[0]
    t = list(t)
    rng.shuffle(t)
    return tuple(t)


# ------------------------------------------------------------------ routes: which fuse_legs modes realise the trees

def pick_target(rng, d):
    """Final kind of every internal node: all hard ('p'), all meta ('m'), or hard up to height j and meta above."""
    r = rng.random()
    if d >= 2 and r < 0.3:
        return ("split", rng.randint(1, d - 1))
    if r < 0.5:
        return ("all-m", None)
    return ("all-p", None)


def kind_fn(target):
    tg, j = target
    if tg == "all-p":
        return lambda T: "p"
    if tg == "all-m":
        return lambda T: "m"
    return lambda T: "p" if height(T) <= j else "m"


def pick_route(rng, target, d, force=None):
    """(level modes, finishing step, route name) for an operand whose deepest tree has height d."""
    tg, j = target
    if tg == "all-m":
        return ["meta"] * d, None, "meta"
    if tg == "split":
        return ["hard"] * min(j, d) + ["meta"] * max(0, d - j), None, "hard-then-meta"
    r = force or rng.choice(("hard", "hard", "meta-then-hard", "fuse_meta_to_hard"))
    if r == "hard":
        return ["hard"] * d, None, r
    if r == "fuse_meta_to_hard":
        return ["meta"] * d, "fuse_meta_to_hard", r
    if d >= 2:
        k = rng.randint(1, d - 1)
        return ["meta"] * k + ["hard"] * (d - k), None, r
    return ["meta"] * d, "hard-identity", r


def apply_recipe(y, trees, route, rng):
    """Realise `trees` on tensor y (logical legs 0..rank-1) bottom-up; intermediate leg orders are random."""
    modes, finish, _ = route
    d = depth_of(trees)
    items = sorted(flat_of(trees))
    if d == 0:
        y = y.fuse_legs(axes=tuple(items.index(T) for T in trees), mode=(modes[0] if modes else rng.choice(("hard", "meta"))))
    for h in range(1, d + 1):
        now = [N for T in trees for N in nodes_of(T) if height(N) == h]
        consumed = [c for N in now for c in N]
        new_items = [it for it in items if it not in consumed] + now
        if h == d:
            new_items = list(trees)
        else:
            rng.shuffle(new_items)
        axes = tuple(tuple(items.index(c) for c in it) if it in now else items.index(it) for it in new_items)
        y = y.fuse_legs(axes=axes, mode=modes[h - 1])
        items = new_items
    if finish == "fuse_meta_to_hard":
        y = y.fuse_meta_to_hard()
    elif finish == "hard-identity":
        y = y.fuse_legs(axes=tuple(range(y.ndim)), mode="hard")
    return y


def post_transpose(rng, y, trees, q=None, state=None):
    """Lazy (or consumed / copied) transpose of the fused tensor; returns the tensor and the permuted trees."""
    m = len(trees)
    state = state or rng.choice(("lazy", "lazy", "lazy", "lazy", "consumed", "copy", "none"))
    if m < 2 or state == "none":
        return y, list(trees), "none"
    if q is None:
        q = list(range(m))
        rng.shuffle(q)
    y = y.transpose(tuple(q))
    if state == "consumed":
        y = y.consume_transpose()
    elif state == "copy":
        y = y.copy()
    return y, [trees[i] for i in q], state


def unfuse_all(ctx, y, trees, rng, partial=True):
    """Undo every fusion layer in random rounds (random subsets / order of axes, int form for a single axis)."""
    trees = list(trees)
    rounds = 0
    while any(isinstance(T, tuple) for T in trees):
        fused = [i for i, T in enumerate(trees) if isinstance(T, tuple)]
        pick = fused if (not partial or rng.random() < 0.7) else rng.sample(fused, rng.randint(1, len(fused)))
        pick = list(pick)
        rng.shuffle(pick)
        if len(pick) > 1:
            ctx.count("unfuse_calls_multi_axes")
        ax = pick[0] if (len(pick) == 1 and rng.random() < 0.5) else tuple(pick)
        if any(not (0 <= i < y.ndim) for i in pick):
            ctx.count("unfuse_calls_with_invalid_axes")         # must stay 0: negative / out-of-range axes are silently ignored by unfuse_legs
        lazy = tuple(y.trans) != tuple(range(y.ndim_n))
        if lazy and len(pick) > 1:
            ctx.count("unfuse_multi_axes_on_lazy_tensor")
        y = y.unfuse_legs(axes=ax)
        new = []
        for i, T in enumerate(trees):
            if i in pick:
                new.extend(T)
            else:
                new.append(T)
        trees = new
        rounds += 1
        ctx.count("unfuse_rounds")
        if partial and len(trees) > 1 and rng.random() < 0.15:
            y, trees, _ = post_transpose(rng, y, trees, state="lazy")
    return y, trees


# ------------------------------------------------------------------ observations that need no basis convention

def nonzeros_sorted(x):
    x = np.asarray(x).ravel()
    return np.sort(x[x != 0])


def same_multiset(x, y):
    a, b = nonzeros_sorted(x), nonzeros_sorted(y)
    return a.shape == b.shape and np.array_equal(a, b)


def check_fused(E, label, a, f, trees, kind):
    """Invariants of a fused tensor against the unfused truth `a` (HTensor)."""
    ctx = E.ctx
    if f.ndim != len(trees):
        ctx.violation("fused-rank", f"{label}: fused tensor has {f.ndim} legs, recipe has {len(trees)}", E.sample(label))
        return False
    if tuple(f.n) != tuple(a.n):
        ctx.violation("fused-charge", f"{label}: total charge {f.n} after fusion, {a.n} before", E.sample(label))
    legs = f.get_legs()
    hs = [l.history() for l in legs]
    eh = [hist(T, kind) for T in trees]
    if hs != eh:
        ctx.violation("fused-history", f"{label}: leg histories {hs}, expected {eh} from the fusion recipe", E.sample(label))
        return False
    sg = tuple(f.get_signature())
    es = tuple(a.legs[leaves(T)[0]].s for T in trees)
    if sg != es:
        ctx.violation("fused-signature", f"{label}: signature {sg}, expected that of the first leg of every group {es}", E.sample(label))
    for l, T in zip(legs, trees):
        if l.is_fused() != isinstance(T, tuple):
            ctx.violation("fused-is_fused", f"{label}: is_fused() = {l.is_fused()} for tree {T}", E.sample(label))
    da = a.dense()
    na, nf = fnorm(da), float(f.norm())
    if not ctx.margin("norm", abs(na - nf), 1e-12 * max(1.0, na)):
        ctx.violation("norm-changed:fuse_legs", f"{label}: norm {nf!r} after fusion, {na!r} before", E.sample(label))
    if f.size <= 20000 and not same_multiset(f.to_numpy(), da):
        ctx.violation("elements-changed:fuse_legs", f"{label}: the multiset of non-zero elements of the fused tensor differs from the original",
                      E.sample(label))
    fusedpos = [i for i, T in enumerate(trees) if isinstance(T, tuple) and kind(T) == "p"]
    if fusedpos:
        # Leg.unfuse_leg() (= undo_leg_product) of a hard-fused leg == the legs that unfuse_legs() actually produces there (one layer)
        i = fusedpos[E.rng.randrange(len(fusedpos))]
        k = len(trees[i])
        sub = tuple(legs[i].unfuse_leg())
        got = tuple(f.unfuse_legs(axes=i).get_legs()[i:i + k])
        if sub != got:
            ctx.violation("leg-unfuse_leg-vs-unfuse_legs", f"{label}: Leg.unfuse_leg() of leg {i} gives {sub}, unfuse_legs gives {got}", E.sample(label))
        ctx.count("leg_unfuse_leg_checks")
        import yastn
        back = tuple(yastn.undo_leg_product(yastn.leg_product(*sub)))
        if back != sub:
            ctx.violation("leg_product-roundtrip", f"{label}: undo_leg_product(leg_product(*legs)) != legs for {sub}", E.sample(label))
        ctx.count("leg_product_roundtrips")
    ctx.count("fused_tensors_checked")
    return True


def check_unfused(E, op, r, e, tol=0.0, orig=None, accessors=False):
    """r: completely unfused yastn tensor; e: expected HTensor-like (dense, legs, n) triple."""
    dense, legs, n = e
    check_result(E.ctx, op, r, dense, legs, n, tol=tol, sample=E.sample(op), accessors=accessors)
    if r.ndim == len(legs):
        hs = [l.history() for l in r.get_legs()]
        if any(h != "o" for h in hs):
            E.ctx.violation("unfused-history:" + op, f"{op}: legs still carry a fusion history after complete unfusion: {hs}", E.sample(op))
        if orig is not None and tuple(r.get_legs()) != tuple(orig):
            E.ctx.violation("roundtrip-legs", f"{op}: legs after unfuse(fuse(a)) differ from the legs of a: {r.get_legs()} vs {orig}",
                            E.sample(op))


def legs_differ(fa, fb, ia=None, ib=None):
    """Do corresponding logical legs of two fused operands differ in sector content (mask / embedding needed)?"""
    la, lb = fa.get_legs(), fb.get_legs()
    ia = range(len(la)) if ia is None else ia
    ib = range(len(lb)) if ib is None else ib
    return any(_leg_sig(la[i]) != _leg_sig(lb[j]) for i, j in zip(ia, ib))


def _leg_sig(l):
    if hasattr(l, "legs"):
        return ("m", tuple(_leg_sig(x) for x in l.legs))
    return (l.t, l.D, l.hf.t, l.hf.D)


ADD_LAZY_KEY = "add:result-depends-on-pending-transpose"


def guarded_add(E, name, fs, f):
    """f(list of tensors) -> their sum / difference / linear combination.

    Differential classifier for one mechanism: when ALL operands carry the same non-identity pending transpose,
    addition does not consume it; the result must still equal the sum of the consume_transpose()d operands
    (same legs, charge and elements).  A disagreement (or an exception raised only in the lazy state) is reported under
    ADD_LAZY_KEY and the remaining clauses of the case continue with the reference sum."""
    ctx = E.ctx
    t0 = tuple(fs[0].trans)
    if t0 == tuple(range(fs[0].ndim_n)) or any(tuple(x.trans) != t0 for x in fs):
        return f(fs)
    ctx.count("additions_with_common_pending_transpose")
    ref = f([x.consume_transpose() for x in fs])
    try:
        s = f(fs)
        same = (tuple(s.get_legs()) == tuple(ref.get_legs()) and tuple(s.n) == tuple(ref.n)
                and np.array_equal(s.to_numpy(), ref.to_numpy()))
        how = "differs from the sum of the consume_transpose()d operands (legs, charge or elements)"
    except Exception as ex:      # classified and reported, never swallowed
        same, how = False, f"raises {type(ex).__name__}: {ex}, while the consume_transpose()d operands add up fine"
    if not same:
        ctx.violation(ADD_LAZY_KEY, f"{name}: the sum of operands that all carry the pending transpose {t0} {how}", E.sample(name))
        return ref
    return s


# ------------------------------------------------------------------ case environment

class Env:
    def __init__(self, ctx, idx, sym, kind):
        self.ctx, self.idx, self.sym, self.kind = ctx, idx, sym, kind
        self.rng, self.nprng = ctx.rng(idx), ctx.nprng(idx)
        self.policy = self.rng.choice(POLICIES)
        self.cfg = D.make_cfg(sym, False, tensordot_policy=self.policy)
        self.big = ctx.tier == "thorough"
        self.tight = sym != "dense" and self.rng.random() < 0.4
        self.box = list(itertools.product(*(((0, 1, 2) if m == 3 else (0, 1)) for m in G.MODULI[sym])))
        if self.tight:
            ctx.count("cases_with_tight_charge_box")
        self.states, self.info, self.operands = [], {}, []
        self._desc = (None, None)

    def leg(self, s=None, small=False):
        if self.tight:
            # few distinct charges: many sector combinations fuse to the same effective charge (degenerate fused sectors,
            # inner charges present in one operand only while all their constituents are present in both)
            return D.gen_leg(self.rng, self.sym, s=s, nsec=(2, 2) if small else (2, 3), dmax=2, box=self.box)
        return D.gen_leg(self.rng, self.sym, s=s, nsec=(1, 2) if small else (1, 3), dmax=2 if small else 3)

    def real(self, ht, state=None):
        y, st = realize(ht, self.rng, self.cfg, state)
        self.states.append(st)
        if st != "plain":
            self.ctx.count("lazy_operands")
        return y

    def sample(self, op=None, values=True):
        key = (tuple(id(h) for h in self.operands), values)
        if self._desc[0] != key:
            self._desc = (key, [h.desc(values=values) for h in self.operands])
        return {"kind": self.kind, "op": op, "sym": self.sym, "policy": self.policy, "lazy": list(self.states), **self.info,
                "operands": self._desc[1]}

    def done(self, nontrivial=True, extra=()):
        sig = (self.kind, self.sym, tuple(h.sig() for h in self.operands), tuple(self.states), repr(sorted(self.info.items(), key=str)), extra)
        self.ctx.case(sig, nontrivial, self.sample(values=False))
        self.ctx.count("kind:" + self.kind)


def relation(Sa, Sb):
    Sa, Sb = set(Sa), set(Sb)
    if Sa == Sb:
        return "equal"
    return "overlapping" if Sa & Sb else "disjoint"


def sector_sets(rng, keys, target):
    """Two block-presence sets over the same allowed keys with the requested relation where feasible."""
    keys = list(keys)
    if not keys:
        return set(), set()
    if target == "equal" or len(keys) == 1:
        S = set(rng.sample(keys, rng.randint(1, len(keys))))
        return S, set(S)
    rng.shuffle(keys)
    if target == "disjoint":
        k = rng.randint(1, len(keys) - 1)
        return set(keys[:k]), set(keys[k:k + rng.randint(1, len(keys) - k)])
    c = rng.randint(1, len(keys) - 1)
    common, rest = set(keys[:c]), keys[c:]
    ea = {x for x in rest if rng.random() < 0.5}
    eb = {x for x in rest if x not in ea and rng.random() < 0.7}
    if not ea and not eb:
        ea = {rest[0]}
    return common | ea, common | eb


def draw_rank(E, lo, hi):
    if E.rng.random() < (0.25 if E.big else 0.2):
        return E.rng.randint(max(lo, 5), 6 if E.big else 5) if hi >= 4 else E.rng.randint(lo, hi)
    return E.rng.randint(lo, hi)


def draw_depth(E):
    return E.rng.choice((1, 1, 2, 2, 3, 3))


def perm_dense(x, legs, flat):
    return np.transpose(x, flat) if len(flat) else x, [legs[i] for i in flat]


# ------------------------------------------------------------------ kind: round trip

def roundtrip(E, a, trees, target, route, label="roundtrip"):
    ctx, rng = E.ctx, E.rng
    E.operands = [a]
    E.info = {"trees": repr(trees), "target": list(target), "route": route[2], "levels": route[0], "finish": route[1]}
    ya = E.real(a)
    orig = ya.get_legs()
    f = apply_recipe(ya, trees, route, rng)
    if not check_fused(E, label, a, f, trees, kind_fn(target)):
        return
    f, trees_q, st = post_transpose(rng, f, trees)
    E.info["post"] = st
    E.states.append("post:" + st)
    if st in ("lazy", "copy"):
        ctx.count("fused_lazily_transposed")
    r, flat = unfuse_all(ctx, f, trees_q, rng)
    e, legs = perm_dense(a.dense(), a.legs, flat)
    check_unfused(E, "roundtrip", r, (e, legs, a.n), orig=[orig[i] for i in flat] if a.rank else [], accessors=rng.random() < 0.08)
    ctx.count("round_trips")
    ctx.count("route:" + route[2])
    ctx.count("depth:%d" % depth_of(trees))
    ctx.count("rank:%d" % a.rank)
    E.done(nontrivial=len(a.blocks) > 0 and depth_of(trees) > 0)


def case_enumerated(ctx, idx):
    e = idx if ctx.tier == "thorough" else (idx * STRIDE_QUICK + ctx.seed) % N_ENUM_FULL
    trees = list(ENUM[e % len(ENUM)])
    sym = G.ALL_SYMS[(e // len(ENUM)) % len(G.ALL_SYMS)]
    rname = ENUM_ROUTES[e // (len(ENUM) * len(G.ALL_SYMS))]
    E = Env(ctx, idx, sym, "roundtrip-enumerated")
    rank = len(flat_of(trees))
    legs = [E.leg() for _ in range(rank)]
    a = D.gen_tensor(E.rng, E.nprng, sym, legs=legs, nmode="fit", density=E.rng.choice((1.0, 0.7, 0.4)))
    d = depth_of(trees)
    target = ("all-m", None) if rname == "meta" else ("all-p", None)
    route = pick_route(E.rng, target, d, force=None if rname == "meta" else rname)
    roundtrip(E, a, trees, target, route)
    ctx.count("enumerated_roundtrips")
    ctx.count(f"sym:roundtrip-enumerated:{sym}")


def case_roundtrip(E):
    rank = draw_rank(E, 2, 4)
    legs = [E.leg(small=rank > 4) for _ in range(rank)]
    a = D.gen_tensor(E.rng, E.nprng, E.sym, legs=legs, density=E.rng.choice((1.0, 0.7, 0.4)),
                     nmode=E.rng.choice(("fit", "fit", "fit", "fit", "zero", "any")))
    trees = gen_trees(E.rng, range(rank), draw_depth(E))
    d = depth_of(trees)
    target = pick_target(E.rng, d)
    roundtrip(E, a, trees, target, pick_route(E.rng, target, d))


# ------------------------------------------------------------------ kind: partial unfuse of mixed hard / meta fused tensors

def apply_mixed(y, trees, kinds):
    """Realise trees whose internal nodes carry INDEPENDENT kinds ('p' hard / 'm' meta; descendants of a 'p' node are 'p'):
    hard nodes bottom-up first (a hard call would convert meta fusions), then meta nodes bottom-up.  The first call brings
    the legs into the final flattened order."""
    flat = flat_of(trees)
    items = sorted(flat)
    nodes = [N for T in trees for N in nodes_of(T)]
    calls = [(k, h) for k in ("p", "m") for h in range(1, depth_of(trees) + 1) if any(kinds[N] == k and height(N) == h for N in nodes)]
    if not calls:
        return y.fuse_legs(axes=tuple(items.index(x) for x in flat), mode="meta")
    for k, h in calls:
        now = [N for N in nodes if kinds[N] == k and height(N) == h]
        consumed = [c for N in now for c in N]
        new_items = [it for it in items if it not in consumed] + now
        new_items.sort(key=lambda it: flat.index(leaves(it)[0]))
        axes = tuple(tuple(items.index(c) for c in it) if it in now else items.index(it) for it in new_items)
        y = y.fuse_legs(axes=axes, mode="hard" if k == "p" else "meta")
        items = new_items
    assert items == list(trees)
    return y


def gen_mixed(rng, special):
    """3-4 groups of 1-3 legs (native rank <= 8), mode of every group chosen independently; size-3 groups may be nested, and the
    inner pair of a meta group may itself be hard-fused.  special: [hard(k1), meta, hard(k2 != k1)] in this logical order."""
    if special:
        k1, k2 = rng.sample((2, 3), 2)
        spec = [("p", k1), ("m", rng.randint(2, 3)), ("p", k2)]
        if sum(k for _, k in spec) <= 7 and rng.random() < 0.4:
            spec.insert(rng.randrange(4), (rng.choice(("o", "o", "m")), 1))
    else:
        while True:
            spec = [(rng.choice(("p", "p", "m", "m", "o")), rng.randint(1, 3)) for _ in range(rng.randint(3, 4))]
            if sum(k for _, k in spec) <= 8 and sum(k > 1 and m != "o" for m, k in spec) >= 2:
                break
    rank = sum(k if m != "o" else 1 for m, k in spec)
    perm = list(range(rank))
    rng.shuffle(perm)
    trees, kinds, pos = [], {}, 0
    for m, k in spec:
        if m == "o" or k == 1:
            trees.append(perm[pos])
            pos += 1
            continue
        g = perm[pos:pos + k]
        pos += k
        if k == 3 and rng.random() < 0.35:
            inner = tuple(g[:2]) if rng.random() < 0.5 else tuple(g[1:])
            T = (inner, g[2]) if inner == tuple(g[:2]) else (g[0], inner)
            kinds[inner] = "p" if (m == "p" or rng.random() < 0.6) else "m"
        else:
            T = tuple(g)
        kinds[T] = m
        trees.append(T)
    return trees, kinds, spec


def constituents_ok(leg, T, kinds, ulegs):
    """The native constituents of one logical leg against the expected tree: unfused constituents must be sub-legs of the universe
    legs of exactly the expected original legs (this is what a wrong meta-fusion bookkeeping breaks), hard-fused ones must hold
    the expected number of original legs."""
    exp = []          # maximal 'p' subtrees / leaves in order

    def walk(N):
        if isinstance(N, tuple) and kinds[N] == "m":
            for c in N:
                walk(c)
        else:
            exp.append(N)
    walk(T)
    got = list(leg.legs) if hasattr(leg, "legs") else [leg]
    if len(got) != len(exp):
        return f"{len(got)} native constituents, expected {len(exp)}"
    for g, N in zip(got, exp):
        if isinstance(N, tuple):
            if g.hf.tree[0] != len(leaves(N)):
                return f"hard-fused constituent holds {g.hf.tree[0]} original legs, expected {len(leaves(N))}"
            if g.s != ulegs[leaves(N)[0]].s:
                return "signature of a hard-fused constituent"
        else:
            if g.hf.tree[0] != 1:
                return f"constituent for original leg {N} is fused ({g.history()})"
            bad = D.sub_leg_ok(g, ulegs[N])
            if bad:
                return f"constituent expected to be original leg {N}: {bad}"
    return None


def check_grouping(E, label, r, trees, kinds, ulegs):
    ctx = E.ctx
    if r.ndim != len(trees):
        ctx.violation("partial-unfuse:rank", f"{label}: {r.ndim} logical legs, expected {len(trees)} ({trees})", E.sample(label))
        return False
    legs = r.get_legs()
    hs, eh = [l.history() for l in legs], [hist(T, lambda N: kinds[N]) for T in trees]
    if hs != eh:
        ctx.violation("partial-unfuse:history", f"{label}: leg histories {hs}, expected {eh}", E.sample(label))
        return False
    for i, (l, T) in enumerate(zip(legs, trees)):
        bad = constituents_ok(l, T, kinds, ulegs)
        if bad:
            ctx.violation("partial-unfuse:grouping", f"{label}: logical leg {i} (expected to hold original legs {leaves(T)}): {bad}", E.sample(label))
            return False
    return True


def case_partial(E):
    """ONE unfuse_legs call on a random subset of the fused legs of a tensor whose groups are hard-, meta- or not fused
    independently; the INTERMEDIATE tensor is judged (logical grouping, histories, shape, elements, contraction with a partner)."""
    import yastn
    ctx, rng = E.ctx, E.rng
    special = rng.random() < 0.45
    trees, kinds, spec = gen_mixed(rng, special)
    rank = len(flat_of(trees))
    legs = [D.gen_leg(rng, E.sym, nsec=(1, 2), dmax=1 if rank > 6 else 2, box=E.box if E.sym != "dense" else None) if E.sym != "dense"
            else D.HLeg("dense", rng.choice((-1, 1)), [((), rng.randint(1, 2))]) for _ in range(rank)]
    n = D.gen_n(rng, E.sym, legs, "fit")
    dt = rng.choice(("float64", "complex128"))
    a = D.gen_tensor(rng, E.nprng, E.sym, legs=legs, n=n, dtype=dt, density=rng.choice((1.0, 0.7, 0.5)))
    b = D.gen_tensor(rng, E.nprng, E.sym, legs=legs, n=n, dtype=dt, density=rng.choice((1.0, 0.7)))
    E.operands = [a, b]
    E.info = {"trees": repr(trees), "kinds": repr(sorted(kinds.items(), key=str)), "special": special}
    fa = apply_mixed(E.real(a), trees, kinds)
    fb = apply_mixed(E.real(b), trees, kinds)
    if not check_grouping(E, "fused", fa, trees, kinds, legs):
        return
    q = list(range(len(trees)))
    if not special and rng.random() < 0.6:
        rng.shuffle(q)
    st = rng.choice(("lazy", "lazy", "consumed", "none"))
    if q != sorted(q) and st != "none":
        fa, fb = fa.transpose(tuple(q)), fb.transpose(tuple(q))
        if st == "consumed":
            fa = fa.consume_transpose()
        cur = [trees[i] for i in q]
    else:
        cur, st = list(trees), "none"
    E.states.append("post:" + st)
    fused = [i for i, T in enumerate(cur) if isinstance(T, tuple)]
    if special:
        pick = [i for i in fused if kinds[cur[i]] == "p"]                   # both hard legs, the meta leg between them stays fused
    else:
        pick = rng.sample(fused, rng.randint(1, len(fused)))
    rng.shuffle(pick)
    E.info["unfuse"] = list(pick)
    hard = sorted(i for i in pick if kinds[cur[i]] == "p")
    if len(hard) >= 2:
        ctx.count("partial_unfuse_several_hard_legs")
        for i, j in zip(hard, hard[1:]):
            if len(cur[i]) != len(cur[j]) and any(isinstance(cur[k], tuple) and kinds[cur[k]] == "m" and k not in pick for k in range(i + 1, j)):
                ctx.count("partial_unfuse_meta_between_unequal_hard")
                break
    # the call under test
    r = fa.unfuse_legs(axes=pick[0] if (len(pick) == 1 and rng.random() < 0.5) else tuple(pick))
    new = []
    for i, T in enumerate(cur):
        new.extend(T) if i in pick else new.append(T)
    ctx.count("partial_unfuse_calls")
    ok = check_grouping(E, "partially unfused", r, new, kinds, legs)
    # reference route: the same legs, one call at a time (highest index first, so that the indices stay valid)
    ra, rb = fa, fb
    for i in sorted(pick, reverse=True):
        ra, rb = ra.unfuse_legs(axes=i), rb.unfuse_legs(axes=i)
    if tuple(r.get_shape()) != tuple(ra.get_shape()) or tuple(r.get_legs()) != tuple(ra.get_legs()):
        ctx.violation("partial-unfuse:one-call-vs-one-by-one:legs", f"unfuse_legs(axes={pick}) gives logical shape {r.get_shape()}, unfusing the same legs "
                      f"one call at a time gives {ra.get_shape()} (legs or their grouping differ)", E.sample("partial"))
        ok = False
    elif not np.array_equal(r.to_numpy(), ra.to_numpy()):
        ctx.violation("partial-unfuse:one-call-vs-one-by-one:elements", f"unfuse_legs(axes={pick}) and one call per leg give different dense arrays",
                      E.sample("partial"))
        ok = False
    if not ok:
        # the logical structure of the intermediate tensor is already refuted: contractions with it would only add follow-up noise
        ctx.count("partial_unfuse_cases")
        E.done(nontrivial=bool(a.blocks), extra=(tuple(pick), st))
        return
    # full contraction over the logical legs with a partner fused and (one by one) unfused the same way
    da, db = a.dense(), b.dense()
    v = yastn.vdot(rb, r)
    ev = np.vdot(db, da)
    tol = 8 * EPS * (da.size + 2) * max(fnorm(da) * fnorm(db), 1e-300)
    if not ctx.margin("arith:partial-vdot", abs(complex(v) - complex(ev)), tol):
        ctx.violation("value:partial-vdot", f"vdot over the logical legs of the partially unfused tensors {v}, over the original legs {ev}", E.sample("partial"))
    # contraction over the legs that are still fused (and one more), the rest compared after complete unfusing
    still = [i for i, T in enumerate(new) if isinstance(T, tuple)]
    if still and ok:
        ax = sorted(set(still + [rng.randrange(len(new))]))
        t = yastn.tensordot(r, rb, axes=(tuple(ax), tuple(ax)), conj=(0, 1))
        rem = [T for i, T in enumerate(new) if i not in ax]
        rem2 = rem + [relabel(T, {x: rank + x for x in range(rank)}) for T in rem]
        t, flat = unfuse_all(ctx, t, rem2, rng)
        cl = [x for i in ax for x in leaves(new[i])]
        e = np.tensordot(da, np.conj(db), axes=(cl, cl))
        keep = [x for x in range(rank) if x not in cl]
        so = keep + [rank + x for x in keep]
        e = np.transpose(e, [so.index(x) for x in flat]) if flat else e
        lg = [legs[x] if x < rank else legs[x - rank].conj() for x in flat]
        K = int(np.prod([legs[x].dim for x in cl]))
        check_unfused(E, "partial-tensordot", t, (e, lg, G.add(E.sym, (n, n), (1, -1))), tol=8 * EPS * (K + 2) * max(fnorm(da) * fnorm(db), 1e-300))
        ctx.count("binary_ops")
    # and the round trip: unfusing what is left restores the original tensor
    z, flat = unfuse_all(ctx, r, new, rng)
    e, lg = perm_dense(da, legs, flat)
    check_unfused(E, "roundtrip", z, (e, lg, n))
    ctx.count("round_trips")
    ctx.count("partial_unfuse_cases")
    ctx.count("rank:%d" % rank)
    E.done(nontrivial=bool(a.blocks), extra=(tuple(pick), st))


# ------------------------------------------------------------------ kind: API forms (container order / type, omitted arguments, degenerate values)

def same_tensor(E, key, what, r, ref, tol=0.0):
    """Differential equality of two yastn tensors (legs incl. history, charge, elements)."""
    ctx = E.ctx
    ctx.count("form_comparisons")
    if r.ndim != ref.ndim or tuple(r.get_legs()) != tuple(ref.get_legs()) or tuple(r.n) != tuple(ref.n):
        ctx.violation("form:" + key + ":legs", f"{what}: legs / charge differ from the reference form: {r.get_legs()} vs {ref.get_legs()}", E.sample(key))
        return False
    x, y = r.to_numpy(), ref.to_numpy()
    good = np.array_equal(x, y) if tol == 0.0 else (x.shape == y.shape and ctx.margin("arith:form-" + key, float(np.max(np.abs(x - y))) if x.size else 0.0, tol))
    if not good:
        ctx.violation("form:" + key + ":elements", f"{what}: elements differ from the reference form", E.sample(key))
        return False
    return True


def as_lists(axes, rng):
    """The same axes written with lists, mixed containers and one-element groups for single legs."""
    out = []
    for g in axes:
        if isinstance(g, tuple):
            out.append(list(g) if rng.random() < 0.6 else g)
        else:
            out.append(g if rng.random() < 0.5 else ([g] if rng.random() < 0.5 else (g,)))
    return out if rng.random() < 0.6 else tuple(out)


def case_forms(E):
    import yastn
    ctx, rng = E.ctx, E.rng
    rank = rng.randint(2, 5)
    legs = []
    for _ in range(rank):
        l = E.leg(small=rank > 3)
        if rng.random() < 0.3:                      # dimension-one leg: a single sector of dimension 1
            l = D.HLeg(E.sym, l.s, [(l.ts[0], 1)])
            ctx.count("forms_dimension_one_legs")
        legs.append(l)
    n = D.gen_n(rng, E.sym, legs, "fit")
    dt = rng.choice(("float64", "complex128"))
    dens = rng.choice((1.0, 0.7, 0.4, 0.0))
    a = D.gen_tensor(rng, E.nprng, E.sym, legs=legs, n=n, dtype=dt, density=dens)
    b = D.gen_tensor(rng, E.nprng, E.sym, legs=legs, n=n, dtype=dt, density=rng.choice((1.0, 0.7)))
    if not a.blocks:
        ctx.count("forms_tensor_without_blocks")
    trees = gen_trees(rng, range(rank), 1)
    mode = rng.choice(("hard", "meta"))
    other = "meta" if mode == "hard" else "hard"
    kind = kind_fn(("all-p", None) if mode == "hard" else ("all-m", None))
    axes = tuple(trees)
    E.operands = [a, b]
    E.info = {"axes": repr(axes), "mode": mode}
    ya, yb = E.real(a), E.real(b)
    # reference form: nested tuples, explicit mode; judged against the dense truth
    ref = ya.fuse_legs(axes=axes, mode=mode)
    fb = yb.fuse_legs(axes=axes, mode=mode)
    if not check_fused(E, "forms-reference", a, ref, trees, kind):
        return
    z, flat = unfuse_all(ctx, ref, trees, rng, partial=False)
    e, lg = perm_dense(a.dense(), legs, flat)
    check_unfused(E, "roundtrip", z, (e, lg, n))
    ctx.count("round_trips")
    # (1) containers: lists / mixed containers / one-element groups for single legs
    same_tensor(E, "fuse-axes-containers", "fuse_legs with lists / mixed containers / (i,) for single legs", ya.fuse_legs(axes=as_lists(axes, rng), mode=mode), ref)
    ctx.count("forms:fuse-containers")
    # (2) omitted mode: the configuration default; force_fusion overrides an explicit mode
    yd = realize(a, rng, D.make_cfg(E.sym, False, default_fusion=mode))[0]
    same_tensor(E, "fuse-default-mode", f"fuse_legs without mode under default_fusion={mode}", yd.fuse_legs(axes=axes), ref)
    yf = realize(a, rng, D.make_cfg(E.sym, False, default_fusion=rng.choice((mode, other)), force_fusion=mode))[0]
    same_tensor(E, "fuse-force-fusion", f"fuse_legs(mode={other}) under force_fusion={mode}", yf.fuse_legs(axes=axes, mode=other), ref)
    ctx.count("forms:default-mode:" + mode)
    ctx.count("forms:force-fusion:" + mode)
    # (1) unfuse_legs: unsorted tuple, list, repeated entries, int; (3) axes=() is a no-op
    F = [i for i, T in enumerate(trees) if isinstance(T, tuple)]
    uref = ref.unfuse_legs(axes=tuple(F))
    for name, ax in (("reversed", tuple(F[::-1])), ("list", list(F)), ("shuffled", tuple(rng.sample(F, len(F)))), ("repeated", tuple(F + F[:1] + F[-1:]))):
        same_tensor(E, "unfuse-axes-" + name, f"unfuse_legs(axes={ax!r}) vs the sorted tuple", ref.unfuse_legs(axes=ax), uref)
        ctx.count("forms:unfuse-" + name)
    if len(F) == 1:
        same_tensor(E, "unfuse-axes-int", "unfuse_legs(axes=int)", ref.unfuse_legs(axes=F[0]), uref)
    same_tensor(E, "unfuse-no-axes", "unfuse_legs(axes=()) must return the tensor unchanged", ref.unfuse_legs(axes=()), ref)
    ctx.count("forms:unfuse-empty")
    # (3) drop_leg_history: no-op on plain legs; on fused legs same sectors and elements, history 'o'
    same_tensor(E, "drop-history-plain", "drop_leg_history() of a tensor with plain legs", ya.drop_leg_history(), ya)
    if mode == "hard":
        i = rng.choice(F)
        dh = ref.drop_leg_history(axes=i) if rng.random() < 0.5 else ref.drop_leg_history(axes=(i,))
        la, lb = dh.get_legs(i), ref.get_legs(i)
        if la.history() != "o" or (la.s, la.t, la.D) != (lb.s, lb.t, lb.D) or not np.array_equal(dh.to_numpy(), ref.to_numpy()) or \
           any(dh.get_legs(k) != ref.get_legs(k) for k in range(ref.ndim) if k != i):
            ctx.violation("form:drop-history", f"drop_leg_history(axes={i}) changed sectors / elements / other legs or kept the history ({la.history()})",
                          E.sample("drop-history"))
        dall = ref.drop_leg_history()
        if any(l.history() != "o" for l in dall.get_legs()) or not np.array_equal(dall.to_numpy(), ref.to_numpy()):
            ctx.violation("form:drop-history", "drop_leg_history() without axes left a history or changed elements", E.sample("drop-history"))
        ctx.count("forms:drop-history")
    # (3) all legs into one (rank-1 result), fusing the single leg of a rank-1 tensor, and a rank-0 result
    perm = list(range(rank))
    rng.shuffle(perm)
    ga, gb = ya.fuse_legs(axes=(tuple(perm),), mode=mode), yb.fuse_legs(axes=[perm], mode=mode)
    if check_fused(E, "forms-all-into-one", a, ga, [tuple(perm)], kind):
        da, db = a.dense(), b.dense()
        ev = np.vdot(db, da)
        tol = 8 * EPS * (da.size + 2) * max(fnorm(da) * fnorm(db), 1e-300)
        v = yastn.vdot(gb, ga)
        if not ctx.margin("arith:forms-vdot", abs(complex(v) - complex(ev)), tol):
            ctx.violation("value:forms-vdot", f"vdot over one leg holding all legs {v}, over the original legs {ev}", E.sample("all-into-one"))
        s0 = yastn.tensordot(gb, ga, axes=(0, 0), conj=(1, 0))            # rank-0 result
        if s0.ndim != 0 or not ctx.margin("arith:forms-vdot", abs(complex(s0.to_number()) - complex(ev)), tol):
            ctx.violation("value:forms-rank0", f"rank-0 contraction over the single fused leg gives {s0.to_number()} (rank {s0.ndim}), expected {ev}", E.sample("rank0"))
        same_tensor(E, "fuse-rank0", "fuse_legs(axes=()) of a rank-0 tensor", s0.fuse_legs(axes=(), mode=mode), s0)
        g1 = ga.fuse_legs(axes=((0,),), mode=mode)                           # a group holding the single (fused) leg: nothing to fuse
        same_tensor(E, "fuse-single-leg-group", "fuse_legs(axes=((0,),)) of a rank-1 tensor", g1, ga)
        z, flat = unfuse_all(ctx, ga, [tuple(perm)], rng, partial=False)
        e, lg = perm_dense(da, legs, flat)
        check_unfused(E, "roundtrip", z, (e, lg, n))
        ctx.count("forms:all-into-one")
    # (1) ncon over fused legs with labels in shuffled order vs tensordot
    m = len(trees)
    S = sorted(rng.sample(range(m), rng.randint(1, m)))
    opens = [i for i in range(m) if i not in S]
    lab = dict(zip(S, rng.sample(range(1, len(S) + 1), len(S))))
    oa = rng.sample(range(1, 2 * len(opens) + 1), 2 * len(opens))         # output positions of the open legs of a, then of b
    ia = [lab[i] if i in S else -oa[opens.index(i)] for i in range(m)]
    ib = [lab[i] if i in S else -oa[len(opens) + opens.index(i)] for i in range(m)]
    t1 = yastn.ncon([ref, fb], [ia, ib], conjs=[0, 1])
    t2 = yastn.tensordot(ref, fb, axes=(tuple(S), tuple(S)), conj=(0, 1))
    if opens:
        t2 = t2.transpose(tuple(int(x) for x in np.argsort(oa)))
    sc = max(fnorm(a.dense()) * fnorm(b.dense()), 1e-300)
    same_tensor(E, "ncon-vs-tensordot", f"ncon over fused legs (labels {ia}, {ib}) vs tensordot over {S}", t1, t2, tol=64 * EPS * sc * (a.dense().size + 2))
    ctx.count("forms:ncon")
    # (1, 2) block(): insertion order of the dictionary, order / container of common_legs, omitted common_legs
    npos = rng.randint(2, 3)
    nc = rng.randint(0, 2)
    pl = [E.leg(s=1, small=True) for _ in range(npos)]
    com = [E.leg(small=True) for _ in range(nc)]
    nb_ = D.gen_n(rng, E.sym, [pl[0]] + com, "fit")
    pieces = {(p,): D.gen_tensor(rng, E.nprng, E.sym, legs=[pl[p]] + com, n=nb_, dtype=dt, density=rng.choice((1.0, 0.6))).to_yastn(E.cfg) for p in range(npos)}
    cl = tuple(range(1, 1 + nc))
    bref = yastn.block(pieces, common_legs=cl)
    keys = list(pieces)
    rng.shuffle(keys)
    cl2 = list(cl)
    rng.shuffle(cl2)
    form = rng.choice(("tuple", "list", "int-keys"))
    d2 = {(k[0] if form == "int-keys" else k): pieces[k] for k in keys}
    same_tensor(E, "block-orders", "block() with another insertion order of the dictionary / order of common_legs / int keys",
                yastn.block(d2, common_legs=cl2 if form == "list" else tuple(cl2)), bref)
    if nc == 0:
        same_tensor(E, "block-no-common-legs", "block() without common_legs", yastn.block(d2), bref)
        ctx.count("forms:block-default")
    ctx.count("forms:block-orders")
    ctx.count("forms_cases")
    E.done(nontrivial=bool(a.blocks), extra=(mode, form))


# ------------------------------------------------------------------ kind: pair over the same universe legs (+, -, add, vdot, embedding)

def case_pair(E):
    import yastn
    ctx, rng = E.ctx, E.rng
    rank = draw_rank(E, 2, 4)
    legs = [E.leg(small=rank > 4) for _ in range(rank)]
    n = D.gen_n(rng, E.sym, legs, "fit")
    dt = rng.choice(("float64", "complex128"))
    nop = rng.choice((2, 2, 2, 3))
    keys = D.allowed_keys(E.sym, legs, n)
    want = rng.choice(("equal", "overlapping", "overlapping", "overlapping", "disjoint", "disjoint"))
    Sa, Sb = sector_sets(rng, keys, want)
    sets = [Sa, Sb] + [set(k for k in keys if rng.random() < 0.6) for _ in range(nop - 2)]
    if nop == 3 and rng.random() < 0.5:
        sets[2] = set(Sa)           # first and last operand alike, the middle one different: the embedding decision must not be taken from the last pair
        ctx.count("add3_last_like_first")
    hts = [D.gen_tensor(rng, E.nprng, E.sym, legs=legs, n=n, dtype=dt, density=1.0).with_present(S) for S in sets]
    a, b = hts[0], hts[1]
    rel = relation(a.blocks, b.blocks)
    trees = gen_trees(rng, range(rank), draw_depth(E))
    d = depth_of(trees)
    target = pick_target(rng, d)
    routes = [pick_route(rng, target, d) for _ in hts]
    E.operands = hts
    E.info = {"trees": repr(trees), "target": list(target), "routes": [r[2] for r in routes], "relation": rel}
    ys = [E.real(h) for h in hts]
    fs = [apply_recipe(y, trees, r, rng) for y, r in zip(ys, routes)]
    if not check_fused(E, "pair-operand", a, fs[0], trees, kind_fn(target)):
        return
    q = list(range(len(trees)))
    rng.shuffle(q)
    out = [post_transpose(rng, f, trees, q=q) for f in fs]
    states = [o[2] for o in out]
    # the same logical permutation for every operand (else legs would not correspond); a 'none' state skips it for all
    if "none" in states:
        trees_q = list(trees)
        E.states.append("post:none")
    else:
        fs, trees_q = [o[0] for o in out], out[0][1]
        E.states.append("post:" + ",".join(states))
    fa, fb = fs[0], fs[1]
    da, db = a.dense(), b.dense()
    mism = legs_differ(fa, fb)
    ctx.count("relation:" + rel)
    if len({r[2] for r in routes}) > 1:
        ctx.count("pairs_fused_by_equivalent_routes")

    def binop(name, k=1):
        ctx.count("binary_ops")
        ctx.count("op:" + name)
        if mism:
            ctx.count("mismatched_sector_binary_ops", k)

    # + and -
    scale = fnorm(da) + fnorm(db) + 1e-300
    for name, yop, nop_ in (("add", lambda x: x[0] + x[1], np.add), ("sub", lambda x: x[0] - x[1], np.subtract)):
        if name == "sub" and rng.random() < 0.5:
            continue
        s = guarded_add(E, "fused-" + name, [fa, fb], yop)
        r, flat = unfuse_all(ctx, s, trees_q, rng)
        e, lg = perm_dense(nop_(da, db), legs, flat)
        check_unfused(E, "fused-" + name, r, (e, lg, n), tol=8 * EPS * scale)
        binop(name)
    if nop == 3:
        amps = [rng.choice((None, 1, -1.5, 0.5j, 2)) for _ in hts]
        s = guarded_add(E, "fused-add3", fs, lambda x: yastn.add(*x, amplitudes=amps))
        r, flat = unfuse_all(ctx, s, trees_q, rng)
        e = sum((1 if am is None else am) * h.dense() for h, am in zip(hts, amps))
        e, lg = perm_dense(e, legs, flat)
        check_unfused(E, "fused-add3", r, (e, lg, n), tol=32 * EPS * sum(2 * fnorm(h.dense()) for h in hts) + 1e-300)
        binop("add3")
    # vdot
    v = yastn.vdot(fa, fb)
    ev = np.vdot(da, db)
    tol = 8 * EPS * (da.size + 2) * max(fnorm(da) * fnorm(db), 1e-300)
    if not ctx.margin("arith:fused-vdot", abs(complex(v) - complex(ev)), tol):
        ctx.violation("value:fused-vdot", f"vdot over fused legs {v} vs vdot over the original legs {ev}", E.sample("fused-vdot"))
    binop("vdot")
    # embedding of both operands into the union legs: to_numpy(legs=...) / legs_union / _embed_tensor
    U = {i: yastn.legs_union(la, lb) for i, (la, lb) in enumerate(zip(fa.get_legs(), fb.get_legs()))}
    A, B = fa.to_numpy(legs=U), fb.to_numpy(legs=U)
    ctx.count("embeddings_in_union")
    if mism:
        ctx.count("embeddings_in_union_mismatched")
    if A.shape != B.shape:
        ctx.violation("embed:shape", f"to_numpy(legs=union) gives shapes {A.shape} and {B.shape} for the two operands", E.sample("embed"))
    else:
        if not same_multiset(A, da) or not same_multiset(B, db):
            ctx.violation("embed:elements-changed", "to_numpy(legs=union legs) of a fused tensor does not hold exactly the non-zero elements "
                          "of the original tensor", E.sample("embed"))
        w = np.vdot(A, B)
        if not ctx.margin("arith:embed-vdot", abs(complex(w) - complex(ev)), tol):
            ctx.violation("embed:misaligned", f"operands embedded in the union legs overlap {w}, originals overlap {ev}", E.sample("embed"))
        S = guarded_add(E, "embed-add", [fa, fb], lambda x: x[0] + x[1]).to_numpy(legs=U)
        if S.shape != A.shape or not ctx.margin("arith:embed-add", float(np.max(np.abs(S - (A + B)))) if S.size else 0.0, 8 * EPS * scale):
            ctx.violation("embed:add-disagrees", "(fa + fb).to_numpy(legs=union) differs from fa.to_numpy(legs=union) + fb.to_numpy(legs=union)",
                          E.sample("embed"))
        A2 = fa.to_numpy(legs={i: l for i, l in enumerate(fb.get_legs())})      # union taken inside to_numpy
        if A2.shape != A.shape or not np.array_equal(A2, A):
            ctx.violation("embed:union-inside-to_numpy", "to_numpy(legs=legs of b) differs from to_numpy(legs=legs_union(legs of a, legs of b))",
                          E.sample("embed"))
    E.done(nontrivial=bool(a.blocks or b.blocks) and d > 0, extra=(rel,))


# ------------------------------------------------------------------ kind: tensordot over fused legs

def steer(rng, a, b, part_a, part_b, want):
    """Filter stored blocks so that the charge content on the contracted legs has the requested relation."""
    Sa = {tuple(k[i] for i in part_a) for k in a.blocks}
    Sb = {tuple(k[i] for i in part_b) for k in b.blocks}
    if want == "equal":
        common = Sa & Sb
        a = a.with_present([k for k in a.blocks if tuple(k[i] for i in part_a) in common])
        b = b.with_present([k for k in b.blocks if tuple(k[i] for i in part_b) in common])
    elif want == "disjoint":
        if rng.random() < 0.5:
            b = b.with_present([k for k in b.blocks if tuple(k[i] for i in part_b) not in Sa])
        else:
            a = a.with_present([k for k in a.blocks if tuple(k[i] for i in part_a) not in Sb])
    Sa = {tuple(k[i] for i in part_a) for k in a.blocks}
    Sb = {tuple(k[i] for i in part_b) for k in b.blocks}
    return a, b, relation(Sa, Sb)


def case_tensordot(E):
    import yastn
    ctx, rng = E.ctx, E.rng
    ra = min(draw_rank(E, 2, 4), 5)
    small = ra > 3
    la = [E.leg(small=small) for _ in range(ra)]
    trees_a = gen_trees(rng, range(ra), draw_depth(E))
    fusedpos = [i for i, T in enumerate(trees_a) if isinstance(T, tuple)]
    C = [rng.choice(fusedpos)]
    others = [i for i in range(len(trees_a)) if i not in C]
    if others and rng.random() < 0.35:
        C.append(rng.choice(others))
    rng.shuffle(C)
    cleaves = [x for c in C for x in leaves(trees_a[c])]
    m = {x: j for j, x in enumerate(cleaves)}
    ne = rng.randint(0, max(0, min(2, 5 - len(cleaves))))
    lb = [la[x].conj() for x in cleaves] + [E.leg(small=small) for _ in range(ne)]
    ex = list(range(len(cleaves), len(lb)))
    extras = [tuple(rng.sample(ex, 2))] if (ne == 2 and rng.random() < 0.5) else ex
    trees_b = [relabel(trees_a[c], m) for c in C] + extras
    rng.shuffle(trees_b)
    dt = rng.choice(("float64", "complex128"))
    a = D.gen_tensor(rng, E.nprng, E.sym, legs=la, dtype=rng.choice((dt, "float64")), density=rng.choice((1.0, 0.7, 0.5)), nmode="fit")
    # b's charge: make at least one contracted sector combination of a admissible for b as well
    nb = None
    if a.blocks and rng.random() < 0.8:
        ka = rng.choice(sorted(a.blocks))
        kb = [ka[x] for x in cleaves] + [rng.choice(l.ts) for l in lb[len(cleaves):]]
        nb = G.add(E.sym, kb, [l.s for l in lb])
    b = D.gen_tensor(rng, E.nprng, E.sym, legs=lb, n=nb, dtype=dt, density=rng.choice((1.0, 0.7, 0.5)), nmode="fit")
    want = rng.choice(("equal", "overlapping", "overlapping", "disjoint"))
    a, b, rel = steer(rng, a, b, cleaves, [m[x] for x in cleaves], want)
    cj = (rng.randint(0, 1), rng.randint(0, 1)) if rng.random() < 0.3 else (0, 0)
    ua = a.conj() if cj[0] else a
    ub = b.conj() if cj[1] else b
    da_, db_ = depth_of(trees_a), depth_of(trees_b)
    target = pick_target(rng, da_)
    ro_a, ro_b = pick_route(rng, target, da_), pick_route(rng, target, db_)
    E.operands = [ua, ub]
    E.info = {"trees_a": repr(trees_a), "trees_b": repr(trees_b), "contracted": C, "target": list(target), "routes": [ro_a[2], ro_b[2]],
              "relation": rel, "conj": cj}
    fa = apply_recipe(E.real(ua), trees_a, ro_a, rng)
    fb = apply_recipe(E.real(ub), trees_b, ro_b, rng)
    ctr = [trees_a[c] for c in C]
    ctr_b = [relabel(T, m) for T in ctr]
    fa, ta, sa = post_transpose(rng, fa, trees_a)
    fb, tb, sb = post_transpose(rng, fb, trees_b)
    E.states.append(f"post:{sa},{sb}")
    pa, pb = [ta.index(T) for T in ctr], [tb.index(T) for T in ctr_b]
    mism = legs_differ(fa, fb, pa, pb)
    axes = (pa[0], pb[0]) if (len(pa) == 1 and rng.random() < 0.5) else (tuple(pa), tuple(pb))
    r = yastn.tensordot(fa, fb, axes=axes, conj=cj)
    rem = [T for T in ta if T not in ctr] + [relabel(T, {j: ra + j for j in range(len(lb))}) for T in tb if T not in ctr_b]
    r, flat = unfuse_all(ctx, r, rem, rng)
    e = np.tensordot(a.dense(), b.dense(), axes=(cleaves, [m[x] for x in cleaves]))
    rem_orig = [i for i in range(ra) if i not in cleaves] + [ra + j for j in range(len(cleaves), len(lb))]
    e = np.transpose(e, [rem_orig.index(x) for x in flat]) if flat else e
    alll = list(la) + list(lb)
    K = int(np.prod([la[x].dim for x in cleaves]))
    tol = 8 * EPS * (K + 2) * max(fnorm(a.dense()) * fnorm(b.dense()), 1e-300)
    check_unfused(E, "fused-tensordot", r, (e, [alll[x] for x in flat], G.add(E.sym, (a.n, b.n))), tol=tol)
    ctx.count("binary_ops")
    ctx.count("op:tensordot")
    ctx.count("relation:" + rel)
    if mism:
        ctx.count("mismatched_sector_binary_ops")
    E.done(nontrivial=bool(a.blocks and b.blocks), extra=(rel,))


# ------------------------------------------------------------------ kind: trace over fused pairs

def case_trace(E):
    import yastn
    ctx, rng = E.ctx, E.rng
    npairs = rng.choice((1, 1, 1, 2))
    sizes = [rng.randint(2, 3) if npairs == 1 else 2 for _ in range(npairs)]
    if npairs == 1 and sizes[0] == 3 and not E.big:
        sizes = [rng.choice((2, 2, 3))]
    nrest = rng.randint(0, 2 if sum(sizes) <= 2 else 1)
    small = 2 * sum(sizes) + nrest > 4
    legs, trees, pairs, pos = [], [], [], 0
    for k in sizes:
        X = [E.leg(small=small) for _ in range(k)]
        T = single_tree(rng, range(pos, pos + k), draw_depth(E))
        legs += X + [l.conj() for l in X]
        T2 = relabel(T, {i: i + k for i in range(pos, pos + k)})
        trees += [T, T2]
        pairs.append((T, T2))
        pos += 2 * k
    rest = list(range(pos, pos + nrest))
    legs += [E.leg(small=small) for _ in range(nrest)]
    trees += [tuple(rng.sample(rest, 2))] if (nrest == 2 and rng.random() < 0.5) else rest
    rng.shuffle(trees)
    a = D.gen_tensor(rng, E.nprng, E.sym, legs=legs, density=rng.choice((1.0, 0.7, 0.5, 0.3)),
                     nmode=rng.choice(("fit", "fit", "zero", "zero")))
    d = depth_of(trees)
    target = pick_target(rng, d)
    route = pick_route(rng, target, d)
    E.operands = [a]
    E.info = {"trees": repr(trees), "pairs": repr(pairs), "target": list(target), "route": route[2]}
    f = apply_recipe(E.real(a), trees, route, rng)
    if not check_fused(E, "trace-operand", a, f, trees, kind_fn(target)):
        return
    f, tq, st = post_transpose(rng, f, trees)
    E.states.append("post:" + st)
    in0, in1 = [tq.index(p[0]) for p in pairs], [tq.index(p[1]) for p in pairs]
    if rng.random() < 0.5:
        in0, in1 = in1, in0
    mism = legs_differ(f, f.conj(), in0, in1)
    axes = (in0[0], in1[0]) if (npairs == 1 and rng.random() < 0.5) else (tuple(in0), tuple(in1))
    r = yastn.trace(f, axes=axes)
    rem = [T for T in tq if not any(T in p for p in pairs)]
    r, flat = unfuse_all(ctx, r, rem, rng)
    letters = list(string.ascii_lowercase[:len(legs)])
    traced = set()
    for T, T2 in pairs:
        for x, y in zip(leaves(T), leaves(T2)):
            letters[y] = letters[x]
            traced |= {x, y}
    e = np.einsum("".join(letters) + "->" + "".join(letters[x] for x in flat), a.dense())
    K = int(np.prod([legs[x].dim for T, _ in pairs for x in leaves(T)]))
    tol = 8 * EPS * (K + 2) * max(fnorm(a.dense()), 1e-300)
    check_unfused(E, "fused-trace", r, (e, [legs[x] for x in flat], a.n), tol=tol)
    ctx.count("binary_ops")
    ctx.count("op:trace")
    if mism:
        ctx.count("mismatched_sector_binary_ops")
        ctx.count("trace_mismatched_pairs")
    E.done(nontrivial=bool(a.blocks))


# ------------------------------------------------------------------ kind: block() vs harness direct sum

def sum_node_charges(leg):
    """Charges recorded at the first direct-sum node BELOW the root of a hard-fused leg (None if there is none)."""
    hf = leg.hf
    for j in range(1, len(hf.op)):
        if hf.op[j] == "s":
            return tuple(hf.t[j - 1])
    return None


def case_block_trace_fused(E):
    """trace over two legs p(s(..)o) / p(os(..)): a blocked leg and its conjugate, each hard-fused with one of a conjugate pair of
    common legs, after DIFFERENT sectors of the two blocked legs were removed (explicit zero blocks + remove_zero_blocks)."""
    import yastn
    ctx, rng = E.ctx, E.rng
    npos = rng.randint(2, 3)
    s0 = rng.choice((-1, 1))
    L0 = [D.gen_leg(rng, E.sym, s=s0, nsec=(2, 3), dmax=2, box=E.box) if E.sym != "dense" else E.leg(s=s0, small=True) for _ in range(npos)]
    c = E.leg(small=True)
    nrest = rng.randint(0, 1)
    rest = [E.leg(small=True) for _ in range(nrest)]
    # piece legs: (b0, c, b1 = conj b0, conj c, rest)
    n = G.zero(E.sym) if (nrest == 0 or rng.random() < 0.6) else D.gen_n(rng, E.sym, rest, "fit")
    dt = rng.choice(("float64", "complex128"))
    U = sorted({t for l in L0 for t in l.ts})
    Z0 = set(rng.sample(U, rng.randint(1, len(U) - 1))) if len(U) > 1 else set()
    Z1 = set(rng.sample(U, rng.randint(1, len(U) - 1))) if len(U) > 1 else set()
    if Z1 == Z0 and len(U) > 1:
        Z1 = set(U) - Z0
    A = {}
    for p in itertools.product(range(npos), range(npos)):
        if p[0] != p[1] and rng.random() < 0.4:
            continue
        h = D.gen_tensor(rng, E.nprng, E.sym, legs=[L0[p[0]], c, L0[p[1]].conj(), c.conj()] + rest, n=n, dtype=dt, density=rng.choice((1.0, 1.0, 0.7)))
        A[p] = h._new(blocks={k: (np.zeros_like(v) if (k[0] in Z0 or k[2] in Z1) else v) for k, v in h.blocks.items()})
    E.operands = list(A.values())
    inner = rng.choice(((0, 1), (1, 0)))                       # order inside both fused groups
    g0, g1 = tuple((0, 1)[i] for i in inner), tuple((2, 3)[i] for i in inner)
    trees = [g0, g1] + list(range(4, 4 + nrest))
    rng.shuffle(trees)
    E.info = {"sub": "trace-fused", "npos": npos, "trees": repr(trees), "zero_sectors_0": sorted(map(list, Z0)), "zero_sectors_1": sorted(map(list, Z1)),
              "n": list(n)}
    bA = yastn.block({p: E.real(h) for p, h in A.items()}, common_legs=(1, 3) + tuple(range(4, 4 + nrest)))
    ctx.count("block_calls")
    bA = bA.remove_zero_blocks()
    f = apply_recipe(bA, trees, pick_route(rng, ("all-p", None), 1), rng)
    i0, i1 = trees.index(g0), trees.index(g1)
    if sum_node_charges(f.get_legs(i0)) != sum_node_charges(f.get_legs(i1)):
        ctx.count("block_sum_node_sector_mismatch")
    nA = float(np.sqrt(sum(fnorm(h.dense()) ** 2 for h in A.values())))
    if not ctx.margin("norm", abs(float(f.norm()) - nA), 1e-12 * max(1.0, nA)):
        ctx.violation("norm-changed:block", f"norm of the fused blocked tensor {float(f.norm())!r}, of the pieces {nA!r}", E.sample("block"))
    if rng.random() < 0.5 and len(trees) > 1:
        f, tq, _ = post_transpose(rng, f, trees)
        i0, i1 = tq.index(g0), tq.index(g1)
    t = yastn.trace(f, axes=(i0, i1) if rng.random() < 0.5 else (i1, i0))
    et = sum(np.einsum("abab" + "c" * nrest + "->" + "c" * nrest, h.dense()) for p, h in A.items() if p[0] == p[1])
    K = sum(l.dim for l in L0) * c.dim
    check_unfused(E, "block-fused-trace", t, (np.asarray(et, dtype=dt), rest, n), tol=8 * EPS * (K + 2) * max(nA, 1e-300))
    # the same trace over the unfused (blocked) legs must agree as well (differential, same tolerance)
    t2 = yastn.trace(bA, axes=((0, 1), (2, 3)))
    check_unfused(E, "block-trace", t2, (np.asarray(et, dtype=dt), rest, n), tol=8 * EPS * (K + 2) * max(nA, 1e-300))
    for name in ("binary_ops", "op:block-fused-trace", "block_cases", "block_sub:trace-fused"):
        ctx.count(name)
    ctx.count("mismatched_sector_binary_ops")
    E.done(nontrivial=any(h.blocks for h in A.values()), extra=("trace-fused",))


def case_block(E):
    """Pieces over position legs L[n][p]; everything is compared through quantities in which the blocked index is summed."""
    import yastn
    ctx, rng = E.ctx, E.rng
    sub = rng.choice(("plain", "plain", "fused-pieces", "fuse-blocked", "trace", "sum-mismatch", "sum-mismatch", "trace-fused"))
    if sub == "trace-fused":
        return case_block_trace_fused(E)
    zsec = sub == "sum-mismatch"
    nb = 2 if sub == "trace" else rng.choice((1, 1, 2))
    nc = rng.randint(0, 2) if nb == 1 else rng.randint(0, 1)
    if sub == "fused-pieces" and nc == 0:
        nc = rng.randint(1, 2) if nb == 1 else 1
    if sub in ("fuse-blocked", "sum-mismatch") and nb + nc < 2:
        nc = 1
    npos = [rng.randint(2, 3) for _ in range(nb)]
    sig = [rng.choice((-1, 1)) for _ in range(nb)]
    L = [[E.leg(s=sig[n_], small=True) for _ in range(npos[n_])] for n_ in range(nb)]
    if zsec and E.sym != "dense":
        # several sectors, few distinct charges: the positions of the first blocked leg share charges
        L[0] = [D.gen_leg(rng, E.sym, s=sig[0], nsec=(2, 3), dmax=2, box=E.box) for _ in range(npos[0])]
    if sub == "trace":
        npos[1] = npos[0]
        L[1] = [l.conj() for l in L[0]]
    com = [E.leg(small=True) for _ in range(nc)]
    rank = nb + nc
    # logical leg order of every piece: a random interleaving of blocked and common legs
    order = ["b%d" % i for i in range(nb)] + ["c%d" % i for i in range(nc)]
    rng.shuffle(order)
    bpos = [order.index("b%d" % i) for i in range(nb)]
    cpos = [order.index("c%d" % i) for i in range(nc)]
    allpos = list(itertools.product(*(range(k) for k in npos)))
    n = D.gen_n(rng, E.sym, [L[i][0] for i in range(nb)] + com, "fit") if rng.random() < 0.7 else G.zero(E.sym)
    if sub == "trace":
        n = G.zero(E.sym) if rng.random() < 0.7 else n
    dt = rng.choice(("float64", "complex128"))

    def piece_legs(p):
        lg = [None] * rank
        for i, q in enumerate(bpos):
            lg[q] = L[i][p[i]]
        for i, q in enumerate(cpos):
            lg[q] = com[i]
        return lg

    def family(present):
        out = {}
        for p in present:
            out[p] = D.gen_tensor(rng, E.nprng, E.sym, legs=piece_legs(p), n=n, dtype=dt, density=rng.choice((1.0, 0.7, 0.4)))
        return out

    def positions():
        """A set of positions in which every position index of every blocked leg occurs (so that both operands
        describe the same direct sum of spaces)."""
        pres = {p for p in allpos if rng.random() < 0.6}
        for i in range(nb):
            for k in range(npos[i]):
                if not any(p[i] == k for p in pres):
                    pres.add(rng.choice([p for p in allpos if p[i] == k]))
        return sorted(pres)

    PA, PB, PC = positions(), positions(), positions()
    A, B, C = family(PA), family(PB), family(PC)
    prel = relation(PA, PB)
    if zsec:
        # sum-node mismatch: whole sectors of the first blocked leg are stored as explicit zero blocks in the pieces, different
        # sectors in the two operands.  block() records them in the constituent legs; remove_zero_blocks() after block() removes
        # them from the blocked leg itself, so after the hard fusion below the direct-sum node of one operand lacks sectors that
        # the other one has although the constituent legs of both carry them.  The dense truth of the pieces simply holds zeros.
        U = sorted({t for l in L[0] for t in l.ts})
        ZA = set(rng.sample(U, rng.randint(1, len(U) - 1))) if len(U) > 1 else set()
        ZB = set(rng.sample(U, rng.randint(1, len(U) - 1))) if len(U) > 1 else set()
        if ZB == ZA and len(U) > 1:
            ZB = set(U) - ZA if rng.random() < 0.5 else {t for t in U if t not in ZA or rng.random() < 0.5}
        ZC = set(t for t in U if rng.random() < 0.3) if len(U) > 1 else set()

        def zeroed(F, Z):
            return {p: h._new(blocks={k: (np.zeros_like(v) if k[bpos[0]] in Z else v) for k, v in h.blocks.items()}) for p, h in F.items()}
        A, B, C = zeroed(A, ZA), zeroed(B, ZB), zeroed(C, ZC)
    E.operands = list(A.values()) + list(B.values())
    E.info = {"sub": sub, "order": order, "npos": npos, "positions_a": [list(p) for p in PA], "positions_b": [list(p) for p in PB], "n": list(n)}
    if zsec:
        E.info.update(zero_sectors_a=sorted(map(list, ZA)), zero_sectors_b=sorted(map(list, ZB)))

    # optional fusion of the pieces before blocking (the fused group may contain blocked and common legs)
    trees = list(range(rank))
    target, kind = ("all-p", None), kind_fn(("all-p", None))
    if sub == "fused-pieces":
        # a fused group holds at most one blocked leg (two would need one combined position index per pair of positions)
        for _ in range(20):
            trees = gen_trees(rng, range(rank), 1)
            if all(sum(x in bpos for x in leaves(T)) <= 1 for T in trees):
                break
        else:
            trees = list(range(rank))
        E.info["piece_trees"] = repr(trees)

    def build(F, tag):
        ys = {}
        for p, h in F.items():
            y = E.real(h)
            if sub == "fused-pieces":
                # pieces may be fused by hard or meta fusion: block() turns meta into hard (documented)
                y = apply_recipe(y, trees, pick_route(rng, rng.choice((("all-p", None), ("all-m", None))), depth_of(trees)), rng)
            ys[p] = y
        # key = positions of the blocked logical legs; a logical leg is 'blocked' if its tree contains a blocked original leg
        lg_blocked = [any(x in bpos for x in leaves(T)) for T in trees]
        # a fused leg containing two blocked originals gets a combined position (mixed radix)
        def key(p):
            k = []
            for T, isb in zip(trees, lg_blocked):
                if isb:
                    v = 0
                    for x in leaves(T):
                        if x in bpos:
                            i = bpos.index(x)
                            v = v * npos[i] + p[i]
                    k.append(v)
            return tuple(k)
        commons = tuple(i for i, isb in enumerate(lg_blocked) if not isb)
        tens = {key(p): y for p, y in ys.items()}
        ctx.count("block_calls")
        return yastn.block(tens, common_legs=commons if (commons or rng.random() < 0.5) else None)

    bA, bB, bC = build(A, "A"), build(B, "B"), build(C, "C")
    cur = list(trees)
    if zsec:
        bA, bB, bC = bA.remove_zero_blocks(), bB.remove_zero_blocks(), bC.remove_zero_blocks()
    if sub in ("fuse-blocked", "sum-mismatch"):
        # fuse the blocked tensor itself (product of sums), same trees for all operands
        ft = gen_trees(rng, range(rank), rng.choice((1, 1, 2)))
        tg = pick_target(rng, depth_of(ft))
        if zsec:
            # the first blocked leg is HARD-fused with a neighbour (optionally one level deeper): history p(..s(..)..)
            for _ in range(30):
                if any(isinstance(T, tuple) and bpos[0] in leaves(T) for T in ft):
                    break
                ft = gen_trees(rng, range(rank), rng.choice((1, 1, 2)))
            else:
                ft = [tuple(range(rank))]
            tg = ("all-p", None)
            before = bA
        E.info["blocked_trees"] = repr(ft)
        E.info["target"] = list(tg)
        bA, bB, bC = (apply_recipe(x, ft, pick_route(rng, tg, depth_of(ft)), rng) for x in (bA, bB, bC))
        cur = ft
        hs = [l.history() for l in bA.get_legs()]
        if any(isinstance(T, tuple) and not h.startswith(kind_fn(tg)(T)) for T, h in zip(ft, hs)):
            ctx.violation("block:fused-history", f"fusing a blocked tensor by {ft} gives histories {hs}", E.sample("block"))
        if zsec:
            ig = next(i for i, T in enumerate(ft) if isinstance(T, tuple) and bpos[0] in leaves(T))
            if sum_node_charges(bA.get_legs(ig)) != sum_node_charges(bB.get_legs(ig)):
                ctx.count("block_sum_node_sector_mismatch")
            # round trip of the product layers: back to the blocked (unfusable) tensor, same library basis -> bit-exact
            r, flat = unfuse_all(ctx, bA, ft, rng)
            ref = before.transpose(tuple(flat)) if len(flat) > 1 else before
            if tuple(r.get_legs()) != tuple(ref.get_legs()) or not np.array_equal(r.to_numpy(), ref.to_numpy()):
                ctx.violation("roundtrip:fused-blocked", f"unfuse(fuse(blocked tensor)) by {ft} differs from the blocked tensor (legs or elements)",
                              E.sample("block"))
            ctx.count("block_fused_roundtrips")
    if len(cur) > 1 and rng.random() < 0.5:
        q = list(range(len(cur)))
        rng.shuffle(q)
        bA, bB, bC = bA.transpose(tuple(q)), bB.transpose(tuple(q)), (bC.transpose(tuple(q)).consume_transpose() if rng.random() < 0.5 else bC.transpose(tuple(q)))
        cur = [cur[i] for i in q]
    ctx.count("block_sub:" + sub)
    ctx.count("block_positions:" + prel)
    mism = legs_differ(bA, bB)

    def dsum(F, G_, f):
        return sum(f(F[p].dense(), G_[p].dense()) for p in F if p in G_)

    zA = {p: h.dense() for p, h in A.items()}
    zB = {p: h.dense() for p, h in B.items()}
    # norm and multiset of elements
    nA = float(np.sqrt(sum(fnorm(x) ** 2 for x in zA.values())))
    if not ctx.margin("norm", abs(float(bA.norm()) - nA), 1e-12 * max(1.0, nA)):
        ctx.violation("norm-changed:block", f"norm of the blocked tensor {float(bA.norm())!r}, of the pieces {nA!r}", E.sample("block"))
    allv = np.concatenate([x.ravel() for x in zA.values()]) if zA else np.zeros(0)
    if bA.size <= 20000 and not same_multiset(bA.to_numpy(), allv):
        ctx.violation("elements-changed:block", "the multiset of non-zero elements of block(...) differs from that of the pieces", E.sample("block"))
    # vdot
    v = yastn.vdot(bA, bB)
    ev = dsum(A, B, np.vdot)
    nB = float(np.sqrt(sum(fnorm(x) ** 2 for x in zB.values())))
    nAB = max(nA * nB, 1e-300)
    tolv = 8 * EPS * (sum(x.size for x in zA.values()) + 2) * nAB
    if not ctx.margin("arith:block-vdot", abs(complex(v) - complex(ev)), tolv):
        ctx.violation("value:block-vdot", f"vdot of blocked tensors {v}, sum over pieces {ev}", E.sample("block"))
    ctx.count("binary_ops")
    ctx.count("op:block-vdot")
    if mism:
        ctx.count("mismatched_sector_binary_ops")
        ctx.count("block_mismatched_ops")
    # (bA + bB) . conj(bC) : addition (union / embedding with 's' nodes) followed by a contraction over every blocked leg
    S = guarded_add(E, "block-add", [bA, bB], lambda x: x[0] + x[1])
    ctx.count("op:block-add")
    if mism:
        ctx.count("mismatched_sector_binary_ops")
    w = yastn.vdot(bC, S)
    ew = dsum(C, A, np.vdot) + dsum(C, B, np.vdot)
    nC = float(np.sqrt(sum(fnorm(h.dense()) ** 2 for h in C.values())))
    tolw = 16 * EPS * (sum(x.size for x in zA.values()) + sum(x.size for x in zB.values()) + 2) * max(nC * (nA + nB), 1e-300)
    if not ctx.margin("arith:block-add-vdot", abs(complex(w) - complex(ew)), tolw):
        ctx.violation("value:block-add", f"vdot(bC, bA + bB) = {w}, sum over pieces {ew}", E.sample("block"))
    # tensordot over all legs that contain a blocked leg; the remaining (common, unfused) legs are compared densely
    blk = [i for i, T in enumerate(cur) if any(x in bpos for x in leaves(T))]
    free = [i for i in range(len(cur)) if i not in blk]
    r = yastn.tensordot(bA, bB, axes=(tuple(blk), tuple(blk)), conj=(0, 1))
    ctx.count("binary_ops")
    ctx.count("op:block-tensordot")
    if legs_differ(bA, bB, blk, blk):
        ctx.count("mismatched_sector_binary_ops")
    rem = [cur[i] for i in free]
    rem2 = rem + [relabel(T, {x: rank + x for x in range(rank)}) for T in rem]
    r, _ = unfuse_all(ctx, r, rem2, rng, partial=False)
    fr = flat_of(rem)
    contracted = [x for x in range(rank) if x not in fr]
    e = sum(np.tensordot(A[p].dense(), np.conj(B[p].dense()), axes=(contracted, contracted)) for p in A if p in B)
    shp = [piece_legs(allpos[0])[x] for x in sorted(fr)]
    if isinstance(e, int):
        e = np.zeros([l.dim for l in shp] * 2, dtype=dt)
    so = sorted(fr)
    perm = [so.index(x) for x in fr] + [len(so) + so.index(x) for x in fr]
    e = np.transpose(e, perm) if perm else e
    lg = [piece_legs(allpos[0])[x] for x in fr]
    lg = lg + [l.conj() for l in lg]
    K = max(1, sum(int(np.prod([piece_legs(p)[x].dim for x in contracted])) for p in A))
    tol = 8 * EPS * (K + 2) * nAB
    check_unfused(E, "block-tensordot", r, (e, lg, G.add(E.sym, (n, n), (1, -1))), tol=tol)
    # trace over a blocked pair (positions of the second leg are the conjugate spaces of the first)
    if sub == "trace":
        i0, i1 = cur.index(bpos[0]), cur.index(bpos[1])
        t = yastn.trace(bA, axes=(i0, i1) if rng.random() < 0.5 else (i1, i0))
        ctx.count("binary_ops")
        ctx.count("op:block-trace")
        if legs_differ(bA, bA.conj(), [i0], [i1]):
            ctx.count("mismatched_sector_binary_ops")
        remt = [T for T in cur if T not in (bpos[0], bpos[1])]
        letters = list(string.ascii_lowercase[:rank])
        letters[bpos[1]] = letters[bpos[0]]
        outl = "".join(letters[x] for x in remt)
        et = sum(np.einsum("".join(letters) + "->" + outl, A[p].dense()) for p in A if p[0] == p[1])
        if isinstance(et, int):
            et = np.zeros([piece_legs(allpos[0])[x].dim for x in remt], dtype=dt)
        Kt = sum(L[0][k].dim for k in range(npos[0]))
        check_unfused(E, "block-trace", t, (et, [piece_legs(allpos[0])[x] for x in remt], n), tol=8 * EPS * (Kt + 2) * max(nA, 1e-300))
    # blocked legs cannot be unfused (documented error)
    if sub in ("plain", "trace"):
        i = cur.index(bpos[0])
        if bA.get_legs(i).history().startswith("s"):
            try:
                bA.unfuse_legs(axes=i)
                ctx.violation("block:unfuse-not-rejected", "unfuse_legs on a leg produced by block() did not raise", E.sample("block"))
            except Exception as ex:
                if not yerr(ex):
                    raise
                ctx.count("block_unfuse_rejected")
    ctx.count("block_cases")
    E.done(nontrivial=any(h.blocks for h in A.values()), extra=(sub, prel))


# ------------------------------------------------------------------ kind: incompatible fusions must be rejected

REJECT_CLASSES = ("trees", "trees", "mode", "order-signature", "order-dimension", "signature", "dimension", "dimension")


def must_reject(ctx, E, cls, op, f):
    ctx.count("must_reject")
    ctx.count("must_reject:" + cls)
    ctx.count("must_reject_op:" + op)
    try:
        f()
    except Exception as ex:
        if yerr(ex):
            ctx.count("rejected_with_YastnError")
            return True
        ctx.violation(f"foreign-exception:{cls}:{op}:{type(ex).__name__}",
                      f"{op} on operands with incompatible fusion ({cls}) raised {type(ex).__name__}: {ex} instead of YastnError", E.sample(op))
        return False
    ctx.violation(f"not-rejected:{cls}:{op}", f"{op} on operands with incompatible fusion ({cls}) was computed instead of raising YastnError",
                  E.sample(op))
    return False


def regroup(rng, trees):
    """Different trees over the same leaves in the same order with the same number of logical legs."""
    flat = flat_of(trees)
    for _ in range(40):
        # random nesting of the same flat order: cut into len(trees) consecutive groups, nest each randomly
        k = len(trees)
        if k > len(flat):
            return None
        cuts = sorted(rng.sample(range(1, len(flat)), k - 1)) if k > 1 else []
        groups = [flat[i:j] for i, j in zip([0] + cuts, cuts + [len(flat)])]
        new = []
        for g in groups:
            if len(g) == 1:
                new.append(g[0])
            elif len(g) == 2 or rng.random() < 0.4:
                new.append(tuple(g))
            else:
                c = rng.randint(1, len(g) - 1)
                l, r = g[:c], g[c:]
                new.append(((tuple(l) if len(l) > 1 else l[0]), (tuple(r) if len(r) > 1 else r[0])))
        if new != list(trees):
            return new
    return None


def case_reject(E):
    import yastn
    ctx, rng = E.ctx, E.rng
    cls = REJECT_CLASSES[(E.idx // (len(G.ALL_SYMS) * len(KINDS))) % len(REJECT_CLASSES)]
    hardmode = rng.random() < 0.6
    target = ("all-p", None) if hardmode else ("all-m", None)
    rank = rng.randint(3, 4) if cls in ("trees", "mode") else rng.randint(2, 3)
    legs = [E.leg(small=rank > 3) for _ in range(rank)]
    trees = gen_trees(rng, range(rank), rng.choice((1, 1, 2)))
    trees_b, legs_b = list(trees), list(legs)
    target_b = target
    fusedpos = [i for i, T in enumerate(trees) if isinstance(T, tuple)]
    g = rng.choice(fusedpos)          # the logical leg on which the fusions are made incompatible
    gl = leaves(trees[g])
    where = None
    if cls == "trees":
        trees_b = regroup(rng, trees)
        if trees_b is None:
            raise CaseSkip
        bad = [i for i, (T, T2) in enumerate(zip(trees, trees_b)) if _shape(T) != _shape(T2)]
        if not bad:
            raise CaseSkip
        g = rng.choice(bad)
    elif cls == "mode":
        target_b = ("all-m", None) if hardmode else ("all-p", None)
    elif cls in ("order-signature", "order-dimension"):
        # swap two leaves x, y inside the group: b is built over the universe in which the two SPACES are exchanged
        x, y = rng.sample(gl, 2)
        where = (x, y)
        if cls == "order-signature":
            legs[y] = D.HLeg(E.sym, -legs[x].s, legs[y].sectors)
        else:
            # same signature, same charges, one dimension different
            t0 = rng.choice(legs[x].ts)
            legs[y] = D.HLeg(E.sym, legs[x].s, [(t, d + (1 if t == t0 else 0)) for t, d in legs[x].sectors])
        legs_b = list(legs)
        legs_b[x], legs_b[y] = legs[y], legs[x]
    elif cls == "signature":
        x = rng.choice(gl)
        where = (x,)
        legs_b[x] = legs[x].conj()
    else:
        x = rng.choice(gl)
        t0 = rng.choice(legs[x].ts)
        where = (x, list(t0))
        legs_b[x] = D.HLeg(E.sym, legs[x].s, [(t, d + (1 if t == t0 else 0)) for t, d in legs[x].sectors])
    dt = rng.choice(("float64", "complex128"))
    n = D.gen_n(rng, E.sym, legs, "fit")
    if cls == "signature":
        n = None
    a = D.gen_tensor(rng, E.nprng, E.sym, legs=legs, n=n, dtype=dt, density=1.0, nmode="fit")
    b = D.gen_tensor(rng, E.nprng, E.sym, legs=legs_b, n=a.n, dtype=dt, density=1.0)
    # the characterised classes: a differing dimension must belong to a charge that both operands actually store
    # (and, for meta fusion where dimensions are compared block by block, in a block stored by both)
    if cls in ("dimension", "order-dimension"):
        common = set(a.blocks) & set(b.blocks)
        if not any(any(dict(legs[i].sectors)[k[i]] != dict(legs_b[i].sectors)[k[i]] for i in gl) for k in common):
            raise CaseSkip
    E.operands = [a, b]
    E.info = {"class": cls, "trees_a": repr(trees), "trees_b": repr(trees_b), "target_a": target[0], "target_b": target_b[0], "leg": g,
              "where": where}
    fa = apply_recipe(E.real(a), trees, pick_route(rng, target, depth_of(trees)), rng)
    fb = apply_recipe(E.real(b), trees_b, pick_route(rng, target_b, depth_of(trees_b)), rng)
    q_used = None
    if rng.random() < 0.4 and len(trees) > 1:
        q_used = list(range(len(trees)))
        rng.shuffle(q_used)
        fa, fb = fa.transpose(tuple(q_used)), fb.transpose(tuple(q_used))
        g = q_used.index(g)
    ok = must_reject(ctx, E, cls, "add", lambda: fa + fb)
    ok &= must_reject(ctx, E, cls, "sub", lambda: fa - fb) if rng.random() < 0.3 else True
    ok &= must_reject(ctx, E, cls, "vdot", lambda: yastn.vdot(fa, fb))
    ok &= must_reject(ctx, E, cls, "tensordot", lambda: yastn.tensordot(fa, fb, axes=(g, g), conj=(0, 1)))
    if rng.random() < 0.5:
        al = tuple(range(fa.ndim))
        ok &= must_reject(ctx, E, cls, "tensordot", lambda: yastn.tensordot(fa, fb, axes=(al, al), conj=(1, 0)))
    if cls in ("trees", "mode", "signature", "dimension"):
        # legs_union: "Their dimensions and fusion history have to match."  (the exchanged-order classes are not covered by
        # that sentence for meta-fused legs, whose union is taken leg by leg)
        ok &= must_reject(ctx, E, cls, "legs_union", lambda: yastn.legs_union(fa.get_legs(g), fb.get_legs(g)))
    # control: the same operations on a compatible twin of a (same universe, same trees) are accepted
    if rng.random() < 0.5:
        a2 = D.gen_tensor(rng, E.nprng, E.sym, legs=legs, n=a.n, dtype=dt, density=0.7)
        f2 = apply_recipe(a2.to_yastn(E.cfg), trees, pick_route(rng, target, depth_of(trees)), rng)
        if q_used is not None:
            f2 = f2.transpose(tuple(q_used))
        _ = guarded_add(E, "reject-control-add", [fa, f2], lambda x: x[0] + x[1])
        _ = yastn.vdot(fa, f2)
        _ = yastn.tensordot(fa, f2, axes=(g, g), conj=(0, 1))
        ctx.count("reject_controls_accepted")
    # trace: one tensor carrying a group and an incompatible (conjugate) group
    reject_trace(E, cls, hardmode)
    E.done(nontrivial=True, extra=(cls, ok))


def _shape(T):
    return tuple(_shape(c) for c in T) if isinstance(T, tuple) else 0


def reject_trace(E, cls, hardmode):
    """trace over two fused legs whose fusions are incompatible in the same characterised ways."""
    import yastn
    ctx, rng = E.ctx, E.rng
    if cls == "mode":
        return    # a single tensor cannot pair a hard-fused with a meta-fused leg of the same rank: nothing to reject
    k = 3 if cls == "trees" else rng.randint(2, 3)
    X = [E.leg(small=True) for _ in range(k)]
    Y = [l.conj() for l in X]
    T1 = single_tree(rng, range(k), 2)
    T2 = relabel(T1, {i: i + k for i in range(k)})
    if cls == "trees":
        for _ in range(20):
            T2 = relabel(single_tree(rng, range(k), 2), {i: i + k for i in range(k)})
            if _shape(T2) != _shape(T1) and leaves(T2) == [x + k for x in leaves(T1)]:
                break
        else:
            T1, T2 = ((0, 1), 2), (3, (4, 5))
    elif cls in ("order-signature", "order-dimension"):
        lv = leaves(T1)
        x, y = rng.sample(lv, 2)
        if cls == "order-signature":
            X[y] = D.HLeg(E.sym, -X[x].s, X[y].sectors)
        else:
            t0 = rng.choice(X[x].ts)
            X[y] = D.HLeg(E.sym, X[x].s, [(t, d + (1 if t == t0 else 0)) for t, d in X[x].sectors])
        Y = [l.conj() for l in X]
        Y[x], Y[y] = Y[y], Y[x]
    elif cls == "signature":
        x = rng.choice(leaves(T1))
        Y[x] = X[x]
    else:
        x = rng.choice(leaves(T1))
        t0 = rng.choice(X[x].ts)
        Y[x] = D.HLeg(E.sym, -X[x].s, [(t, d + (1 if t == t0 else 0)) for t, d in X[x].sectors])
    legs = X + Y
    # zero charge and all blocks stored: every 'diagonal' block (t, t) exists, so a differing dimension is stored on both sides
    a = D.gen_tensor(rng, E.nprng, E.sym, legs=legs, n=G.zero(E.sym), density=1.0)
    if cls in ("dimension", "order-dimension"):
        if not any(k_[:k] == k_[k:] and any(dict(X[i].sectors)[k_[i]] != dict(Y[i].sectors)[k_[i]] for i in range(k)) for k_ in a.blocks):
            ctx.count("reject_trace_skipped_no_common_block")
            return
    target = ("all-p", None) if hardmode else ("all-m", None)
    trees = [T1, T2]
    if rng.random() < 0.5:
        trees = trees[::-1]
    E.operands = E.operands + [a]
    E.info["trace_trees"] = repr(trees)
    f = apply_recipe(E.real(a), trees, pick_route(rng, target, depth_of(trees)), rng)
    must_reject(ctx, E, cls, "trace", lambda: yastn.trace(f, axes=(0, 1)))


# ------------------------------------------------------------------ reach evidence: first-hit LINE monitor on three functions

FUNCS = ("_masks_hfs_intersection", "_mask_embed_in_union", "_hfs_union")
_REACH = None


class Reach:
    """sys.monitoring LINE events restricted to three functions of yastn/tensor/_merging.py; DISABLE after the first hit."""

    def __init__(self):
        import inspect
        from yastn.tensor import _merging as M
        self.hits = set()
        self.branch = {}
        self.ok = False
        mon = getattr(sys, "monitoring", None)
        if mon is None:
            return
        self.tool = None
        for tid in (mon.COVERAGE_ID, mon.PROFILER_ID, 3, 4):
            try:
                mon.use_tool_id(tid, "verif-c03-reach")
                self.tool = tid
                break
            except ValueError:
                continue
        if self.tool is None:
            return
        mon.register_callback(self.tool, mon.events.LINE, self._cb)
        for fname in FUNCS:
            f = getattr(M, fname, None)
            if f is None:
                continue
            f = getattr(f, "__wrapped__", f)
            src, start = inspect.getsourcelines(f)
            for i, text in enumerate(src[:-1]):
                s = text.strip()
                if s.startswith("if op[it - 1] == 'p'"):
                    self.branch[(fname, "p")] = start + i + 1
                elif s.startswith("else") and "op[it - 1] == 's'" in s:
                    self.branch[(fname, "s")] = start + i + 1
            mon.set_local_events(self.tool, f.__code__, mon.events.LINE)
        self.ok = True

    def _cb(self, code, line):
        self.hits.add((code.co_name, line))
        return sys.monitoring.DISABLE


def reach():
    global _REACH
    if _REACH is None:
        _REACH = Reach()
    return _REACH


def end_shard(ctx):
    R = reach()
    for (fname, br), line in sorted(R.branch.items()):
        ctx.count(f"reach:{fname}:{br}", 1 if (fname, line) in R.hits else 0)
    ctx.count("reach_monitor_installed", 1 if R.ok else 0)
    ctx.note("anchor_lines_hit", sorted([f, l] for f, l in R.hits))


# ------------------------------------------------------------------ driver

def plan(tier):
    n = n_enum(tier) + N_SAMPLED[tier]
    if tier == "thorough":
        return {"cases": n, "shards": 16, "budget_s": 1500}
    return {"cases": n, "shards": 8, "budget_s": 240}


def floors(tier):
    k = 15 if tier == "thorough" else 1
    fl = {"round_trips": 700 * k, "enumerated_roundtrips": n_enum(tier), "fused_tensors_checked": 1500 * k,
          "binary_ops": 2500 * k, "mismatched_sector_binary_ops": 900 * k,
          "relation:equal": 300 * k, "relation:overlapping": 70 * k, "relation:disjoint": 150 * k,
          "op:add": 400 * k, "op:vdot": 400 * k, "op:tensordot": 280 * k, "op:trace": 280 * k, "embeddings_in_union_mismatched": 90 * k,
          "must_reject": 2000 * k, "rejected_with_YastnError": 2000 * k, "reject_controls_accepted": 200 * k,
          "block_cases": 280 * k, "block_mismatched_ops": 140 * k, "op:block-trace": 30 * k, "op:block-fused-trace": 30 * k,
          "partial_unfuse_calls": 140 * k, "partial_unfuse_several_hard_legs": 70 * k, "partial_unfuse_meta_between_unequal_hard": 35 * k,
          "rank:7": 40 * k, "rank:8": 40 * k,
          "block_sum_node_sector_mismatch": 50 * k, "block_fused_roundtrips": 60 * k, "add3_last_like_first": 50 * k,
          "lazy_operands": 5000 * k, "fused_lazily_transposed": 170 * k, "unfuse_multi_axes_on_lazy_tensor": 45 * k,
          "additions_with_common_pending_transpose": 240 * k, "pairs_fused_by_equivalent_routes": 140 * k,
          "leg_product_roundtrips": 700 * k, "depth:2": 200 * k, "depth:3": 25 * k, "rank:5": 100 * k, "reach_monitor_installed": 1}
    for r in ("hard", "meta", "meta-then-hard", "hard-then-meta", "fuse_meta_to_hard"):
        fl["route:" + r] = 70 * k
    for c in set(REJECT_CLASSES):
        fl["must_reject:" + c] = 200 * k
    for o in ("add", "vdot", "tensordot", "trace", "legs_union"):
        fl["must_reject_op:" + o] = 280 * k
    for f in FUNCS:
        for br in ("p", "s"):
            fl[f"reach:{f}:{br}"] = 1
    fl.update({"forms_cases": 140 * k, "form_comparisons": 1800 * k, "forms:block-default": 40 * k, "forms_tensor_without_blocks": 50 * k,
               "forms_dimension_one_legs": 140 * k, "forms:drop-history": 70 * k})
    for f in ("fuse-containers", "default-mode:hard", "default-mode:meta", "force-fusion:hard", "force-fusion:meta", "unfuse-reversed", "unfuse-list",
              "unfuse-shuffled", "unfuse-repeated", "unfuse-empty", "all-into-one", "ncon", "block-orders"):
        fl["forms:" + f] = 65 * k
    # every family on every symmetry (the rarely used ones included)
    per = {"roundtrip": 60, "pair": 60, "tensordot": 40, "trace": 40, "block": 40, "reject": 30, "partial": 20, "forms": 20}
    for sym in G.ALL_SYMS:
        for kind, v in per.items():
            fl[f"sym:{kind}:{sym}"] = v * k
        fl[f"sym:roundtrip-enumerated:{sym}"] = len(ENUM) * len(ENUM_ROUTES) if tier == "thorough" else 12
    return fl


DISPATCH = {"roundtrip": case_roundtrip, "pair": case_pair, "tensordot": case_tensordot, "trace": case_trace, "block": case_block,
            "reject": case_reject, "partial": case_partial, "forms": case_forms}


def run_case(ctx, idx):
    reach()
    ne = n_enum(ctx.tier)
    if idx < ne:
        return case_enumerated(ctx, idx)
    j = idx - ne
    sym = G.ALL_SYMS[j % len(G.ALL_SYMS)]
    kind = KINDS[(j // len(G.ALL_SYMS)) % len(KINDS)]
    E = Env(ctx, idx, sym, kind)
    DISPATCH[kind](E)
    ctx.count(f"sym:{kind}:{sym}")


def canaries(ctx):
    """The comparators must fire on corrupted observations."""
    import random
    import yastn
    sub = type(ctx)(ctx.prop, ctx.tier, ctx.seed)
    sub.idx = "canary"
    E = Env(sub, 0, "U1", "canary")
    rng, nprng = random.Random(2), np.random.default_rng(2)
    legs = [D.gen_leg(rng, "U1") for _ in range(3)]
    a = D.gen_tensor(rng, nprng, "U1", legs=legs, density=1.0, nmode="fit")
    E.operands = [a]
    ya = a.to_yastn(E.cfg)
    trees = [(2, 0), 1]
    f = ya.fuse_legs(axes=((2, 0), 1), mode="hard")
    # 1. a fused tensor with one element changed: norm / multiset
    g = f.copy()
    g._data[0] *= 1.0000001
    check_fused(E, "canary", a, g, trees, kind_fn(("all-p", None)))
    ctx.canary("fused-element-changed", any(v["key"].startswith("elements-changed") for v in sub.violations))
    sub.violations.clear()
    # 2. wrong history expectation (meta expected, hard observed)
    check_fused(E, "canary", a, f, trees, kind_fn(("all-m", None)))
    ctx.canary("history", any(v["key"] == "fused-history" for v in sub.violations))
    sub.violations.clear()
    # 3. round trip with the legs of the wrong order
    r = f.unfuse_legs(axes=0)
    e, lg = perm_dense(a.dense(), a.legs, [2, 0, 1])
    orig = ya.get_legs()
    check_unfused(E, "roundtrip", r, (e, lg, a.n), orig=[orig[0], orig[2], orig[1]])
    ctx.canary("roundtrip-legs", any(v["key"] == "roundtrip-legs" for v in sub.violations))
    sub.violations.clear()
    e2 = e.copy()
    e2[tuple(np.argwhere(e2 != 0)[0])] *= 1.0000001
    check_unfused(E, "roundtrip", r, (e2, lg, a.n))
    ctx.canary("roundtrip-value", any(v["key"].startswith("value:roundtrip") for v in sub.violations))
    sub.violations.clear()
    # 4. a compatible pair passed to the must-reject wrapper, and a foreign exception
    must_reject(sub, E, "canary", "add", lambda: f + f)
    ctx.canary("not-rejected", any(v["key"].startswith("not-rejected") for v in sub.violations))
    sub.violations.clear()
    must_reject(sub, E, "canary", "add", lambda: [][1])
    ctx.canary("foreign-exception", any(v["key"].startswith("foreign-exception") for v in sub.violations))
    sub.violations.clear()
    # 5. multiset comparator
    x = np.arange(1.0, 7.0)
    ctx.canary("multiset", (not same_multiset(x, np.append(x[:-1], 0.0))) and same_multiset(x, np.append(x[::-1], 0.0)))


def finalize(cov, merged):
    c = merged["counters"]
    cov["exhaustive_depth1"] = {"ordered_partitions_rank_1_to_4": len(ENUM), "symmetries": len(G.ALL_SYMS), "routes": list(ENUM_ROUTES),
                                "domain": N_ENUM_FULL, "visited": int(c.get("enumerated_roundtrips", 0))}
    hits = merged["notes"].get("anchor_lines_hit", [])
    try:
        from yastn.tensor import _merging as M
        out = {}
        for fname in FUNCS:
            f = getattr(M, fname)
            f = getattr(f, "__wrapped__", f)
            ex = sorted({l for _, _, l in f.__code__.co_lines() if l and l > f.__code__.co_firstlineno})
            got = sorted({l for n_, l in hits if n_ == fname and l in ex})
            out["_merging." + fname] = {"lines_reached": len(got), "executable_lines": len(ex), "not_reached": [l for l in ex if l not in got]}
        cov["anchor_lines"] = out
    except Exception as e:            # evidence only
        cov["anchor_lines"] = "unavailable: " + repr(e)[:200]
    cov["unfuse_calls_with_invalid_axes"] = int(c.get("unfuse_calls_with_invalid_axes", 0))   # information: silently ignored by unfuse_legs
    cov["must_reject_classes"] = {k[12:]: int(v) for k, v in c.items() if k.startswith("must_reject:")}
