"""C09  DMRG is variational and self-consistent.

Online monitor: every case builds a random Hermitian Hamiltonian (Hterm list -> generate_mpo; the dense
matrix of the resulting MPO(s) *is* H), an initial MPS of a chosen admissible charge, and drives
``mps.dmrg_(..., iterator=True)``.  After every sweep the state and the DMRG_out record are decided
against dense linear algebra restricted to the charge sector (basis states selected by vmon.groups):

 always      norm == 1, psi.factor == 1, right-canonical site tensors, no central block, weight outside the
             sector exactly 0, tensor charge == requested charge, DMRG_out.sweeps/method/denergy bookkeeping,
             reported energy == <psi|H|psi>, energy >= lowest eigenvalue in the sector,
             energy does not increase when nothing was truncated (1site, or max_discarded_weight <= 1e-14)
 premise-    converged (dE < 1e-12 twice) at maximal bond dimension (a site with both sides complete, or full Schmidt
 conditioned rank at every cut)  ->  eigen-residual;
             penalised run (project=[(penalty, phi0)]) with phi0 a converged eigenstate, itself converged at
             maximal bond dimension -> orthogonal to phi0 and at the lowest level of H + penalty |phi0><phi0|.
             Premise not observed -> counted (premise_unmet:*), never judged.
"""
from __future__ import annotations

import numpy as np

from vmon import groups as G
from vmon import tnref_dt as T
from vmon.harness import CaseSkip

PROP = "C09"
RULE = ("case = (symmetry [7], local space: named operator class or random generic charge set with fermionic flags, "
        "N, random Hermitian Hterm Hamiltonian with 1-3 body terms of any range and complex amplitudes given as single "
        "MPO / scaled MPO / list or tuple of MPOs / MPO sum, admissible charge, initial state: harness-built "
        "(full / fractional / D=1 manifold) or random_mps(D_total), canonical (possibly with factor != 1) or not, real or "
        "complex, method 1site / 2site / yastn.Method switching, opts_eigs variant (None, explicit which='SR', or dictionaries "
        "that leave which / hermitian / ncv to the defaults of yastn.eigs, incl. {}), optional shift H + c*1 with c above the "
        "spectral radius (all levels positive), opts_svd binding or not, precompute, convergence tolerances, "
        "1-6 sweeps; optional convergence stage and penalised stage); distinct = hash of those structural choices; "
        "non-trivial = sector dimension >= 2 and at least one sweep monitored")
ASSUMPTIONS = ["numpy.linalg.eigvalsh / dense matrix-vector products on <= 4096-dimensional sectors are the truth",
               "the dense matrix of the MPO returned by generate_mpo defines H (cases with a non-Hermitian or charge-"
               "changing dense image are skipped and counted)",
               "MpsMpoOBC.to_tensor + Tensor.to_numpy(legs=...) are observation functions (cross-validated by C01/C06)",
               "DMRG_out.energy of a penalised run may be <psi|H|psi> (what the test-suite asserts) or the penalised functional "
               "<H> + sum_i penalty_i |<phi_i|psi>|^2; both readings are accepted",
               "an eigs call is attributed to the mechanism 'Krylov basis not orthonormal' only when the probe on "
               "Tensor.expand_krylov_space observed a Gram-matrix defect > 1e-8 in that sweep"]

ETOL = 1e-10       # energy consistency / variational / monotonicity, times max(1, ||H||)
NTOL = 1e-11       # norm, canonical form
RES_TOL = 1e-4     # eigen-residual of a converged full-manifold run, times ||H||
CONV_DE = 1e-12


def plan(tier):
    if tier == "thorough":
        return {"cases": 4900, "shards": 16, "budget_s": 780}
    return {"cases": 322, "shards": 8, "budget_s": 110}


def floors(tier):
    k = 8 if tier == "thorough" else 1
    f = {"sweeps_monitored": 60 * k, "method:1site": 5 * k, "method:2site": 5 * k, "precompute:True": 5 * k,
         "precompute:False": 5 * k, "energy_checks": 60 * k, "variational_checks": 60 * k, "monotone_judged": 40 * k,
         "canonical_checks": 60 * k, "sector_checks": 60 * k, "H:list": 5 * k, "H:single": 5 * k,
         "start:random_mps": 5 * k, "start:noncanonical": 5 * k, "method_switches": 2 * k,
         "truncation_binding_sweeps": 2 * k, "fermionic_cases": 10 * k,
         "runs_opts_eigs_without_which_on_positive_spectrum": 10 * k, "opts_eigs:without-which": 20 * k,
         "opts_eigs:with-which": 20 * k, "opts_eigs:None": 10 * k, "H_shifted_by_positive_constant": 15 * k,
         "penalised_runs_opts_eigs_without_which": (5 if tier == "thorough" else 1),
         "converge_runs_without_which_on_positive_spectrum": (5 if tier == "thorough" else 1)}
    if tier == "thorough":
        f.update({"converged_premise_met": 5, "penalised_premise_met": 5, "penalised_runs": 5})
    else:
        f.update({"converged_premise_met": 1, "penalised_runs": 1})
    return f


# ------------------------------------------------------------------ case generation

def draw_case(ctx, idx):
    rng, nprng = ctx.rng(idx), ctx.nprng(idx)
    sym = G.ALL_SYMS[idx % len(G.ALL_SYMS)]
    Nch = (2, 3, 3, 4, 4, 5, 5, 6) + ((7, 8) if ctx.tier == "thorough" else ())
    sp, N, groups = T.draw_chain(rng, nprng, sym, Nch)
    return {"sym": sym, "N": N, "sp": sp, "groups": groups, "form": rng.choice(T.H_FORMS), "rng": rng, "nprng": nprng,
            "seed_backend": rng.randrange(2 ** 31)}


def initial_state(cs, n, counts, kind=None):
    """Returns (psi, description).  YastnError from random_mps ('zero state') is documented -> CaseSkip."""
    import yastn
    import yastn.tn.mps as mps
    rng, nprng, sp, N = cs["rng"], cs["nprng"], cs["sp"], cs["N"]
    kind = kind or rng.choice(("full", "full", "frac", "frac", "one", "random_mps", "random_mps", "random_mps"))
    dtype = rng.choice(("float64", "float64", "complex128"))
    if kind == "random_mps":
        Dtot = rng.choice((1, 2, 3, 4, 6, 8, 16, 64))
        I = mps.product_mpo(sp.I, N)
        try:
            psi = mps.random_mps(I, n=n, D_total=Dtot, dtype=dtype, sigma=rng.choice((1, 2, 4)))
        except yastn.YastnError as e:
            if "zero state" in str(e):
                raise CaseSkip
            raise
        desc = {"kind": kind, "D_total": Dtot, "dtype": dtype}
    else:
        psi = T.make_mps(rng, nprng, sp, N, n, mode=kind, dtype=dtype, counts=counts)
        desc = {"kind": kind, "dtype": dtype}
    canon = rng.random() < 0.4
    if canon:
        psi.canonize_(to="first")
        if rng.random() < 0.25:
            psi = rng.choice((2.0, 0.5, -1.5)) * psi        # canonical tensors, psi.factor != 1: dmrg_ must still normalise
            desc["scaled"] = True
    desc["canonical"] = canon
    return psi, desc


# opts_eigs is handed to yastn.eigs as **kwargs: every key is optional there (signature defaults which='SR', ncv=10,
# hermitian=False, tol=1e-13), so dictionaries that leave 'which' / 'hermitian' / 'ncv' out -- or are empty -- are valid
# and must still minimise the energy.
OPTS_EIGS = (None, None,
             {"hermitian": True, "ncv": 2, "which": "SR"},
             {"hermitian": True, "ncv": 4, "which": "SR"},
             {"hermitian": True, "ncv": 6, "which": "SR"},
             {"hermitian": True, "ncv": 12, "which": "SR"},
             {"hermitian": False, "ncv": 3, "which": "SR"},
             {"hermitian": False, "ncv": 5, "which": "SR"},
             {"which": "SR"},
             {"hermitian": True, "ncv": 4},
             {"hermitian": True, "ncv": 3},
             {"hermitian": True},
             {"ncv": 5},
             {"tol": 1e-10},
             {"hermitian": False, "ncv": 4},
             {})


def without_which(opts):
    return opts is not None and "which" not in opts


def shifted(rng, H, sp, N, c):
    """H + c * identity, in a shape that matches the shape of H: an extra (scaled identity) MPO in a list / tuple, or,
    for a single MPO, either the MPO sum ``H + c * I`` or the list ``[H, c * I]``."""
    import yastn.tn.mps as mps
    cI = c * mps.product_mpo(sp.I, N)
    if isinstance(H, (list, tuple)):
        return type(H)(list(H) + [cI]), "list"
    if rng.random() < 0.5:
        return H + cI, "added"
    return [H, cI], "list"


# ------------------------------------------------------------------ Krylov interposer (API boundary, no source edit)

KRY = {"installed": False, "worst": 0.0, "info": None, "calls": 0, "call_worst": 0.0, "call_alpha0": None,
       "bad_norm": 0.0, "bad_rise": 0.0}
EIGS_KEY = "eigs:krylov-basis-not-orthonormal"


def install_krylov_probe():
    """Two wrappers at the API boundary (no source edit):

    * Tensor.expand_krylov_space: record the worst |<V_i|V_j> - delta_ij| of the returned Krylov basis;
    * the ``eigs`` binding used by dmrg_: when the basis of *that call* was not orthonormal (defect > 1e-8), measure what
      eigs handed back -- the norm of the Ritz vector and its Rayleigh quotient <y|f(y)>/<y|y> (one extra application
      of f) against the Rayleigh quotient of the start vector.  With an orthonormal basis Ritz theory guarantees a unit
      vector whose Rayleigh quotient does not exceed that of the start vector, so nothing is measured then.

    The records only select the *mechanism key* of a clause that fails anyway; they never make a clause pass."""
    import yastn
    import yastn.tn.mps._dmrg as dm
    if KRY["installed"]:
        return
    orig = yastn.Tensor.expand_krylov_space

    def probe(self, f, tol, ncv, hermitian, V, H=None, **kwargs):
        V2, H2, happy = orig(self, f, tol, ncv, hermitian, V, H, **kwargs)
        KRY["calls"] += 1
        m = len(V2)
        worst = 0.0
        for i in range(m):
            for j in range(i, m):
                g = abs(complex(V2[i].vdot(V2[j])) - (1.0 if i == j else 0.0))
                worst = max(worst, g)
        KRY["call_worst"] = max(KRY["call_worst"], worst)
        if (0, 0) in H2:
            KRY["call_alpha0"] = float(np.real(complex(H2[(0, 0)])))
        if worst > KRY["worst"]:
            KRY["worst"] = worst
            KRY["info"] = {"gram_defect": worst, "vector_size": int(self.size), "ncv": int(ncv), "basis": m, "happy": bool(happy),
                           "hermitian": bool(hermitian),
                           "betas": [float(abs(H2[(j + 1, j)])) for j in range(m) if (j + 1, j) in H2]}
        return V2, H2, happy

    probe.__wrapped__ = orig
    yastn.Tensor.expand_krylov_space = probe

    orig_eigs = dm.eigs

    def eigs_probe(f, v0, *args, **kwargs):
        KRY["call_worst"], KRY["call_alpha0"] = 0.0, None
        val, Y = orig_eigs(f, v0, *args, **kwargs)
        if KRY["call_worst"] > 1e-8 and KRY["call_alpha0"] is not None and len(Y) > 0:
            y = Y[0]
            ny = float(y.norm())
            if ny > 0:
                rq = float(np.real(complex(y.vdot(f(y))))) / (ny * ny)
                KRY["bad_norm"] = max(KRY["bad_norm"], abs(ny - 1.0))
                KRY["bad_rise"] = max(KRY["bad_rise"], rq - KRY["call_alpha0"])
        return val, Y

    eigs_probe.__wrapped__ = orig_eigs
    dm.eigs = eigs_probe
    KRY["installed"] = True


def krylov_reset():
    KRY["worst"], KRY["info"], KRY["bad_norm"], KRY["bad_rise"] = 0.0, None, 0.0, 0.0


# ------------------------------------------------------------------ the oracle

def within(ctx, name, err, allowed):
    """ctx.margin, but observations that violate are recorded under a separate name so that the worst *passing* margin
    stays visible next to the known findings."""
    if err <= allowed:
        return ctx.margin(name, err, allowed)
    ctx.margin(name + " (violating cases)", err, allowed)
    return False


class Dense(T.Sector):
    """Dense sector data of one case (+ penalty terms of a projected run)."""

    def __init__(self, ctx, Hd, sp, N, n):
        super().__init__(ctx, Hd, sp, N, n)
        self.pen = []            # list of (penalty, dense sector vector)

    def add_penalty(self, penalty, vec):
        self.pen.append((penalty, vec))
        Hp = self.Hs.copy()
        for p, v in self.pen:
            Hp = Hp + p * np.outer(v, v.conj())
        self.Hp = Hp
        self.evp = np.linalg.eigvalsh(0.5 * (Hp + Hp.conj().T))

    def pen_energy(self, vs):
        return self.energy(vs) + sum(float(np.real(p)) * abs(np.vdot(v, vs)) ** 2 for p, v in self.pen)


def observe(ctx, psi, dn, tag, witness, out=None, gram=0.0, eigs_nonunit=0.0):
    """Clauses that hold for every state dmrg_ hands back.

    out / gram (DMRG_out of the sweep, worst Gram defect of a Krylov basis seen by the probe) only select the
    *mechanism key* of a failing normalisation clause; they never make a clause pass.
    Returns (normalised sector vector or None, norm of the state as returned)."""
    sp = dn.sp
    v, nten = T.mps_dense(psi, sp)
    # --- sector
    ctx.count("sector_checks")
    if nten != dn.n:
        ctx.violation("sector:tensor-charge", f"{tag}: charge of psi.to_tensor() is {nten}, initial state had {dn.n}", witness)
    w_out = float(np.max(np.abs(v[dn.mask_out]))) if dn.mask_out.any() else 0.0
    if w_out != 0.0:
        ctx.violation("sector:weight-outside", f"{tag}: amplitude {w_out:.3e} on basis states of another charge", witness)
    lg0 = psi[0].get_legs(axes=0)
    if len(lg0.t) != 1 or tuple(int(x) for x in lg0.t[0]) != dn.n or tuple(lg0.D) != (1,):
        ctx.violation("sector:first-virtual-leg", f"{tag}: first virtual leg is {lg0}, expected charge {dn.n} with D=1", witness)
    # --- normalisation (psi.factor and the scale of site 0 included)
    ctx.count("norm_checks")
    nv = float(np.linalg.norm(v))
    two = out is not None and out.method == "2site"
    dw = float(out.max_discarded_weight) if (two and out.max_discarded_weight is not None) else 0.0
    if not within(ctx, "norm" + (":after-2site-sweep" if two else ""), abs(nv - 1.0), NTOL):
        if two and dw > 1e-14 and 1 - dw * dw - 1e-9 <= nv * nv <= 1 + 1e-9:
            ctx.violation("not-normalised:2site-truncation",
                          f"{tag}: ||psi|| = {nv!r} after a 2site sweep with max_discarded_weight = {dw!r}: post_2site_ keeps the "
                          f"truncated Schmidt values un-normalised and _dmrg_sweep_2site_ never renormalises", witness)
        elif two and eigs_nonunit > NTOL / 2:
            ctx.violation(EIGS_KEY,
                          f"{tag}: ||psi|| = {nv!r} after a 2site sweep in which eigs returned a Ritz vector of norm 1 {eigs_nonunit:+.2e} "
                          f"because it combined a Krylov basis that was not orthonormal (max |<V_i|V_j> - delta_ij| = {gram:.2e}: Lanczos without re-orthogonalisation kept expanding after the Krylov "
                          f"space was exhausted / the start vector had converged, the residual staying above the fixed 1e-13 happy-breakdown "
                          f"threshold); the Ritz vector is then not a unit vector and _dmrg_sweep_2site_ never renormalises", witness)
        else:
            ctx.violation("not-normalised", f"{tag}: ||psi|| = {nv!r}", witness)
    if psi.factor != 1:
        ctx.violation("not-normalised:factor", f"{tag}: psi.factor = {psi.factor!r} after a normalising sweep", witness)
    # --- canonical form: sites 1..N-1 right isometries; site 0 (left dimension 1) is an isometry up to the norm judged above
    ctx.count("canonical_checks")
    if psi.pC is not None:
        ctx.violation("not-canonical:central-block", f"{tag}: central block left at {psi.pC}", witness)
    defect, _ = T.site_isometry_defect(psi, site0_upto_scale=True)
    if not ctx.margin("canonical", defect, NTOL):
        ctx.violation("not-canonical", f"{tag}: max |A A^+ - 1| = {defect:.3e} (right-canonical form expected)", witness)
    if not psi.is_canonical(to="first"):
        ctx.count("is_canonical_false")
    if nv == 0:
        return None, nv
    return v[dn.idx] / nv, nv


def judge_sweep(ctx, out, vs, nv, dn, st, tag, witness, gram=0.0, eigs_rise=0.0):
    """Energy clauses after one sweep.  st: running state of the monitored run (dict).

    E  = Rayleigh quotient of the returned state (variational bound, monotonicity);
    Eu = <psi|H|psi> of the state exactly as returned (what DMRG_out.energy must equal; == E when normalised)."""
    tol = ETOL * dn.scale
    E = dn.energy(vs)
    Ep = dn.pen_energy(vs) if dn.pen else E
    Eu, Epu = nv * nv * E, nv * nv * Ep
    penal = bool(dn.pen)
    dw = out.max_discarded_weight
    # --- reported energy
    ctx.count("energy_checks")
    if penal:
        ctx.count("energy_checks_penalised")
        err = min(abs(out.energy - Eu), abs(out.energy - Epu))      # either reading of "energy" of a penalised run
        if not within(ctx, "energy:penalised", err, tol):
            bare = nv * sum(float(np.real(np.vdot(vs, v))) for _, v in dn.pen)
            ovl = sum(abs(np.vdot(v, vs)) for _, v in dn.pen)
            if abs(out.energy - (Eu + bare)) <= tol:
                ctx.violation("energy-mismatch:project-overlap-term",
                              f"{tag}: DMRG_out.energy = {out.energy!r} but <psi|H|psi> = {Eu!r} (penalised functional {Epu!r}); the "
                              f"difference {out.energy - Eu:.3e} equals sum_i Re<psi|phi_i> = {bare:.3e}: Env_project inherits "
                              f"Env2.measure, so env.measure() adds the bare overlaps", dict(witness, overlap=ovl))
            else:
                ctx.violation("energy-mismatch:penalised", f"{tag}: DMRG_out.energy = {out.energy!r}, <psi|H|psi> = {Eu!r}, "
                              f"penalised functional = {Epu!r}", witness)
    elif not ctx.margin("energy", abs(out.energy - Eu), tol):
        ctx.violation("energy-mismatch", f"{tag}: DMRG_out.energy = {out.energy!r} but dense <psi|H|psi> = {Eu!r} "
                      f"(diff {abs(out.energy - Eu):.3e}, allowed {tol:.1e})", witness)
    # --- variational bound (Rayleigh quotient of whatever was returned)
    ctx.count("variational_checks")
    lo = dn.ev[0]
    if not ctx.margin("variational", max(0.0, lo - E), tol):
        ctx.violation("below-ground-state", f"{tag}: <H> = {E!r} below the lowest sector eigenvalue {lo!r}", witness)
    if not penal and out.energy < lo - tol and abs(nv - 1.0) <= NTOL:
        ctx.violation("below-ground-state:reported", f"{tag}: reported energy {out.energy!r} below the lowest sector eigenvalue {lo!r}", witness)
    # --- monotonicity of the functional that is minimised: <H> + sum penalty |<phi|psi>|^2
    nothing_truncated = (dw is None) or (dw <= 1e-14)
    if nothing_truncated:
        ctx.count("monotone_judged")
        if not within(ctx, "monotone", max(0.0, Ep - st["Ep_prev"]), tol):
            ctx.violation(EIGS_KEY if eigs_rise > tol else "energy-increased:" + ("penalised" if penal else str(out.method)),
                          f"{tag}: energy rose from {st['Ep_prev']!r} to {Ep!r} (+{Ep - st['Ep_prev']:.3e}) although nothing was truncated "
                          f"(max_discarded_weight={dw})" + (f"; in this sweep eigs combined a Krylov basis that was not orthonormal (max "
                          f"|<V_i|V_j> - delta_ij| = {gram:.2e}) and returned a vector whose Rayleigh quotient is {eigs_rise:.3e} above that "
                          f"of its start vector" if eigs_rise > tol else ""), witness)
    else:
        ctx.count("monotone_not_judged_truncation")
        ctx.count("truncation_binding_sweeps")
    # --- bookkeeping of DMRG_out
    ctx.count("bookkeeping_checks")
    if out.sweeps != st["sweeps"]:
        ctx.violation("bookkeeping:sweeps", f"{tag}: DMRG_out.sweeps = {out.sweeps}, {st['sweeps']} sweeps were yielded", witness)
    if out.method != st["method"]:
        ctx.violation("bookkeeping:method", f"{tag}: DMRG_out.method = {out.method!r}, requested {st['method']!r}", witness)
    if (out.max_discarded_weight is None) != (st["method"] == "1site"):
        ctx.violation("bookkeeping:max_discarded_weight", f"{tag}: max_discarded_weight = {dw!r} for method {st['method']}", witness)
    if not penal:
        dE = abs(Eu - st["Eu_prev"])
        if not ctx.margin("denergy", abs(out.denergy - dE), 2 * tol):
            ctx.violation("bookkeeping:denergy", f"{tag}: DMRG_out.denergy = {out.denergy!r} but |E_k - E_(k-1)| = {dE!r}", witness)
    if (out.max_dSchmidt is None) != (st["Schmidt_tol"] is None):
        ctx.violation("bookkeeping:max_dSchmidt", f"{tag}: max_dSchmidt = {out.max_dSchmidt!r} with Schmidt_tol = {st['Schmidt_tol']!r}", witness)
    st["dE_hist"].append(abs(Ep - st["Ep_prev"]))
    st["E_prev"], st["Ep_prev"], st["Eu_prev"] = E, Ep, Eu
    return E, Ep


def schmidt_full(vs_full, sp, N, counts, thr=1e-8):
    """Dense Schmidt rank at every cut equals the maximal bond dimension (premise of the eigenstate clause)."""
    d = sp.d
    for k in range(1, N):
        need = sum(min(l, r) for l, r in counts[k].values())
        s = np.linalg.svd(vs_full.reshape(d ** k, -1), compute_uv=False)
        if int(np.sum(s > thr)) < need:
            return False
    return True


def monitored_run(ctx, psi, H, dn, counts, cfgrun, tag, witness, stop_when_converged=False):
    """Drive dmrg_ as an iterator and judge after every sweep.  Returns summary dict."""
    import yastn
    import yastn.tn.mps as mps
    sp = dn.sp
    # energy of the initial state (dmrg_ canonises + normalises it first)
    v0, _ = T.mps_dense(psi, sp)
    n0 = float(np.linalg.norm(v0))
    if n0 == 0 or not np.isfinite(n0):
        raise CaseSkip
    vs0 = v0[dn.idx] / n0
    st = {"E_prev": dn.energy(vs0), "Ep_prev": dn.pen_energy(vs0) if dn.pen else dn.energy(vs0), "sweeps": 0,
          "Eu_prev": dn.energy(vs0),
          "dE_hist": [], "Schmidt_tol": cfgrun.get("Schmidt_tol"), "method": None}
    install_krylov_probe()
    krylov_reset()
    plan_methods = cfgrun["methods"]            # list of method per sweep
    method = yastn.Method(plan_methods[0]) if cfgrun["use_Method"] else plan_methods[0]
    kw = dict(method=method, max_sweeps=len(plan_methods), iterator=True, precompute=cfgrun["precompute"])
    if cfgrun.get("opts_eigs") is not None:
        kw["opts_eigs"] = dict(cfgrun["opts_eigs"])
    if cfgrun.get("opts_svd") is not None:
        kw["opts_svd"] = dict(cfgrun["opts_svd"])
    if cfgrun.get("energy_tol") is not None:
        kw["energy_tol"] = cfgrun["energy_tol"]
    if cfgrun.get("Schmidt_tol") is not None:
        kw["Schmidt_tol"] = cfgrun["Schmidt_tol"]
    if cfgrun.get("project") is not None:
        kw["project"] = cfgrun["project"]
    vs = vs0
    last = None
    converged = False
    for out in mps.dmrg_(psi, H, **kw):
        st["sweeps"] += 1
        k = st["sweeps"]
        st["method"] = plan_methods[k - 1]
        ctx.count("sweeps_monitored")
        ctx.count("method:" + st["method"])
        ctx.count("precompute:" + str(cfgrun["precompute"]))
        w = dict(witness, sweep=k, out=list(out))
        gram = KRY["worst"]
        ctx.margin("krylov-gram-defect(diagnostic)", gram, 1.0)
        if gram > 1e-8:
            ctx.count("sweeps_with_nonorthonormal_krylov_basis")
            w["krylov"] = KRY["info"]
        bad_norm, bad_rise = KRY["bad_norm"], KRY["bad_rise"]
        if gram > 1e-8:
            w["krylov"] = dict(KRY["info"], ritz_vector_norm_defect=bad_norm, rayleigh_quotient_rise=bad_rise)
        vs_new, nv = observe(ctx, psi, dn, f"{tag} sweep {k}", w, out=out, gram=gram, eigs_nonunit=bad_norm)
        krylov_reset()
        if vs_new is None:
            break
        vs = vs_new
        judge_sweep(ctx, out, vs, nv, dn, st, f"{tag} sweep {k}", w, gram=gram, eigs_rise=bad_rise)
        last = out
        if k < len(plan_methods) and plan_methods[k] != plan_methods[k - 1]:
            method.update_(plan_methods[k])
            ctx.count("method_switches")
        h = st["dE_hist"]
        if len(h) >= 2 and h[-1] < CONV_DE * dn.scale and h[-2] < CONV_DE * dn.scale:
            converged = True
            if stop_when_converged:
                break
    return {"vs": vs, "out": last, "sweeps": st["sweeps"], "converged": converged, "E": st["E_prev"], "Ep": st["Ep_prev"]}


def judge_eigenstate(ctx, dn, vs, tag, witness):
    E = dn.energy(vs)
    resid = float(np.linalg.norm(dn.Hs @ vs - E * vs))
    if not ctx.margin("eigen-residual", resid, RES_TOL * dn.scale):
        ctx.violation("converged-not-eigenstate", f"{tag} but ||H psi - E psi|| = {resid:.3e} (||H|| = {dn.scale:.3g})", witness)
    return E, resid


# ------------------------------------------------------------------ one case

def stage_opts(rng):
    """Lanczos with a Krylov space large enough to converge in a few sweeps; 'which' spelled out or left to the default."""
    o = {"hermitian": True, "ncv": rng.choice((6, 10))}
    if rng.random() < 0.5:
        o["which"] = "SR"
    return o


def run_case(ctx, idx):
    import yastn.tn.mps as mps
    cs = draw_case(ctx, idx)
    rng, sp, N, sym = cs["rng"], cs["sp"], cs["N"], cs["sym"]
    sp.cfg.backend.random_seed(cs["seed_backend"])
    H, hform = T.build_H(rng, sp, N, cs["groups"], cs["form"])
    Hd = T.hermitian_dense_or_skip(ctx, H, sp)
    n, dims = T.pick_charge(rng, sp, N)
    dn = Dense(ctx, Hd, sp, N, n)
    # The lowest level must be targeted wherever the spectrum sits: some Hamiltonians are shifted by +c*identity with c above
    # the spectral radius of the sector (every level positive, the top of the spectrum largest in magnitude) -- mostly when
    # opts_eigs leaves the choice of the targeted Ritz value ('which') to the default of yastn.eigs.
    opts_eigs = rng.choice(OPTS_EIGS)
    shift = None
    if rng.random() < (0.75 if without_which(opts_eigs) else 0.12):
        shift = round(float(1.5 * dn.scale + rng.uniform(0.5, 1.5)), 3)
        H, hform = shifted(rng, H, sp, N, shift)
        Hd = T.hermitian_dense_or_skip(ctx, H, sp)
        dn = Dense(ctx, Hd, sp, N, n)
    counts = T.block_counts(sp, N, n)
    psi, sdesc = initial_state(cs, n, counts)

    # run configuration
    nsw = rng.randint(1, 6)
    mode = rng.choice(("1site", "1site", "2site", "2site", "switch21", "switch12"))
    if mode in ("1site", "2site"):
        methods = [mode] * nsw
    else:
        nsw = max(nsw, 2)
        cut = rng.randint(1, nsw - 1)
        a, b = ("2site", "1site") if mode == "switch21" else ("1site", "2site")
        methods = [a] * cut + [b] * (nsw - cut)
    opts_svd = None
    if "2site" in methods or rng.random() < 0.2:
        Dfull = max(sum(min(l, r) for l, r in c.values()) for c in counts)
        opts_svd = rng.choice(({"D_total": 4 * Dfull + 4}, {"D_total": 4 * Dfull + 4, "tol": 1e-14},
                               {"D_total": max(1, Dfull // 2), "tol": 1e-10}, {"D_total": rng.randint(1, max(1, Dfull))},
                               {"tol": 1e-3}, {"D_total": 4 * Dfull + 4, "D_block": max(1, Dfull // 2)}))
    cfgrun = {"methods": methods, "use_Method": mode.startswith("switch") or rng.random() < 0.2,
              "precompute": rng.random() < 0.5, "opts_eigs": opts_eigs, "opts_svd": opts_svd,
              "energy_tol": rng.choice((None, None, None, 1e-6, 1e-13)),
              "Schmidt_tol": rng.choice((None, None, None, 1e-5, 1e-12))}
    sig = (sym, sp.family, sp.fermionic, sp.phys.sectors, N, hform, shift is not None, len(cs["groups"]), n, sdesc["kind"],
           sdesc.get("D_total"), sdesc["dtype"], sdesc["canonical"], sdesc.get("scaled"), tuple(methods), cfgrun["use_Method"], cfgrun["precompute"],
           repr(cfgrun["opts_eigs"]), repr(opts_svd), cfgrun["energy_tol"], cfgrun["Schmidt_tol"])
    witness = {"idx": idx, "space": sp.desc(), "N": N, "H_form": hform, "terms": T.terms_desc(cs["groups"]), "shift": shift,
               "charge": list(n), "sector_dim": int(len(dn.idx)), "sector_levels": [float(dn.ev[0]), float(dn.ev[-1])], "start": sdesc, "bond_dims_start": T.total_bond_dims(psi),
               "run": {k: (v if k != "opts_eigs" else repr(v)) for k, v in cfgrun.items()}}
    ctx.count("H:" + ("list" if hform == "list" else "single"))
    ctx.count("Hform:" + hform)
    ctx.count("start:" + sdesc["kind"])
    ctx.count("start:" + ("canonical" if sdesc["canonical"] else "noncanonical"))
    ctx.count("sym:" + sym)
    if sp.fermionic:
        ctx.count("fermionic_cases")
    if np.iscomplexobj(Hd):
        ctx.count("complex_H")
    positive = bool(dn.ev[0] > 0)
    if shift is not None:
        ctx.count("H_shifted_by_positive_constant")
    if positive:
        ctx.count("runs_on_positive_spectrum")
    ctx.count("opts_eigs:" + ("None" if opts_eigs is None else ("without-which" if without_which(opts_eigs) else "with-which")))
    if without_which(opts_eigs) and positive and len(dn.idx) >= 2:
        ctx.count("runs_opts_eigs_without_which_on_positive_spectrum")

    res = monitored_run(ctx, psi, H, dn, counts, cfgrun, "main", witness)
    nontrivial = len(dn.idx) >= 2 and res["sweeps"] >= 1
    ctx.case(sig, nontrivial, {k: witness[k] for k in ("space", "N", "H_form", "shift", "charge", "sector_dim", "sector_levels", "start", "bond_dims_start", "run")})
    if res["sweeps"] < len(methods):
        ctx.count("stopped_early_by_tolerance")

    # ---------------- convergence stage (premise-conditioned eigenstate clause)
    want = rng.random() < (0.5 if ctx.tier == "thorough" else 0.45)
    if not want or len(dn.idx) < 2 or len(dn.idx) > 150 or sp.d ** N > 300:
        return
    ctx.count("convergence_stage_runs")
    psi_c = T.make_mps(rng, cs["nprng"], sp, N, n, mode="full", dtype=rng.choice(("float64", "complex128")), counts=counts)
    m2 = rng.choice(("1site", "2site"))
    cfg2 = {"methods": [m2] * 30, "use_Method": False, "precompute": rng.random() < 0.5,
            "opts_eigs": stage_opts(rng),
            "opts_svd": {"D_total": 100000} if m2 == "2site" else None}
    if without_which(cfg2["opts_eigs"]) and positive:
        ctx.count("converge_runs_without_which_on_positive_spectrum")
    w2 = dict(witness, stage="converge", run2={k: repr(v) for k, v in cfg2.items()})
    r2 = monitored_run(ctx, psi_c, H, dn, counts, cfg2, "converge", w2, stop_when_converged=True)
    # premise: converged, and either the bond structure contains a site whose two sides are both complete (its local
    # eigenproblem then *is* the sector eigenproblem) or the manifold is the whole sector at a point of full Schmidt rank
    # (the tangent space is then the whole sector)
    met = r2["converged"]
    if not met:
        ctx.count("premise_unmet:not-converged")
    elif T.exactness_premise(psi_c, counts):
        ctx.count("premise_met:two-sided-complete-site")
    elif T.is_full_manifold(psi_c, counts) and schmidt_full(dn.embed(r2["vs"]), sp, N, counts):
        ctx.count("premise_met:full-schmidt-rank")
    else:
        met = False
        ctx.count("premise_unmet:no-complete-site-and-rank-deficient")
    if not met:
        return
    ctx.count("converged_premise_met")
    vs = r2["vs"]
    E, resid = judge_eigenstate(ctx, dn, vs, f"converged ({r2['sweeps']} sweeps, dE<1e-12 twice) at maximal bond dimension", w2)
    if abs(E - dn.ev[0]) <= 1e-7 * dn.scale:
        ctx.count("converged_to_ground_state")
    else:
        ctx.count("converged_to_excited_eigenstate")

    # ---------------- penalised stage
    if resid > 1e-7 * dn.scale or len(dn.idx) < 3:
        ctx.count("premise_unmet:projected-state-not-sharp")
        return
    ctx.count("penalised_runs")
    width = float(dn.ev[-1] - dn.ev[0])
    default_pen = width < 40 and rng.random() < 0.5
    penalty = 100 if default_pen else float(round(2 * width + 1 + rng.random(), 3))
    project = [psi_c] if default_pen else [(penalty, psi_c)]
    vphi, _ = T.mps_dense(psi_c, sp)       # the projected MPS exactly as it is (its norm can deviate from 1, see EIGS_KEY)
    dn.add_penalty(penalty, vphi[dn.idx])
    psi_p = T.make_mps(rng, cs["nprng"], sp, N, n, mode="full", dtype=rng.choice(("float64", "complex128")), counts=counts)
    m3 = rng.choice(("1site", "2site"))
    cfg3 = {"methods": [m3] * 40, "use_Method": False, "precompute": rng.random() < 0.5,
            "opts_eigs": stage_opts(rng),
            "opts_svd": {"D_total": 100000} if m3 == "2site" else None, "project": project}
    if without_which(cfg3["opts_eigs"]):
        ctx.count("penalised_runs_opts_eigs_without_which")      # the penalty itself puts a large positive level on top
    w3 = dict(witness, stage="penalised", penalty=penalty, default_penalty=default_pen, run3={k: repr(v) for k, v in cfg3.items() if k != "project"})
    r3 = monitored_run(ctx, psi_p, H, dn, counts, cfg3, "penalised", w3, stop_when_converged=True)
    if not (r3["converged"] and (T.exactness_premise(psi_p, counts) or
                                 (T.is_full_manifold(psi_p, counts) and schmidt_full(dn.embed(r3["vs"]), sp, N, counts)))):
        ctx.count("premise_unmet:penalised-not-converged-or-no-complete-site")
        return
    ctx.count("penalised_premise_met")
    vp = r3["vs"]
    ov = abs(np.vdot(vs, vp))
    if not ctx.margin("project-overlap", ov, 1e-5):
        ctx.violation("project:not-orthogonal", f"penalised run (penalty {penalty}) converged with |<phi0|psi>| = {ov:.3e}", w3)
    Ep = dn.energy(vp)
    target = float(dn.evp[0])
    if abs(Ep - target) <= 1e-7 * dn.scale:
        ctx.margin("project-next-level", abs(Ep - target), 1e-7 * dn.scale)
    else:
        rp = float(np.linalg.norm(dn.Hp @ vp - dn.pen_energy(vp) * vp))
        if rp <= 1e-6 * dn.scale and Ep > target:
            ctx.margin("project-next-level (not judged: stationary at a higher level)", abs(Ep - target), 1e-7 * dn.scale)
            # converged to a higher eigenstate of H + penalty |phi0><phi0| (a stationary point of the sweep, e.g. protected by
            # a symmetry of the random Hamiltonian that the tensors do not encode): convergence to the *lowest* level is an
            # asymptotic promise, so this is counted and not judged
            ctx.count("penalised_stuck_in_higher_eigenstate")
        else:
            ctx.margin("project-next-level (violating cases)", abs(Ep - target), 1e-7 * dn.scale)
            ctx.violation("project:wrong-level", f"penalised run converged at <H> = {Ep!r}; lowest level of H + penalty|phi0><phi0| is "
                          f"{target!r} (levels {dn.ev[:3].tolist()})", w3)


# ------------------------------------------------------------------ canaries

def canaries(ctx):
    """Feed the oracle corrupted observations of a real, healthy run."""
    import random
    import collections
    import yastn.tn.mps as mps
    rng, nprng = random.Random(7), np.random.default_rng(7)
    sp = T.named_space("U1", "spinless")
    N, n = 4, (2,)
    groups = T.draw_terms(rng, sp, N, cplx=True)
    H = T.build_mpo(sp, N, groups)
    dn = Dense(None, T.ham_dense(H, sp), sp, N, n)
    counts = T.block_counts(sp, N, n)
    psi = T.make_mps(rng, nprng, sp, N, n, mode="full", counts=counts)
    out = mps.dmrg_(psi, H, method="1site", max_sweeps=2)
    Out = collections.namedtuple("Out", "sweeps method energy denergy max_dSchmidt max_discarded_weight")

    def fresh():
        return type(ctx)(ctx.prop, ctx.tier, ctx.seed)

    def keys(sub):
        return {v["key"] for v in sub.violations}

    sub = fresh()
    vs, nv = observe(sub, psi, dn, "canary", {})
    E = dn.energy(vs)
    ctx.canary("healthy-run-is-silent", not sub.violations and abs(out.energy - E) < 1e-9)
    st0 = {"E_prev": E + 0.1, "Ep_prev": E + 0.1, "Eu_prev": E + 0.1, "sweeps": 2, "dE_hist": [],
           "Schmidt_tol": None, "method": "1site"}
    # stale / shifted energy
    sub = fresh()
    judge_sweep(sub, Out(2, "1site", E + 1e-6, 0.1, None, None), vs, 1.0, dn, dict(st0, dE_hist=[]), "canary", {})
    ctx.canary("energy-shifted", "energy-mismatch" in keys(sub))
    # energy went up
    sub = fresh()
    judge_sweep(sub, Out(2, "1site", E, 1e-6, None, None), vs, 1.0, dn, dict(st0, E_prev=E - 1e-6, Ep_prev=E - 1e-6, Eu_prev=E - 1e-6, dE_hist=[]), "canary", {})
    ctx.canary("energy-increased", any(k.startswith("energy-increased") for k in keys(sub)))
    # state below the ground state: shift the spectrum seen by the oracle
    sub = fresh()
    dn2 = Dense(None, T.ham_dense(H, sp), sp, N, n)
    dn2.ev = dn2.ev + (E - dn2.ev[0]) + 1e-6
    judge_sweep(sub, Out(2, "1site", E, 0.1, None, None), vs, 1.0, dn2, dict(st0, dE_hist=[]), "canary", {})
    ctx.canary("below-ground-state", "below-ground-state" in keys(sub))
    # wrong sweep counter / method / denergy
    sub = fresh()
    judge_sweep(sub, Out(3, "2site", E, 0.3, None, None), vs, 1.0, dn, dict(st0, dE_hist=[]), "canary", {})
    ctx.canary("bookkeeping", {"bookkeeping:sweeps", "bookkeeping:method", "bookkeeping:denergy"} <= keys(sub))
    # un-normalised / non-canonical / central block left
    sub = fresh()
    bad = psi.shallow_copy()
    bad.A[1] = 1.0001 * bad.A[1]
    observe(sub, bad, dn, "canary", {})
    ctx.canary("norm-and-canonical", {"not-normalised", "not-canonical"} <= keys(sub))
    sub = fresh()
    bad = psi.shallow_copy()
    bad.orthogonalize_site_(0, to="last")
    observe(sub, bad, dn, "canary", {})
    ctx.canary("central-block", "not-canonical:central-block" in keys(sub))
    # wrong sector: judge the state against another charge
    sub = fresh()
    dn3 = Dense(None, T.ham_dense(H, sp), sp, N, (1,))
    observe(sub, psi, dn3, "canary", {})
    ctx.canary("wrong-sector", {"sector:tensor-charge", "sector:weight-outside"} <= keys(sub))
    # residual oracle: a superposition of two eigenvectors is not an eigenstate
    w, U = np.linalg.eigh(dn.Hs)
    mix = (U[:, 0] + 0.3 * U[:, -1]) / np.sqrt(1.09)
    sub = fresh()
    judge_eigenstate(sub, dn, mix, "canary", {})
    ctx.canary("residual", "converged-not-eigenstate" in keys(sub))


def finalize(cov, merged):
    c = merged["counters"]
    cov["symmetries_seen"] = sorted(k[4:] for k in c if k.startswith("sym:"))
    if len(cov["symmetries_seen"]) < 7:
        cov["inconclusive_reasons"].append("not every symmetry exercised")
    cov["premise_conditioned"] = {k: int(v) for k, v in c.items() if k.startswith("premise_unmet") or k.endswith("premise_met")
                                  or k.startswith("converged_to") or k.startswith("penalised_")}
