"""C09  DMRG is variational and self-consistent.

Online monitor: every case builds a random Hermitian Hamiltonian (Hterm list -> generate_mpo; the dense
matrix of the resulting MPO(s) *is* H), an initial MPS of a chosen admissible charge, and drives
``mps.dmrg_(..., iterator=True)``.  After every sweep the state and the DMRG_out record are decided
against dense linear algebra restricted to the charge sector (basis states selected by vmon.groups):

 always      norm == 1, psi.factor == 1, right-canonical site tensors, no central block, weight outside the
             sector exactly 0, tensor charge == requested charge, DMRG_out.sweeps/method/denergy bookkeeping,
             reported energy == <psi|H|psi>, energy >= lowest eigenvalue in the sector,
             energy does not increase when nothing was truncated (1site, or max_discarded_weight <= 1e-14)
 premise-    converged (dE < 1e-12 twice) at maximal bond dimension (a site with both sides complete, or full Schmidt
 conditioned rank at every cut)  ->  eigen-residual;
             penalised run (project=[(penalty, phi0)]) with phi0 a converged eigenstate, itself converged at
             maximal bond dimension -> orthogonal to phi0 and at the lowest level of H + penalty |phi0><phi0|.
             Premise not observed -> counted (premise_unmet:*), never judged.
"""
from __future__ import annotations

import numpy as np

from vmon import groups as G
from vmon import tnref_dt as T
from vmon.harness import CaseSkip

PROP = "C09"
RULE = ("case = (symmetry [7], local space: named operator class or random generic charge set with fermionic flags, "
        "N, random Hermitian Hterm Hamiltonian with 1-3 body terms of any range and complex amplitudes given as single "
        "MPO / scaled MPO / list or tuple of MPOs / MPO sum, admissible charge, initial state: harness-built "
        "(full / fractional / D=1 manifold) or random_mps(D_total), canonical (possibly with factor != 1) or not, real or "
        "complex, method 1site / 2site / yastn.Method switching, opts_eigs variant (None, explicit which='SR', or dictionaries "
        "that leave which / hermitian / ncv to the defaults of yastn.eigs, incl. {}), optional shift H + c*1 with c above the "
        "spectral radius (all levels positive), special operators H = 0 / c*identity / 10^k * H (k = -8..8), start scaled by a "
        "factor or on one site tensor by up to 10^+-20, N = 1..6(8), call form iterator=True / iterator_step=s / direct, optional "
        "arguments omitted one at a time or all together, option dictionaries and the MPO list in shuffled order, project=[] / "
        "default / tuple / repeated state / two eigenstates in any order, must-reject arguments, max_sweeps=0, opts_svd {} or binding, precompute, convergence tolerances, "
        "1-6 sweeps; optional convergence stage and penalised stage); distinct = hash of those structural choices; "
        "non-trivial = sector dimension >= 2 and at least one sweep monitored")
ASSUMPTIONS = ["numpy.linalg.eigvalsh / dense matrix-vector products on <= 4096-dimensional sectors are the truth",
               "the dense matrix of the MPO returned by generate_mpo defines H (cases with a non-Hermitian or charge-"
               "changing dense image are skipped and counted)",
               "MpsMpoOBC.to_tensor + Tensor.to_numpy(legs=...) are observation functions (cross-validated by C01/C06)",
               "DMRG_out.energy of a penalised run may be <psi|H|psi> (what the test-suite asserts) or the penalised functional "
               "<H> + sum_i penalty_i |<phi_i|psi>|^2; both readings are accepted",
               "an eigs call is attributed to the mechanism 'Krylov basis not orthonormal' only when the probe on "
               "Tensor.expand_krylov_space observed a Gram-matrix defect > 1e-8 in that sweep"]

ETOL = 1e-10       # energy consistency / variational / monotonicity, times max(1, ||H||)
NTOL = 1e-11       # norm, canonical form
RES_TOL = 1e-4     # eigen-residual of a converged full-manifold run, times ||H||
CONV_DE = 1e-12


def plan(tier):
    if tier == "thorough":
        return {"cases": 4900, "shards": 16, "budget_s": 780}
    return {"cases": 322, "shards": 8, "budget_s": 110}


def floors(tier):
    k = 8 if tier == "thorough" else 1
    f = {"sweeps_monitored": 60 * k, "method:1site": 5 * k, "method:2site": 5 * k, "precompute:True": 5 * k,
         "precompute:False": 5 * k, "energy_checks": 60 * k, "variational_checks": 60 * k, "monotone_judged": 40 * k,
         "canonical_checks": 60 * k, "sector_checks": 60 * k, "H:list": 5 * k, "H:single": 5 * k,
         "start:random_mps": 5 * k, "start:noncanonical": 5 * k, "method_switches": 2 * k,
         "truncation_binding_sweeps": 2 * k, "fermionic_cases": 10 * k,
         "runs_opts_eigs_without_which_on_positive_spectrum": 10 * k, "opts_eigs:without-which": 20 * k,
         "opts_eigs:with-which": 20 * k, "opts_eigs:None": 10 * k, "H_shifted_by_positive_constant": 15 * k,
         "form:direct": 20 * k, "form:step": 10 * k, "omitted:all": 5 * k, "omitted:none": 20 * k, "iterator_vs_direct_compared": 8 * k,
         "H_special:zero": k, "H_special:identity": k, "H_special:scaled": 3 * k, "start:scaled": 10 * k, "N=1": 5 * k,
         "N=2": 10 * k, "must_reject_ok": 3 * k, "max_sweeps=0_cases": 1 * k, "project=[]": 3 * k,
         "2site_with_empty_opts_svd": 3 * k, "penalised2_premise_met": 2 * k,
         "project_listed_state_factor!=1:1site": 4 * k, "project_listed_state_factor!=1:2site": 4 * k,
         "project_listed_state_site_scaled:1site": 2 * k, "project_listed_state_site_scaled:2site": 2 * k,
         "project_mixed_forms_tuple_before_bare": 3 * k, "project_mixed_forms_bare_before_tuple": 3 * k,
         "penalised_runs_opts_eigs_without_which": (5 if tier == "thorough" else 1),
         "converge_runs_without_which_on_positive_spectrum": (5 if tier == "thorough" else 1)}
    if tier == "thorough":
        f.update({"converged_premise_met": 5, "penalised_premise_met": 5, "penalised_runs": 5})
    else:
        f.update({"converged_premise_met": 1, "penalised_runs": 1})
    return f


# ------------------------------------------------------------------ case generation

def draw_case(ctx, idx):
    rng, nprng = ctx.rng(idx), ctx.nprng(idx)
    sym = G.ALL_SYMS[idx % len(G.ALL_SYMS)]
    Nch = (1, 2, 2, 3, 3, 4, 4, 5, 5, 6) + ((7, 8) if ctx.tier == "thorough" else ())
    sp, N, groups = T.draw_chain(rng, nprng, sym, Nch)
    return {"sym": sym, "N": N, "sp": sp, "groups": groups, "form": rng.choice(T.H_FORMS), "rng": rng, "nprng": nprng,
            "seed_backend": rng.randrange(2 ** 31)}


def initial_state(cs, n, counts, kind=None):
    """Returns (psi, description).  YastnError from random_mps ('zero state') is documented -> CaseSkip."""
    import yastn
    import yastn.tn.mps as mps
    rng, nprng, sp, N = cs["rng"], cs["nprng"], cs["sp"], cs["N"]
    kind = kind or rng.choice(("full", "full", "frac", "frac", "one", "random_mps", "random_mps", "random_mps"))
    dtype = rng.choice(("float64", "float64", "complex128"))
    if kind == "random_mps":
        Dtot = rng.choice((1, 2, 3, 4, 6, 8, 16, 64))
        I = mps.product_mpo(sp.I, N)
        try:
            psi = mps.random_mps(I, n=n, D_total=Dtot, dtype=dtype, sigma=rng.choice((1, 2, 4)))
        except yastn.YastnError as e:
            if "zero state" in str(e):
                raise CaseSkip
            raise
        desc = {"kind": kind, "D_total": Dtot, "dtype": dtype}
    else:
        psi = T.make_mps(rng, nprng, sp, N, n, mode=kind, dtype=dtype, counts=counts)
        desc = {"kind": kind, "dtype": dtype}
    canon = rng.random() < 0.4
    if canon:
        psi.canonize_(to="first")
    if rng.random() < 0.25:
        # any norm is legal: dmrg_ returns a normalised state regardless of psi.factor or of the scale of a site tensor
        f = rng.choice((2.0, 0.5, -1.5, 10.0 ** rng.randint(-20, 20), -(10.0 ** rng.randint(-20, 20))))
        if rng.random() < 0.5:
            psi = f * psi                                   # psi.factor != 1 (tensors untouched: still canonical if it was)
            desc["scaled"] = ["factor", f]
        else:
            j = rng.randrange(N)
            psi[j] = f * psi[j]
            desc["scaled"] = ["site", j, f]
            canon = False
    desc["canonical"] = canon
    return psi, desc


# opts_eigs is handed to yastn.eigs as **kwargs: every key is optional there (signature defaults which='SR', ncv=10,
# hermitian=False, tol=1e-13), so dictionaries that leave 'which' / 'hermitian' / 'ncv' out -- or are empty -- are valid
# and must still minimise the energy.
OPTS_EIGS = (None, None,
             {"hermitian": True, "ncv": 2, "which": "SR"},
             {"hermitian": True, "ncv": 4, "which": "SR"},
             {"hermitian": True, "ncv": 6, "which": "SR"},
             {"hermitian": True, "ncv": 12, "which": "SR"},
             {"hermitian": False, "ncv": 3, "which": "SR"},
             {"hermitian": False, "ncv": 5, "which": "SR"},
             {"which": "SR"},
             {"hermitian": True, "ncv": 4},
             {"hermitian": True, "ncv": 3},
             {"hermitian": True},
             {"ncv": 5},
             {"tol": 1e-10},
             {"hermitian": False, "ncv": 4},
             {})


def without_which(opts):
    return opts is not None and "which" not in opts


def shifted(rng, H, sp, N, c):
    """H + c * identity, in a shape that matches the shape of H: an extra (scaled identity) MPO in a list / tuple, or,
    for a single MPO, either the MPO sum ``H + c * I`` or the list ``[H, c * I]``."""
    import yastn.tn.mps as mps
    cI = c * mps.product_mpo(sp.I, N)
    if isinstance(H, (list, tuple)):
        return type(H)(list(H) + [cI]), "list"
    if rng.random() < 0.5:
        return H + cI, "added"
    return [H, cI], "list"


# ------------------------------------------------------------------ Krylov interposer (API boundary, no source edit)

KRY = {"installed": False, "worst": 0.0, "info": None, "calls": 0, "call_worst": 0.0, "call_alpha0": None,
       "bad_norm": 0.0, "bad_rise": 0.0}
EIGS_KEY = "eigs:krylov-basis-not-orthonormal"


def install_krylov_probe():
    """Two wrappers at the API boundary (no source edit):

    * Tensor.expand_krylov_space: record the worst |<V_i|V_j> - delta_ij| of the returned Krylov basis;
    * the ``eigs`` binding used by dmrg_: when the basis of *that call* was not orthonormal (defect > 1e-8), measure what
      eigs handed back -- the norm of the Ritz vector and its Rayleigh quotient <y|f(y)>/<y|y> (one extra application
      of f) against the Rayleigh quotient of the start vector.  With an orthonormal basis Ritz theory guarantees a unit
      vector whose Rayleigh quotient does not exceed that of the start vector, so nothing is measured then.

    The records only select the *mechanism key* of a clause that fails anyway; they never make a clause pass."""
    import yastn
    import yastn.tn.mps._dmrg as dm
    if KRY["installed"]:
        return
    orig = yastn.Tensor.expand_krylov_space

    def probe(self, f, tol, ncv, hermitian, V, H=None, **kwargs):
        V2, H2, happy = orig(self, f, tol, ncv, hermitian, V, H, **kwargs)
        KRY["calls"] += 1
        m = len(V2)
        worst = 0.0
        for i in range(m):
            for j in range(i, m):
                g = abs(complex(V2[i].vdot(V2[j])) - (1.0 if i == j else 0.0))
                worst = max(worst, g)
        KRY["call_worst"] = max(KRY["call_worst"], worst)
        if (0, 0) in H2:
            KRY["call_alpha0"] = float(np.real(complex(H2[(0, 0)])))
        if worst > KRY["worst"]:
            KRY["worst"] = worst
            KRY["info"] = {"gram_defect": worst, "vector_size": int(self.size), "ncv": int(ncv), "basis": m, "happy": bool(happy),
                           "hermitian": bool(hermitian),
                           "betas": [float(abs(H2[(j + 1, j)])) for j in range(m) if (j + 1, j) in H2]}
        return V2, H2, happy

    probe.__wrapped__ = orig
    yastn.Tensor.expand_krylov_space = probe

    orig_eigs = dm.eigs

    def eigs_probe(f, v0, *args, **kwargs):
        KRY["call_worst"], KRY["call_alpha0"] = 0.0, None
        val, Y = orig_eigs(f, v0, *args, **kwargs)
        if KRY["call_worst"] > 1e-8 and KRY["call_alpha0"] is not None and len(Y) > 0:
            y = Y[0]
            ny = float(y.norm())
            if ny > 0:
                rq = float(np.real(complex(y.vdot(f(y))))) / (ny * ny)
                KRY["bad_norm"] = max(KRY["bad_norm"], abs(ny - 1.0))
                KRY["bad_rise"] = max(KRY["bad_rise"], rq - KRY["call_alpha0"])
        return val, Y

    eigs_probe.__wrapped__ = orig_eigs
    dm.eigs = eigs_probe
    KRY["installed"] = True


def krylov_reset():
    KRY["worst"], KRY["info"], KRY["bad_norm"], KRY["bad_rise"] = 0.0, None, 0.0, 0.0


# ------------------------------------------------------------------ the oracle

def within(ctx, name, err, allowed):
    """ctx.margin, but observations that violate are recorded under a separate name so that the worst *passing* margin
    stays visible next to the known findings."""
    if err <= allowed:
        return ctx.margin(name, err, allowed)
    ctx.margin(name + " (violating cases)", err, allowed)
    return False


class Dense(T.Sector):
    """Dense sector data of one case (+ penalty terms of a projected run)."""

    def __init__(self, ctx, Hd, sp, N, n):
        super().__init__(ctx, Hd, sp, N, n)
        self.pen = []            # list of (penalty, dense sector vector)

    def add_penalty(self, penalty, vec, tensor_norm2=None):
        """Penalty on the *direction* spanned by a listed state (docstring of dmrg_: 'add a penalty to the directions spanned by
        MPSs in the list'; the default penalty 100 is only meaningful for a unit vector): penalty * |phi^><phi^| with phi^ the
        normalised dense vector.  The squared norm of the state as represented (psi.factor included) and of its tensors alone
        (factor excluded) are kept to recognise the other readings when a clause fails / in the reported energy."""
        nrm = float(np.linalg.norm(vec))
        full2 = nrm * nrm
        self.pen.append((penalty, vec / nrm, full2, full2 if tensor_norm2 is None else float(tensor_norm2)))
        self.Hp = self.hp_matrix(0)
        self.evp = np.linalg.eigvalsh(self.Hp)

    def hp_matrix(self, reading):
        """reading 0: unit vectors; 1: norm of the represented state enters; 2: norm of the tensors (factor excluded) enters."""
        Hp = self.Hs.copy()
        for p, v, f2, t2 in self.pen:
            w = (1.0, f2, t2)[reading]
            Hp = Hp + (p * w) * np.outer(v, v.conj())
        return 0.5 * (Hp + Hp.conj().T)

    def pen_energy(self, vs, reading=0):
        return self.energy(vs) + sum(float(np.real(p)) * (1.0, f2, t2)[reading] * abs(np.vdot(v, vs)) ** 2 for p, v, f2, t2 in self.pen)


def observe(ctx, psi, dn, tag, witness, out=None, gram=0.0, eigs_nonunit=0.0):
    """Clauses that hold for every state dmrg_ hands back.

    out / gram (DMRG_out of the sweep, worst Gram defect of a Krylov basis seen by the probe) only select the
    *mechanism key* of a failing normalisation clause; they never make a clause pass.
    Returns (normalised sector vector or None, norm of the state as returned)."""
    sp = dn.sp
    v, nten = T.mps_dense(psi, sp)
    # --- sector
    ctx.count("sector_checks")
    if nten != dn.n:
        ctx.violation("sector:tensor-charge", f"{tag}: charge of psi.to_tensor() is {nten}, initial state had {dn.n}", witness)
    w_out = float(np.max(np.abs(v[dn.mask_out]))) if dn.mask_out.any() else 0.0
    if w_out != 0.0:
        ctx.violation("sector:weight-outside", f"{tag}: amplitude {w_out:.3e} on basis states of another charge", witness)
    lg0 = psi[0].get_legs(axes=0)
    if len(lg0.t) != 1 or tuple(int(x) for x in lg0.t[0]) != dn.n or tuple(lg0.D) != (1,):
        ctx.violation("sector:first-virtual-leg", f"{tag}: first virtual leg is {lg0}, expected charge {dn.n} with D=1", witness)
    # --- normalisation (psi.factor and the scale of site 0 included)
    ctx.count("norm_checks")
    nv = float(np.linalg.norm(v))
    two = out is not None and out.method == "2site"
    dw = float(out.max_discarded_weight) if (two and out.max_discarded_weight is not None) else 0.0
    if not within(ctx, "norm" + (":after-2site-sweep" if two else ""), abs(nv - 1.0), NTOL):
        if two and dw > 1e-14 and 1 - dw * dw - 1e-9 <= nv * nv <= 1 + 1e-9:
            ctx.violation("not-normalised:2site-truncation",
                          f"{tag}: ||psi|| = {nv!r} after a 2site sweep with max_discarded_weight = {dw!r}: post_2site_ keeps the "
                          f"truncated Schmidt values un-normalised and _dmrg_sweep_2site_ never renormalises", witness)
        elif two and eigs_nonunit > NTOL / 2:
            ctx.violation(EIGS_KEY,
                          f"{tag}: ||psi|| = {nv!r} after a 2site sweep in which eigs returned a Ritz vector of norm 1 {eigs_nonunit:+.2e} "
                          f"because it combined a Krylov basis that was not orthonormal (max |<V_i|V_j> - delta_ij| = {gram:.2e}: Lanczos without re-orthogonalisation kept expanding after the Krylov "
                          f"space was exhausted / the start vector had converged, the residual staying above the fixed 1e-13 happy-breakdown "
                          f"threshold); the Ritz vector is then not a unit vector and _dmrg_sweep_2site_ never renormalises", witness)
        else:
            ctx.violation("not-normalised", f"{tag}: ||psi|| = {nv!r}", witness)
    if psi.factor != 1:
        ctx.violation("not-normalised:factor", f"{tag}: psi.factor = {psi.factor!r} after a normalising sweep", witness)
    # --- canonical form: sites 1..N-1 right isometries; site 0 (left dimension 1) is an isometry up to the norm judged above
    ctx.count("canonical_checks")
    if psi.pC is not None:
        ctx.violation("not-canonical:central-block", f"{tag}: central block left at {psi.pC}", witness)
    defect, _ = T.site_isometry_defect(psi, site0_upto_scale=True)
    if not ctx.margin("canonical", defect, NTOL):
        ctx.violation("not-canonical", f"{tag}: max |A A^+ - 1| = {defect:.3e} (right-canonical form expected)", witness)
    if not psi.is_canonical(to="first"):
        ctx.count("is_canonical_false")
    if nv == 0:
        return None, nv
    return v[dn.idx] / nv, nv


def judge_sweep(ctx, out, vs, nv, dn, st, tag, witness, gram=0.0, eigs_rise=0.0, span=1):
    """Energy clauses after one sweep.  st: running state of the monitored run (dict).

    E  = Rayleigh quotient of the returned state (variational bound, monotonicity);
    Eu = <psi|H|psi> of the state exactly as returned (what DMRG_out.energy must equal; == E when normalised).
    span = number of sweeps since the previous observation (1 for iterator=True; > 1 for iterator_step > 1 and for the direct
    form): DMRG_out.denergy and max_discarded_weight then describe the last sweep only, so denergy is not compared and the
    monotonicity clause is judged only when no sweep in between can have truncated (1site)."""
    tol = ETOL * dn.scale
    E = dn.energy(vs)
    Ep = dn.pen_energy(vs) if dn.pen else E
    Eu, Epu = nv * nv * E, nv * nv * Ep
    penal = bool(dn.pen)
    dw = out.max_discarded_weight
    # --- reported energy
    ctx.count("energy_checks")
    if penal:
        ctx.count("energy_checks_penalised")
        # "energy" of a penalised run: <H>, or <H> + penalties -- the latter under any reading of the listed states' norms
        err = min([abs(out.energy - Eu), abs(out.energy - Epu)] + [abs(out.energy - nv * nv * dn.pen_energy(vs, r)) for r in (1, 2)])
        if not within(ctx, "energy:penalised", err, tol):
            bare = nv * sum(float(np.real(np.vdot(vs, v))) for _, v, _, _ in dn.pen)
            ovl = sum(abs(np.vdot(v, vs)) for _, v, _, _ in dn.pen)
            if abs(out.energy - (Eu + bare)) <= tol:
                ctx.violation("energy-mismatch:project-overlap-term",
                              f"{tag}: DMRG_out.energy = {out.energy!r} but <psi|H|psi> = {Eu!r} (penalised functional {Epu!r}); the "
                              f"difference {out.energy - Eu:.3e} equals sum_i Re<psi|phi_i> = {bare:.3e}: Env_project inherits "
                              f"Env2.measure, so env.measure() adds the bare overlaps", dict(witness, overlap=ovl))
            else:
                ctx.violation("energy-mismatch:penalised", f"{tag}: DMRG_out.energy = {out.energy!r}, <psi|H|psi> = {Eu!r}, "
                              f"penalised functional = {Epu!r}", witness)
    elif not ctx.margin("energy", abs(out.energy - Eu), tol):
        ctx.violation("energy-mismatch", f"{tag}: DMRG_out.energy = {out.energy!r} but dense <psi|H|psi> = {Eu!r} "
                      f"(diff {abs(out.energy - Eu):.3e}, allowed {tol:.1e})", witness)
    # --- variational bound (Rayleigh quotient of whatever was returned)
    ctx.count("variational_checks")
    lo = dn.ev[0]
    if not ctx.margin("variational", max(0.0, lo - E), tol):
        ctx.violation("below-ground-state", f"{tag}: <H> = {E!r} below the lowest sector eigenvalue {lo!r}", witness)
    if not penal and out.energy < lo - tol and abs(nv - 1.0) <= NTOL:
        ctx.violation("below-ground-state:reported", f"{tag}: reported energy {out.energy!r} below the lowest sector eigenvalue {lo!r}", witness)
    # --- monotonicity of the functional that is minimised: <H> + sum penalty |<phi|psi>|^2
    nothing_truncated = (dw is None) or (dw <= 1e-14 and span == 1)
    if penal and not st.get("pen_monotone", True):
        ctx.count("monotone_not_judged_site_scaled_listed_state")
    elif span > 1 and dw is not None:
        ctx.count("monotone_not_judged_unobserved_sweeps")
    elif nothing_truncated:
        ctx.count("monotone_judged")
        if not within(ctx, "monotone", max(0.0, Ep - st["Ep_prev"]), tol):
            ctx.violation(EIGS_KEY if eigs_rise > tol else "energy-increased:" + ("penalised" if penal else str(out.method)),
                          f"{tag}: energy rose from {st['Ep_prev']!r} to {Ep!r} (+{Ep - st['Ep_prev']:.3e}) although nothing was truncated "
                          f"(max_discarded_weight={dw})" + (f"; in this sweep eigs combined a Krylov basis that was not orthonormal (max "
                          f"|<V_i|V_j> - delta_ij| = {gram:.2e}) and returned a vector whose Rayleigh quotient is {eigs_rise:.3e} above that "
                          f"of its start vector" if eigs_rise > tol else ""), witness)
    else:
        ctx.count("monotone_not_judged_truncation")
        ctx.count("truncation_binding_sweeps")
    # --- bookkeeping of DMRG_out
    ctx.count("bookkeeping_checks")
    if out.sweeps != st["sweeps"]:
        ctx.violation("bookkeeping:sweeps", f"{tag}: DMRG_out.sweeps = {out.sweeps}, {st['sweeps']} sweeps were yielded", witness)
    if out.method != st["method"]:
        ctx.violation("bookkeeping:method", f"{tag}: DMRG_out.method = {out.method!r}, requested {st['method']!r}", witness)
    if (out.max_discarded_weight is None) != (st["method"] == "1site"):
        ctx.violation("bookkeeping:max_discarded_weight", f"{tag}: max_discarded_weight = {dw!r} for method {st['method']}", witness)
    if not penal and span == 1:
        dE = abs(Eu - st["Eu_prev"])
        if not ctx.margin("denergy", abs(out.denergy - dE), 2 * tol):
            ctx.violation("bookkeeping:denergy", f"{tag}: DMRG_out.denergy = {out.denergy!r} but |E_k - E_(k-1)| = {dE!r}", witness)
    if (out.max_dSchmidt is None) != (st["Schmidt_tol"] is None):
        ctx.violation("bookkeeping:max_dSchmidt", f"{tag}: max_dSchmidt = {out.max_dSchmidt!r} with Schmidt_tol = {st['Schmidt_tol']!r}", witness)
    st["dE_hist"].append(abs(Ep - st["Ep_prev"]))
    st["E_prev"], st["Ep_prev"], st["Eu_prev"] = E, Ep, Eu
    return E, Ep


def schmidt_full(vs_full, sp, N, counts, thr=1e-8):
    """Dense Schmidt rank at every cut equals the maximal bond dimension (premise of the eigenstate clause)."""
    d = sp.d
    for k in range(1, N):
        need = sum(min(l, r) for l, r in counts[k].values())
        s = np.linalg.svd(vs_full.reshape(d ** k, -1), compute_uv=False)
        if int(np.sum(s > thr)) < need:
            return False
    return True


def shuffled_dict(rng, d):
    """The same options inserted in another order (dictionaries remember insertion order; it must not matter)."""
    items = list(d.items())
    rng.shuffle(items)
    return dict(items)


DEFAULTS = {"method": "1site", "max_sweeps": 1, "precompute": False}


def apply_omissions(cfgrun):
    """Arguments listed in cfgrun['omit'] are not passed to dmrg_: the run configuration is forced to their documented
    defaults so that the oracle knows what was asked for (method='1site', max_sweeps=1, precompute=False, opts_* = None,
    energy_tol = Schmidt_tol = project = None)."""
    omit = cfgrun.get("omit", frozenset())
    if "method" in omit:
        cfgrun["methods"] = ["1site"] * len(cfgrun["methods"])
        cfgrun["use_Method"] = False
    if "max_sweeps" in omit:
        cfgrun["methods"] = cfgrun["methods"][:1]
    if "precompute" in omit:
        cfgrun["precompute"] = False
    for k in ("opts_eigs", "opts_svd", "energy_tol", "Schmidt_tol", "project"):
        if k in omit:
            cfgrun[k] = None
    if "2site" in cfgrun["methods"] and cfgrun.get("opts_svd") is None:
        cfgrun["opts_svd"] = {}                       # 2site needs opts_svd; the empty dictionary means "no truncation"
    return cfgrun


def dmrg_kwargs(cfgrun, rng=None):
    import yastn
    omit = cfgrun.get("omit", frozenset())
    methods = cfgrun["methods"]
    kw = {}
    method = None
    if "method" not in omit:
        method = yastn.Method(methods[0]) if cfgrun["use_Method"] else methods[0]
        kw["method"] = method
    if "max_sweeps" not in omit:
        kw["max_sweeps"] = len(methods)
    if "precompute" not in omit:
        kw["precompute"] = cfgrun["precompute"]
    for k in ("opts_eigs", "opts_svd"):
        if cfgrun.get(k) is not None:
            kw[k] = shuffled_dict(rng, cfgrun[k]) if rng is not None else dict(cfgrun[k])
    for k in ("energy_tol", "Schmidt_tol", "project"):
        if cfgrun.get(k) is not None:
            kw[k] = cfgrun[k]
    form = cfgrun.get("form", "iterator")
    if form == "iterator":
        kw["iterator"] = True
    elif form == "step":
        kw["iterator_step"] = cfgrun["step"]
        if cfgrun.get("step_with_iterator_flag"):
            kw["iterator"] = True
    if rng is not None:
        kw = shuffled_dict(rng, kw)
    return kw, method


def expected_yields(cfgrun):
    """Sweep numbers at which dmrg_ hands control back (no convergence tolerance in play)."""
    M = len(cfgrun["methods"])
    form = cfgrun.get("form", "iterator")
    if form == "iterator":
        return list(range(1, M + 1))
    if form == "step":
        s = cfgrun["step"]
        return [k for k in range(s, M, s)] + [M]
    return [M]


def monitored_run(ctx, psi, H, dn, counts, cfgrun, tag, witness, stop_when_converged=False, rng=None):
    """Drive dmrg_ (iterator=True, iterator_step=s, or the direct form) and judge every state it hands back."""
    import yastn.tn.mps as mps
    sp = dn.sp
    # energy of the initial state (dmrg_ canonises + normalises it first)
    v0, _ = T.mps_dense(psi, sp)
    n0 = float(np.linalg.norm(v0))
    if n0 == 0 or not np.isfinite(n0):
        raise CaseSkip
    vs0 = v0[dn.idx] / n0
    st = {"E_prev": dn.energy(vs0), "Ep_prev": dn.pen_energy(vs0) if dn.pen else dn.energy(vs0), "sweeps": 0,
          "Eu_prev": dn.energy(vs0),
          "dE_hist": [], "Schmidt_tol": cfgrun.get("Schmidt_tol"), "method": None, "pen_monotone": cfgrun.get("pen_monotone", True)}
    install_krylov_probe()
    krylov_reset()
    plan_methods = cfgrun["methods"]            # list of method per sweep
    form = cfgrun.get("form", "iterator")
    kw, method = dmrg_kwargs(cfgrun, rng)
    tolerances = cfgrun.get("energy_tol") is not None or cfgrun.get("Schmidt_tol") is not None
    plan_yields = expected_yields(cfgrun)
    vs, nv = vs0, 1.0
    last = None
    converged = False
    ctx.count("form:" + form)
    outs = mps.dmrg_(psi, H, **kw)
    if form == "direct":
        if not (isinstance(outs, tuple) and hasattr(outs, "energy")):
            ctx.violation("direct-form:not-a-DMRG_out", f"{tag}: dmrg_ without iterator returned {type(outs).__name__}", witness)
            return {"vs": vs, "nv": nv, "out": None, "sweeps": 0, "converged": False, "E": st["E_prev"], "Ep": st["Ep_prev"]}
        outs = [outs]
    nyield = 0
    for out in outs:
        prev = st["sweeps"]
        if nyield < len(plan_yields):
            k = plan_yields[nyield]
        else:
            k = prev + 1                      # more yields than planned: reported by the bookkeeping clause below
        nyield += 1
        if tolerances and form != "iterator" and isinstance(out.sweeps, int) and prev < out.sweeps <= len(plan_methods):
            k = out.sweeps                    # a convergence tolerance may end the run at any sweep
        span = k - prev
        st["sweeps"] = k
        st["method"] = plan_methods[min(k, len(plan_methods)) - 1]
        ctx.count("sweeps_monitored")
        ctx.count("method:" + st["method"])
        ctx.count("precompute:" + str(cfgrun["precompute"]))
        w = dict(witness, sweep=k, out=list(out))
        gram = KRY["worst"]
        ctx.margin("krylov-gram-defect(diagnostic)", gram, 1.0)
        bad_norm, bad_rise = KRY["bad_norm"], KRY["bad_rise"]
        if gram > 1e-8:
            ctx.count("sweeps_with_nonorthonormal_krylov_basis")
            w["krylov"] = dict(KRY["info"], ritz_vector_norm_defect=bad_norm, rayleigh_quotient_rise=bad_rise)
        vs_new, nv = observe(ctx, psi, dn, f"{tag} sweep {k}", w, out=out, gram=gram, eigs_nonunit=bad_norm)
        krylov_reset()
        if vs_new is None:
            break
        vs = vs_new
        judge_sweep(ctx, out, vs, nv, dn, st, f"{tag} sweep {k}", w, gram=gram, eigs_rise=bad_rise, span=span)
        last = out
        if form == "iterator" and k < len(plan_methods) and plan_methods[k] != plan_methods[k - 1]:
            method.update_(plan_methods[k])
            ctx.count("method_switches")
        h = st["dE_hist"]
        if len(h) >= 2 and h[-1] < CONV_DE * dn.scale and h[-2] < CONV_DE * dn.scale:
            converged = True
            if stop_when_converged:
                break
    if not tolerances and not stop_when_converged and nyield != len(plan_yields) and last is not None:
        ctx.violation("bookkeeping:yields", f"{tag}: dmrg_ handed control back {nyield} times, expected at sweeps {plan_yields} "
                      f"(form {form}, iterator_step {cfgrun.get('step')})", witness)
    return {"vs": vs, "nv": nv, "out": last, "sweeps": st["sweeps"], "converged": converged, "E": st["E_prev"], "Ep": st["Ep_prev"]}


def compare_forms(ctx, psi0, H, dn, counts, cfgrun, res, witness):
    """The iterator form and the direct form run the same sweeps: final record and final state must agree."""
    import yastn.tn.mps as mps
    cfg2 = dict(cfgrun, form="direct", use_Method=False)
    kw, _ = dmrg_kwargs(cfg2)
    out2 = mps.dmrg_(psi0, H, **kw)
    ctx.count("iterator_vs_direct_compared")
    out1 = res["out"]
    tol = ETOL * dn.scale
    v2, _ = T.mps_dense(psi0, dn.sp)
    v2 = v2[dn.idx]
    v1 = res["vs"] * res["nv"]
    dv = float(np.linalg.norm(v1 - v2))
    bad = []
    if out1.sweeps != out2.sweeps or str(out1.method) != str(out2.method):
        bad.append("sweeps/method")
    if not ctx.margin("iterator-vs-direct:energy", abs(out1.energy - out2.energy), tol):
        bad.append("energy")
    if not ctx.margin("iterator-vs-direct:denergy", abs(out1.denergy - out2.denergy), 2 * tol):
        bad.append("denergy")
    if (out1.max_discarded_weight is None) != (out2.max_discarded_weight is None) or \
            (out1.max_discarded_weight is not None and abs(out1.max_discarded_weight - out2.max_discarded_weight) > 1e-10):
        bad.append("max_discarded_weight")
    if (out1.max_dSchmidt is None) != (out2.max_dSchmidt is None) or \
            (out1.max_dSchmidt is not None and abs(out1.max_dSchmidt - out2.max_dSchmidt) > 1e-8):
        bad.append("max_dSchmidt")
    if not ctx.margin("iterator-vs-direct:state", dv, 1e-8):
        bad.append("state")
    if bad:
        ctx.violation("iterator-vs-direct:" + "+".join(bad), f"dmrg_(iterator=True) ended with {tuple(out1)} but the direct form with the same "
                      f"arguments from the same start returned {tuple(out2)}; ||psi_iter - psi_direct|| = {dv:.3e}", witness)


def must_reject(ctx, psi, H, witness, rng):
    """Inputs the documentation / error messages define as invalid: a YastnError is the expected outcome."""
    import yastn
    import yastn.tn.mps as mps
    what, kw = rng.choice((("energy_tol=0", {"energy_tol": 0}), ("energy_tol<0", {"energy_tol": -1e-6}),
                           ("Schmidt_tol=0", {"Schmidt_tol": 0}), ("method-unknown", {"method": "one-site"}),
                           ("2site-without-opts_svd", {"method": "2site"})))
    ctx.count("must_reject_cases")
    try:
        mps.dmrg_(psi.shallow_copy(), H, **kw)
    except yastn.YastnError:
        ctx.count("must_reject_ok")
        return
    ctx.violation("must-reject:" + what, f"dmrg_(psi, H, {kw}) did not raise YastnError", witness)


def probe_max_sweeps_zero(ctx, psi, H, dn, witness, rng):
    """max_sweeps=0 ("maximal number of sweeps"): acceptable outcomes are a record of zero sweeps describing the canonised,
    normalised initial state, or a YastnError rejecting the value."""
    import yastn
    import yastn.tn.mps as mps
    ctx.count("max_sweeps=0_cases")
    v0, _ = T.mps_dense(psi, dn.sp)
    vs0 = v0[dn.idx] / np.linalg.norm(v0)
    kw = {"max_sweeps": 0}
    if rng.random() < 0.5:
        kw["iterator"] = True
    try:
        out = mps.dmrg_(psi, H, **kw)
        if kw.get("iterator"):
            out = list(out)[-1]
    except yastn.YastnError:
        ctx.count("max_sweeps=0_rejected")
        return
    except UnboundLocalError as e:
        ctx.violation("max_sweeps=0:UnboundLocalError", f"dmrg_(psi, H, {kw}) raised {e!r}: the loop over sweeps never runs and the final "
                      f"'yield DMRG_out(sweep, ..., E, dE, ...)' reads variables that were never assigned", witness)
        return
    if out.sweeps != 0 or abs(out.energy - dn.energy(vs0)) > ETOL * dn.scale:
        ctx.violation("max_sweeps=0:wrong-record", f"dmrg_(psi, H, {kw}) returned {tuple(out)}; initial energy {dn.energy(vs0)!r}", witness)


def judge_eigenstate(ctx, dn, vs, tag, witness):
    E = dn.energy(vs)
    resid = float(np.linalg.norm(dn.Hs @ vs - E * vs))
    if not ctx.margin("eigen-residual", resid, RES_TOL * dn.scale):
        ctx.violation("converged-not-eigenstate", f"{tag} but ||H psi - E psi|| = {resid:.3e} (||H|| = {dn.scale:.3g})", witness)
    return E, resid


# ------------------------------------------------------------------ one case

def stage_opts(rng):
    """Lanczos with a Krylov space large enough to converge in a few sweeps; 'which' spelled out or left to the default."""
    o = {"hermitian": True, "ncv": rng.choice((6, 10))}
    if rng.random() < 0.5:
        o["which"] = "SR"
    return o


def special_hamiltonian(rng, H, sp, N):
    """Extreme but legal operators: H = 0 (factor 0), H = c * identity, H scaled by 10^k with k in -8..8."""
    import yastn.tn.mps as mps
    kind = rng.choice(("zero", "identity", "scaled", "scaled", "scaled"))
    if kind == "zero":
        Hz = H[0] if isinstance(H, (list, tuple)) else H
        return 0 * Hz, "single", {"special": "zero"}
    if kind == "identity":
        c = rng.choice((-1, 1)) * round(rng.uniform(0.3, 3.0), 3)
        return c * mps.product_mpo(sp.I, N), "single", {"special": "identity", "c": c}
    k = rng.choice((-8, -6, -4, -2, 2, 4, 6, 8))
    f = 10.0 ** k
    if isinstance(H, (list, tuple)):
        return type(H)([f * h for h in H]), "list", {"special": "scaled", "log10": k}
    return f * H, "scaled", {"special": "scaled", "log10": k}


def run_case(ctx, idx):
    import yastn.tn.mps as mps
    cs = draw_case(ctx, idx)
    rng, sp, N, sym = cs["rng"], cs["sp"], cs["N"], cs["sym"]
    sp.cfg.backend.random_seed(cs["seed_backend"])
    H, hform = T.build_H(rng, sp, N, cs["groups"], cs["form"])
    special = None
    if rng.random() < 0.12:
        H, hform, special = special_hamiltonian(rng, H, sp, N)
        ctx.count("H_special:" + special["special"])
    Hd = T.hermitian_dense_or_skip(ctx, H, sp, allow_zero=special is not None)
    n, dims = T.pick_charge(rng, sp, N)
    dn = Dense(ctx, Hd, sp, N, n)
    # The lowest level must be targeted wherever the spectrum sits: some Hamiltonians are shifted by +c*identity with c above
    # the spectral radius of the sector (every level positive, the top of the spectrum largest in magnitude) -- mostly when
    # opts_eigs leaves the choice of the targeted Ritz value ('which') to the default of yastn.eigs.
    opts_eigs = rng.choice(OPTS_EIGS)
    shift = None
    if dn.scale > 0 and rng.random() < (0.75 if without_which(opts_eigs) else 0.12):
        shift = float(dn.scale * (1.5 + rng.uniform(0.3, 1.0)))
        H, hform = shifted(rng, H, sp, N, shift)
        Hd = T.hermitian_dense_or_skip(ctx, H, sp)
        dn = Dense(ctx, Hd, sp, N, n)
    counts = T.block_counts(sp, N, n)
    psi, sdesc = initial_state(cs, n, counts)
    witness0 = {"idx": idx, "space": sp.desc(), "N": N, "H_form": hform, "H_special": special, "terms": T.terms_desc(cs["groups"]),
                "shift": shift, "charge": list(n), "start": sdesc}

    # ---------------- probes of invalid / degenerate arguments (cheap, judged on their own)
    r = rng.random()
    if r < 0.07:
        must_reject(ctx, psi, H, witness0, rng)
    elif r < 0.095:
        probe_max_sweeps_zero(ctx, psi.shallow_copy(), H, dn, witness0, rng)

    # ---------------- run configuration
    nsw = rng.randint(1, 6)
    mode = rng.choice(("1site", "1site", "2site", "2site", "switch21", "switch12"))
    form = rng.choice(("iterator", "iterator", "iterator", "direct", "step"))
    if form != "iterator" and mode.startswith("switch"):
        mode = "2site" if mode == "switch21" else "1site"            # the method can only be switched at a yield
    if mode in ("1site", "2site"):
        methods = [mode] * nsw
    else:
        nsw = max(nsw, 2)
        cut = rng.randint(1, nsw - 1)
        a, b = ("2site", "1site") if mode == "switch21" else ("1site", "2site")
        methods = [a] * cut + [b] * (nsw - cut)
    opts_svd = None
    if "2site" in methods or rng.random() < 0.2:
        Dfull = max(sum(min(l, r) for l, r in c.values()) for c in counts)
        opts_svd = rng.choice(({"D_total": 4 * Dfull + 4}, {"D_total": 4 * Dfull + 4, "tol": 1e-14},
                               {"D_total": max(1, Dfull // 2), "tol": 1e-10}, {"D_total": rng.randint(1, max(1, Dfull))},
                               {"tol": 1e-3}, {"D_total": 4 * Dfull + 4, "D_block": max(1, Dfull // 2)}, {}, {"D_total": 1}))
    cfgrun = {"methods": methods, "use_Method": mode.startswith("switch") or rng.random() < 0.2,
              "precompute": rng.random() < 0.5, "opts_eigs": opts_eigs, "opts_svd": opts_svd,
              "energy_tol": rng.choice((None, None, None, 1e-6, 1e-13)),
              "Schmidt_tol": rng.choice((None, None, None, 1e-5, 1e-12)),
              "project": [] if rng.random() < 0.1 else None,          # an empty list is the same as no projection
              "form": form, "step": rng.randint(1, 3), "step_with_iterator_flag": rng.random() < 0.5}
    if form == "step":
        cfgrun["energy_tol"] = cfgrun["Schmidt_tol"] = None               # yields of the step form stay predictable
    # optional arguments left out: none / one / all (pure defaults: dmrg_(psi, H))
    r = rng.random()
    optional = ("method", "max_sweeps", "precompute", "opts_eigs", "opts_svd", "energy_tol", "Schmidt_tol", "project")
    if r < 0.08:
        cfgrun["omit"] = frozenset(optional)
        cfgrun["form"] = form = "direct"
    elif r < 0.40:
        cfgrun["omit"] = frozenset([rng.choice(optional)])
    else:
        cfgrun["omit"] = frozenset()
    apply_omissions(cfgrun)
    methods, opts_eigs, opts_svd = cfgrun["methods"], cfgrun["opts_eigs"], cfgrun["opts_svd"]
    sig = (sym, sp.family, sp.fermionic, sp.phys.sectors, N, hform, repr(special), shift is not None, len(cs["groups"]), n,
           sdesc["kind"], sdesc.get("D_total"), sdesc["dtype"], sdesc["canonical"], sdesc.get("scaled"), tuple(methods),
           cfgrun["use_Method"], cfgrun["precompute"], repr(opts_eigs), repr(opts_svd), cfgrun["energy_tol"], cfgrun["Schmidt_tol"],
           form, cfgrun["step"] if form == "step" else None, tuple(sorted(cfgrun["omit"])), cfgrun["project"] is not None)
    witness = dict(witness0, sector_dim=int(len(dn.idx)), sector_levels=[float(dn.ev[0]), float(dn.ev[-1])],
                   bond_dims_start=T.total_bond_dims(psi),
                   run={k: (sorted(v) if k == "omit" else (repr(v) if k in ("opts_eigs", "project") else v)) for k, v in cfgrun.items()})
    ctx.count("H:" + ("list" if hform == "list" else "single"))
    ctx.count("Hform:" + hform)
    ctx.count("start:" + sdesc["kind"])
    ctx.count("start:" + ("canonical" if sdesc["canonical"] else "noncanonical"))
    if sdesc.get("scaled"):
        ctx.count("start:scaled")
    ctx.count("sym:" + sym)
    ctx.count(f"N={N}")
    ctx.count("omitted:" + ("all" if len(cfgrun["omit"]) > 1 else (next(iter(cfgrun["omit"])) if cfgrun["omit"] else "none")))
    if cfgrun["project"] == []:
        ctx.count("project=[]")
    if opts_svd == {} and "2site" in methods:
        ctx.count("2site_with_empty_opts_svd")
    if sp.fermionic:
        ctx.count("fermionic_cases")
    if np.iscomplexobj(Hd):
        ctx.count("complex_H")
    positive = bool(dn.ev[0] > 0)
    if shift is not None:
        ctx.count("H_shifted_by_positive_constant")
    if positive:
        ctx.count("runs_on_positive_spectrum")
    ctx.count("opts_eigs:" + ("None" if opts_eigs is None else ("without-which" if without_which(opts_eigs) else "with-which")))
    if without_which(opts_eigs) and positive and len(dn.idx) >= 2:
        ctx.count("runs_opts_eigs_without_which_on_positive_spectrum")

    psi0 = psi.shallow_copy()
    if N == 1 and cfgrun["Schmidt_tol"] is not None:
        # a chain of one site has no cut: nothing to compare, i.e. the Schmidt criterion is trivially met (or the argument is
        # rejected with a YastnError); a foreign exception is reported under its own key
        import yastn
        ctx.count("N=1_with_Schmidt_tol")
        try:
            res = monitored_run(ctx, psi, H, dn, counts, cfgrun, "main", witness, rng=rng)
        except yastn.YastnError:
            ctx.count("N=1_with_Schmidt_tol_rejected")
            return
        except ValueError as e:
            ctx.violation("N=1:Schmidt_tol:ValueError", f"dmrg_ on a one-site chain with Schmidt_tol={cfgrun['Schmidt_tol']} raised {e!r}: "
                          f"no Schmidt values are recorded for N=1 and 'max(... for k in Schmidt.keys())' gets an empty sequence", witness)
            return
    else:
        res = monitored_run(ctx, psi, H, dn, counts, cfgrun, "main", witness, rng=rng)
    nontrivial = len(dn.idx) >= 2 and res["sweeps"] >= 1
    ctx.case(sig, nontrivial, {k: witness[k] for k in ("space", "N", "H_form", "H_special", "shift", "charge", "sector_dim", "sector_levels",
                                                        "start", "bond_dims_start", "run")})
    if res["sweeps"] < len(methods):
        ctx.count("stopped_early_by_tolerance")
    if form == "iterator" and len(set(methods)) == 1 and res["out"] is not None and rng.random() < 0.3:
        compare_forms(ctx, psi0, H, dn, counts, cfgrun, res, witness)

    # ---------------- convergence stage (premise-conditioned eigenstate clause)
    want = rng.random() < (0.5 if ctx.tier == "thorough" else 0.45)
    exotic = special is not None and (special["special"] != "scaled" or abs(special["log10"]) > 4)
    if not want or exotic or len(dn.idx) < 2 or len(dn.idx) > 150 or sp.d ** N > 300:
        return
    ctx.count("convergence_stage_runs")
    psi_c = T.make_mps(rng, cs["nprng"], sp, N, n, mode="full", dtype=rng.choice(("float64", "complex128")), counts=counts)
    m2 = rng.choice(("1site", "2site")) if N > 1 else "1site"      # a 2site sweep of a one-site chain updates nothing
    cfg2 = {"methods": [m2] * 30, "use_Method": False, "precompute": rng.random() < 0.5,
            "opts_eigs": stage_opts(rng),
            "opts_svd": {"D_total": 100000} if m2 == "2site" else None}
    if without_which(cfg2["opts_eigs"]) and positive:
        ctx.count("converge_runs_without_which_on_positive_spectrum")
    w2 = dict(witness, stage="converge", run2={k: repr(v) for k, v in cfg2.items()})
    r2 = monitored_run(ctx, psi_c, H, dn, counts, cfg2, "converge", w2, stop_when_converged=True)
    # premise: converged, and either the bond structure contains a site whose two sides are both complete (its local
    # eigenproblem then *is* the sector eigenproblem) or the manifold is the whole sector at a point of full Schmidt rank
    # (the tangent space is then the whole sector)
    met = r2["converged"]
    if not met:
        ctx.count("premise_unmet:not-converged")
    elif T.exactness_premise(psi_c, counts):
        ctx.count("premise_met:two-sided-complete-site")
    elif T.is_full_manifold(psi_c, counts) and schmidt_full(dn.embed(r2["vs"]), sp, N, counts):
        ctx.count("premise_met:full-schmidt-rank")
    else:
        met = False
        ctx.count("premise_unmet:no-complete-site-and-rank-deficient")
    if not met:
        return
    ctx.count("converged_premise_met")
    vs = r2["vs"]
    E, resid = judge_eigenstate(ctx, dn, vs, f"converged ({r2['sweeps']} sweeps, dE<1e-12 twice) at maximal bond dimension", w2)
    if abs(E - dn.ev[0]) <= 1e-7 * dn.scale:
        ctx.count("converged_to_ground_state")
    else:
        ctx.count("converged_to_excited_eigenstate")

    # ---------------- penalised stage
    if resid > 1e-7 * dn.scale or len(dn.idx) < 3:
        ctx.count("premise_unmet:projected-state-not-sharp")
        return
    ctx.count("penalised_runs")
    width = float(dn.ev[-1] - dn.ev[0])
    gap01 = float(dn.ev[1] - dn.ev[0])
    default_ok = 100 > 2.5 * width and 100 < 1e3 * dn.scale            # the default penalty (100) is above the gap and not absurdly large
    own = float(2 * width + (1 + rng.random()) * dn.scale)
    small = 0.3 * gap01                                                 # an explicit penalty that is too weak on its own
    forms = ["tuple", "split", "tuple"] + (["default", "default-twice", "tuple-then-bare", "bare-then-tuple"] if default_ok else [])
    pform = rng.choice(forms)
    m3 = rng.choice(("1site", "2site")) if N > 1 else "1site"      # a 2site sweep of a one-site chain updates nothing
    listed_c, lkind_c, tn2_c = listed_state(rng, psi_c, sp)
    if pform == "default":
        project, pens = [listed_c], [100]
    elif pform == "default-twice":
        project, pens = [listed_c, listed_c], [100, 100]                 # a repeated state: the penalties add up
    elif pform == "split":
        project, pens = [(0.4 * own, listed_c), (0.6 * own, listed_c)], [0.4 * own, 0.6 * own]
    elif pform == "tuple-then-bare":
        project, pens = [(small, listed_c), listed_c], [small, 100]      # both documented entry forms in one list: the bare entry
        ctx.count("project_mixed_forms_tuple_before_bare")               # gets the default penalty 100 wherever it stands
    elif pform == "bare-then-tuple":
        project, pens = [listed_c, (small, listed_c)], [100, small]
        ctx.count("project_mixed_forms_bare_before_tuple")
    else:
        project, pens = [(own, listed_c)], [own]
    ctx.count("project_form:" + pform)
    count_listed(ctx, lkind_c, m3)
    vphi, _ = T.mps_dense(listed_c, sp)       # the listed MPS exactly as it is
    for pz in pens:
        dn.add_penalty(pz, vphi[dn.idx], tensor_norm2=tn2_c)
    penalty = sum(pens)
    psi_p = T.make_mps(rng, cs["nprng"], sp, N, n, mode="full", dtype=rng.choice(("float64", "complex128")), counts=counts)
    cfg3 = {"methods": [m3] * 40, "use_Method": False, "precompute": rng.random() < 0.5,
            "opts_eigs": stage_opts(rng),
            "opts_svd": {"D_total": 100000} if m3 == "2site" else None, "project": project,
            "pen_monotone": lkind_c[0] != "site"}
    if without_which(cfg3["opts_eigs"]):
        ctx.count("penalised_runs_opts_eigs_without_which")      # the penalty itself puts a large positive level on top
    w3 = dict(witness, stage="penalised", penalty=penalty, project_form=pform, listed_state=lkind_c,
              run3={k: repr(v) for k, v in cfg3.items() if k != "project"})
    r3 = monitored_run(ctx, psi_p, H, dn, counts, cfg3, "penalised", w3, stop_when_converged=True)
    if not (r3["converged"] and (T.exactness_premise(psi_p, counts) or
                                 (T.is_full_manifold(psi_p, counts) and schmidt_full(dn.embed(r3["vs"]), sp, N, counts)))):
        ctx.count("premise_unmet:penalised-not-converged-or-no-complete-site")
        return
    ctx.count("penalised_premise_met")
    vp = r3["vs"]
    at_target = judge_penalised(ctx, dn, [vs], vp, f"penalised run (penalty {penalty:.4g}, project given as '{pform}', listed state "
                                f"{lkind_c}, {m3})", w3)

    # ---------------- second penalised stage: two projected eigenstates, listed in any order, possibly repeated, entry forms mixed
    rp = float(np.linalg.norm(dn.Hp @ vp - dn.pen_energy(vp) * vp))
    if not at_target or rp > 1e-7 * dn.scale or len(dn.idx) < 4 or rng.random() > 0.5:
        return
    ctx.count("penalised2_runs")
    m4 = rng.choice(("1site", "2site")) if N > 1 else "1site"      # a 2site sweep of a one-site chain updates nothing
    listed0, lkind0, tn2_0 = listed_state(rng, psi_c, sp)
    listed1, lkind1, tn2_1 = listed_state(rng, psi_p, sp)
    v0l, _ = T.mps_dense(listed0, sp)
    v1l, _ = T.mps_dense(listed1, sp)
    # entry = [penalty or None (bare MPS, default 100), state, dense vector, tensor norm^2, label]
    E1 = dn.energy(vp)
    mixed = default_ok and rng.random() < 0.6
    if mixed:
        which_bare = rng.choice((0, 0, 1))
        # the explicit penalty of the other entry is deliberately small: it must not leak into the bare entry
        small1 = 0.3 * min(gap01, max(float(dn.ev[2] - E1), 0.0) + gap01)
        entries = [[None if which_bare == 0 else small, listed0, v0l[dn.idx], tn2_0, "phi0"],
                   [None if which_bare == 1 else small1, listed1, v1l[dn.idx], tn2_1, "phi1"]]
        if rng.random() < 0.3:
            entries.append([own * 0.3] + rng.choice(entries)[1:])
    else:
        entries = [[own * rng.uniform(1.0, 1.5), listed0, v0l[dn.idx], tn2_0, "phi0"],
                   [own * rng.uniform(1.0, 1.5), listed1, v1l[dn.idx], tn2_1, "phi1"]]
        if rng.random() < 0.4:
            entries.append([own * 0.3] + rng.choice(entries)[1:])                   # one of the states listed twice
    rng.shuffle(entries)
    if mixed:
        first_bare = next(i for i, e in enumerate(entries) if e[0] is None)
        if any(e[0] is not None for e in entries[:first_bare]):
            ctx.count("project_mixed_forms_tuple_before_bare")
        if any(e[0] is not None for e in entries[first_bare + 1:]):
            ctx.count("project_mixed_forms_bare_before_tuple")
    dn.pen = []
    total = {"phi0": 0.0, "phi1": 0.0}
    for pz, _, vec, tn2, lab in entries:
        dn.add_penalty(100 if pz is None else pz, vec, tensor_norm2=tn2)
        total[lab] += 100 if pz is None else pz
    count_listed(ctx, lkind0, m4)
    count_listed(ctx, lkind1, m4)
    psi_q = T.make_mps(rng, cs["nprng"], sp, N, n, mode="full", dtype=rng.choice(("float64", "complex128")), counts=counts)
    cfg4 = {"methods": [m4] * 40, "use_Method": False, "precompute": rng.random() < 0.5, "opts_eigs": stage_opts(rng),
            "opts_svd": {} if m4 == "2site" else None, "project": [(st_ if pz is None else (pz, st_)) for pz, st_, _, _, _ in entries],
            "pen_monotone": lkind0[0] != "site" and lkind1[0] != "site"}
    w4 = dict(witness, stage="penalised2", penalties=[("bare(default 100)" if e[0] is None else e[0]) for e in entries],
              order=[e[4] for e in entries], listed_states=[lkind0, lkind1], run4={k: repr(v) for k, v in cfg4.items() if k != "project"})
    r4 = monitored_run(ctx, psi_q, H, dn, counts, cfg4, "penalised2", w4, stop_when_converged=True)
    if not (r4["converged"] and (T.exactness_premise(psi_q, counts) or
                                 (T.is_full_manifold(psi_q, counts) and schmidt_full(dn.embed(r4["vs"]), sp, N, counts)))):
        ctx.count("premise_unmet:penalised2-not-converged-or-no-complete-site")
        return
    ctx.count("penalised2_premise_met")
    # orthogonality is promised where the penalty exceeds the gap (safely: 2.5 x the width of the sector spectrum)
    orth = [v for v, lab in ((vs, "phi0"), (vp, "phi1")) if total[lab] > 2.5 * width]
    judge_penalised(ctx, dn, orth, r4["vs"], f"run penalised by two eigenstates listed as {w4['order']} with penalties {w4['penalties']}, "
                    f"listed states {w4['listed_states']}, {m4}", w4)


def listed_state(rng, psi, sp):
    """The same direction, represented with another norm: c * psi, psi.factor = c, or one site tensor scaled by c.
    Returns (MPS, description, squared norm of the state the *tensors* represent = factor excluded)."""
    r = rng.random()
    if r < 0.45:
        kind, phi = ["plain"], psi
    elif r < 0.65:
        c = rng.choice((1e-3, 1e3, -2.0))
        kind, phi = ["c*psi", c], c * psi
    elif r < 0.82:
        c = rng.choice((1e-3, 1e3, 2.5))
        phi = psi.shallow_copy()
        phi.factor = c * phi.factor
        kind = ["psi.factor=c", c]
    else:
        c = rng.choice((1e3, -2.0, 1e-3))
        phi = psi.shallow_copy()
        j = rng.randrange(phi.N)
        phi[j] = c * phi[j]
        kind = ["site", c]
    v, _ = T.mps_dense(phi, sp)
    return phi, kind, float(np.vdot(v, v).real) / abs(phi.factor) ** 2


def count_listed(ctx, kind, method):
    if kind[0] in ("c*psi", "psi.factor=c"):
        ctx.count("project_listed_state_factor!=1:" + method)
    elif kind[0] == "site":
        ctx.count("project_listed_state_site_scaled:" + method)


def judge_penalised(ctx, dn, projected, vp, tag, witness):
    """Converged penalised run at maximal bond dimension: its penalised functional <H> + sum_i penalty_i |<phi_i^|psi>|^2 is the
    lowest level of H + sum_i penalty_i |phi_i^><phi_i^|, and it is orthogonal to every projected eigenstate whose penalty exceeds
    the gap (``projected``).  Returns True when it sits at that level."""
    tol = 1e-7 * dn.scale
    Ef = dn.pen_energy(vp)
    target = float(dn.evp[0])
    at = abs(Ef - target) <= tol
    if not at and any(abs(t2 - 1.0) > 1e-6 for _, _, f2, t2 in dn.pen):
        # mechanism classification: the same direction listed with its norm in a *site tensor* instead of psi.factor
        evT = np.linalg.eigvalsh(dn.hp_matrix(2))
        # (up to the state's own penalty under that reading: with c = 1e-3 it is too weak to move a converged run at all)
        own_T = sum(float(np.real(pz)) * t2 * abs(np.vdot(v, vp)) ** 2 for pz, v, f2, t2 in dn.pen if t2 < 1.0)
        # or the run simply stays on a listed state whose penalty that reading scales down (c^2 = 1e-6): a stationary point
        weak = any(t2 < 0.5 and abs(np.vdot(v, vp)) > 1e-5 for pz, v, f2, t2 in dn.pen)
        if weak or abs(dn.pen_energy(vp, 2) - float(evT[0])) <= 1e-7 * max(dn.scale, abs(float(evT[0]))) + own_T:
            ctx.margin("project-next-level (violating cases)", abs(Ef - target), tol)
            ctx.violation("project:listed-state-norm-enters-via-site-tensors",
                          f"{tag} converged at <H> = {dn.energy(vp)!r}: the lowest level of H + sum_i penalty_i ||phi_i||^2 |phi_i^><phi_i^| "
                          f"({float(evT[0])!r}), not of H + sum_i penalty_i |phi_i^><phi_i^| ({target!r}).  Env_project contracts the "
                          f"tensors of the listed state and ignores psi.factor, so c * psi (norm in the factor: penalty on the direction) "
                          f"and the same vector with c in a site tensor (penalty multiplied by c^2) are penalised differently", witness)
            return False
    for j, vs in enumerate(projected):
        ov = abs(np.vdot(vs, vp))
        if not ctx.margin("project-overlap", ov, 1e-5):
            ctx.violation("project:not-orthogonal", f"{tag} converged with |<phi{j}|psi>| = {ov:.3e}", witness)
    if at:
        ctx.margin("project-next-level", abs(Ef - target), tol)
        return True
    rp = float(np.linalg.norm(dn.Hp @ vp - Ef * vp))
    if rp <= 1e-6 * dn.scale and Ef > target:
        ctx.margin("project-next-level (not judged: stationary at a higher level)", abs(Ef - target), tol)
        # converged to a higher eigenstate of H + sum penalty |phi^><phi^| (a stationary point of the sweep, e.g. protected by
        # a symmetry of the random Hamiltonian that the tensors do not encode): convergence to the *lowest* level is an
        # asymptotic promise, so this is counted and not judged (a return onto a penalised state is caught by orthogonality)
        ctx.count("penalised_stuck_in_higher_eigenstate")
        return False
    ctx.margin("project-next-level (violating cases)", abs(Ef - target), tol)
    ctx.violation("project:wrong-level", f"{tag} converged with <H> + penalties = {Ef!r} (<H> = {dn.energy(vp)!r}); lowest level of "
                  f"H + sum penalty|phi^><phi^| is {target!r} (levels of H {dn.ev[:3].tolist()})", witness)
    return False


# ------------------------------------------------------------------ canaries

def canaries(ctx):
    """Feed the oracle corrupted observations of a real, healthy run."""
    import random
    import collections
    import yastn.tn.mps as mps
    rng, nprng = random.Random(7), np.random.default_rng(7)
    sp = T.named_space("U1", "spinless")
    N, n = 4, (2,)
    groups = T.draw_terms(rng, sp, N, cplx=True)
    H = T.build_mpo(sp, N, groups)
    dn = Dense(None, T.ham_dense(H, sp), sp, N, n)
    counts = T.block_counts(sp, N, n)
    psi = T.make_mps(rng, nprng, sp, N, n, mode="full", counts=counts)
    out = mps.dmrg_(psi, H, method="1site", max_sweeps=2)
    Out = collections.namedtuple("Out", "sweeps method energy denergy max_dSchmidt max_discarded_weight")

    def fresh():
        return type(ctx)(ctx.prop, ctx.tier, ctx.seed)

    def keys(sub):
        return {v["key"] for v in sub.violations}

    sub = fresh()
    vs, nv = observe(sub, psi, dn, "canary", {})
    E = dn.energy(vs)
    ctx.canary("healthy-run-is-silent", not sub.violations and abs(out.energy - E) < 1e-9)
    st0 = {"E_prev": E + 0.1, "Ep_prev": E + 0.1, "Eu_prev": E + 0.1, "sweeps": 2, "dE_hist": [],
           "Schmidt_tol": None, "method": "1site"}
    # stale / shifted energy
    sub = fresh()
    judge_sweep(sub, Out(2, "1site", E + 1e-6, 0.1, None, None), vs, 1.0, dn, dict(st0, dE_hist=[]), "canary", {})
    ctx.canary("energy-shifted", "energy-mismatch" in keys(sub))
    # energy went up
    sub = fresh()
    judge_sweep(sub, Out(2, "1site", E, 1e-6, None, None), vs, 1.0, dn, dict(st0, E_prev=E - 1e-6, Ep_prev=E - 1e-6, Eu_prev=E - 1e-6, dE_hist=[]), "canary", {})
    ctx.canary("energy-increased", any(k.startswith("energy-increased") for k in keys(sub)))
    # state below the ground state: shift the spectrum seen by the oracle
    sub = fresh()
    dn2 = Dense(None, T.ham_dense(H, sp), sp, N, n)
    dn2.ev = dn2.ev + (E - dn2.ev[0]) + 1e-6
    judge_sweep(sub, Out(2, "1site", E, 0.1, None, None), vs, 1.0, dn2, dict(st0, dE_hist=[]), "canary", {})
    ctx.canary("below-ground-state", "below-ground-state" in keys(sub))
    # wrong sweep counter / method / denergy
    sub = fresh()
    judge_sweep(sub, Out(3, "2site", E, 0.3, None, None), vs, 1.0, dn, dict(st0, dE_hist=[]), "canary", {})
    ctx.canary("bookkeeping", {"bookkeeping:sweeps", "bookkeeping:method", "bookkeeping:denergy"} <= keys(sub))
    # un-normalised / non-canonical / central block left
    sub = fresh()
    bad = psi.shallow_copy()
    bad.A[1] = 1.0001 * bad.A[1]
    observe(sub, bad, dn, "canary", {})
    ctx.canary("norm-and-canonical", {"not-normalised", "not-canonical"} <= keys(sub))
    sub = fresh()
    bad = psi.shallow_copy()
    bad.orthogonalize_site_(0, to="last")
    observe(sub, bad, dn, "canary", {})
    ctx.canary("central-block", "not-canonical:central-block" in keys(sub))
    # wrong sector: judge the state against another charge
    sub = fresh()
    dn3 = Dense(None, T.ham_dense(H, sp), sp, N, (1,))
    observe(sub, psi, dn3, "canary", {})
    ctx.canary("wrong-sector", {"sector:tensor-charge", "sector:weight-outside"} <= keys(sub))
    # residual oracle: a superposition of two eigenvectors is not an eigenstate
    w, U = np.linalg.eigh(dn.Hs)
    mix = (U[:, 0] + 0.3 * U[:, -1]) / np.sqrt(1.09)
    sub = fresh()
    judge_eigenstate(sub, dn, mix, "canary", {})
    ctx.canary("residual", "converged-not-eigenstate" in keys(sub))


def finalize(cov, merged):
    c = merged["counters"]
    cov["symmetries_seen"] = sorted(k[4:] for k in c if k.startswith("sym:"))
    if len(cov["symmetries_seen"]) < 7:
        cov["inconclusive_reasons"].append("not every symmetry exercised")
    cov["premise_conditioned"] = {k: int(v) for k, v in c.items() if k.startswith("premise_unmet") or k.endswith("premise_met")
                                  or k.startswith("converged_to") or k.startswith("penalised_")}
