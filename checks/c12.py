"""C12  Exact PEPS environments give exact expectation values and valid metrics.

Reference-model monitor.  Every case builds one finite open-boundary PEPS (random PEPS with charge-offset ancillas,
or a product state driven through a random shallow circuit with apply_gate_), takes its dense state from
to_tensor() and runs one battery:

  bmps   EnvBoundaryMPS with a set-up string drawn from all direction combinations and a huge D_total; every measure
         function the set-up supports (measure_1site, measure_nn, measure_2site v/h with all `pairs` modes,
         measure_nsite) over all sites / bonds / ordered site pairs and random 3-4 operator tuples
  ctm    EnvCTM made exact by init='eye' + expand_outward_() (or init='dl'): measure_1site, measure_nn (all bonds,
         both orientations), measure_2site, measure_2x2, measure_line, measure_nsite, measure_nsite_exact
  bp     EnvBP on loop-free strips iterated until the messages stop changing: measure_1site, measure_nn
  ntu    EnvNTU.bond_metric for all six cluster types on every bond (QR-reduced tensors as truncate_ passes them and
         the raw site tensors): anti-Hermitian norm and smallest eigenvalue of the fused metric
  evol   evolution_step_ with non-binding opts_svd for EnvNTU (6 clusters), EnvBP (3 kinds), EnvCTM: dense state after
         the step vs the dense gates applied to the dense state (up to normalisation); reported truncation errors

In bmps / ctm, measure_2site is also called on explicit (xrange, yrange) sub-windows (always one with >= 3 boundary steps
and an open edge inside the lattice when the lattice allows it) and with explicit pair lists (odd operators with an unlisted site on the string's
path: one specific key); measure_nn also in its dict / bond-list / per-site-dict forms with reversed or shuffled bond
order and a different operator pair per bond.  Everything is compared

against  <psi| O1_{s1} O2_{s2} ... |psi> / <psi|psi>  with explicit Jordan-Wigner strings (vmon.pepsref).
"""
from __future__ import annotations

import itertools

import numpy as np
import scipy.linalg as sla

from vmon import pepsgen as PG
from vmon import pepsref as R
from vmon.harness import CaseSkip

PROP = "C12"
RULE = ("case = battery (bmps / ctm / bp / ntu / evol) x operator family x lattice x state kind (random PEPS with "
        "charged ancillas / product state + shallow circuit / purification) x battery structure (set-up string; "
        "environment construction; cluster type; environment + method + gate kinds of the evolution step); "
        "distinct = hash of that structure plus the bond dimensions of the state; non-trivial = the dense state has "
        ">= 2 non-zero amplitudes and at least one compared expectation value is neither 0 nor 1 (metrics: dimension "
        ">= 2; evolution: the step changed the state)")
ASSUMPTIONS = ["dense psi = to_tensor().to_numpy over the physical legs (observation function validated by C11)",
               "explicit Jordan-Wigner strings in the PEPS fermionic order (vmon.pepsref) define <O1_s1 O2_s2 ...>",
               "NumPy eigvalsh / norms on the dense fused metric",
               "measure_nsite (both environments) truncates boundary vectors with an internal default that the caller "
               "cannot lift; a mismatch is judged only if the same worker with a non-binding opts_svd is also wrong"]

EPS = 2.3e-16
BIG = 1 << 14
CLUSTERS = ("NN", "NN+", "NN++", "NNN", "NNN+", "NNN++")
BPKINDS = ("BP", "NN+BP", "NNN+BP")
SVD1_CLUSTERS = ("NN+", "NN++", "NNN++")       # clusters whose borders are rank-one (SVD-1) approximations
SETUPS = ("lrtb", "tlbr", "rltb", "btrl", "lr", "rl", "tb", "bt", "l", "r", "t", "b", "lrt", "tbl")
VAL_TOL = 5e-13          # |value - dense| <= VAL_TOL * prod ||O_i|| * conditioning   (observed <= ~1e-15)
HERM_TOL = 2e-13         # ||g - g^H|| / (2 ||g||)                       (observed <= ~3e-16)
PSD_TOL = 2e-13          # -lambda_min / ||g||                            (observed <= ~1e-16)
STATE_TOL = 2e-12        # relative distance of the evolved state from the exact one, up to normalisation (observed <= 4e-15)
TRUNC_TOL = 1e-6         # reported truncation_error (a square root of a round-off sized quantity)


def plan(tier):
    if tier == "thorough":
        return {"cases": 1600, "shards": 16, "budget_s": 2400}      # nominal ~4-5 min wall; soft deadline generous (shared machine)
    return {"cases": 156, "shards": 8, "budget_s": 300}             # nominal ~25 s wall


def floors(tier):
    k = 8 if tier == "thorough" else 1
    f = {"evaluations": 100 * k, "states:bmps": 5 * k, "states:ctm": 5 * k, "states:bp": 5 * k, "states:ntu": 10 * k,
         "evolution_steps": 30 * k, "bp_read_transparency_compared": 20 * k, "values_compared": 2000 * k, "values_nontrivial": 600 * k, "identity_measured": 100 * k,
         "odd_operator_values": 300 * k, "reversed_order_values": 100 * k, "restriction_raises_counted": 20 * k,
         "metrics_checked": 300 * k, "fermionic_states": 40 * k, "measure_2site_subwindows": 20 * k,
         "measure_2site_subwindows_open_edge_3steps": 4 * k, "measure_nn_dict_order:reversed": 3 * k,
         "measure_nn_dict_order:shuffled": 8 * k,
         "states_with_scaled_site_tensors": 15 * k, "states_with_D1_bonds_only": 4 * k, "states_on_1x1": 1 * k,
         "scaled_and_zero_operators": 15 * k, "container:measure_1site_dict": 15 * k, "container:measure_2site_dicts": 15 * k,
         "container:nsite_operator_dicts": 30 * k, "container:measure_1site_site_sequence": 5 * k,
         "container:sample_list": 2 * k, "container:sample_dict": 2 * k, "container:sample_site-dict": 2 * k,
         "fn:EnvCTM.sample": 5 * k, "fn:EnvBoundaryMPS.sample": 3 * k, "fn:EnvBP.sample": 3 * k,
         "defaults:measure_2site": 8 * k, "defaults:evolution_step_": 4 * k, "evolution_scaled_gates": 5 * k,
         "evolution_distribute_defaults": 4 * k,
         "pairs_list:odd:unlisted-site-on-path": 3 * k, "pairs_list:odd:path-listed": 10 * k, "pairs_list:even:path-listed": 20 * k}
    for fn in ("measure_1site", "measure_nn", "measure_2site", "measure_nsite"):
        f["fn:EnvBoundaryMPS." + fn] = 15 * k
    for fn in ("measure_1site", "measure_nn", "measure_2site", "measure_2x2", "measure_line", "measure_nsite",
               "measure_nsite_exact"):
        f["fn:EnvCTM." + fn] = 15 * k
    for fn in ("measure_1site", "measure_nn"):
        f["fn:EnvBP." + fn] = 10 * k
    for c in CLUSTERS:
        f["metric:" + c] = 20 * k
        f["evol:NTU:" + c] = 2 * k
    for b in BPKINDS:
        f["evol:BP:" + b] = 2 * k
    f["evol:CTM"] = 3 * k
    return f


# ------------------------------------------------------------------------------------------------ states

QUICK_LAT = ((2, 2), (2, 3), (2, 3), (3, 2), (3, 2), (1, 3), (3, 1), (1, 4), (4, 1), (1, 2), (2, 1), (1, 1))
THOROUGH_LAT = QUICK_LAT + ((3, 3), (3, 3), (2, 3), (3, 2), (1, 5), (5, 1), (2, 4), (4, 2))
STRIPS = ((1, 2), (2, 1), (1, 3), (3, 1), (1, 4), (4, 1), (1, 5), (5, 1), (1, 6), (6, 1), (1, 1))


def dmax_for(dims):
    n = dims[0] * dims[1]
    if min(dims) == 1 or n <= 4:
        return 4
    return 3 if n <= 6 else 2


def draw_state(ctx, rng, nprng, lattices, kinds=("rand", "rand", "rand", "circuit", "circuit", "purif", "purif0"), fams=None, scale=0.3):
    """-> F, g, psi, frame, dense x, description"""
    for _ in range(100):
        F = PG.fam(*(rng.choice(fams) if fams else (rng.choice(PG.FERMIONIC) if rng.random() < 0.7 else rng.choice(PG.FAMILIES))))
        dims = rng.choice(lattices)
        kind = rng.choice(kinds)
        N = dims[0] * dims[1]
        if N > PG.max_sites(F, kind in ("purif", "purif0")):
            continue
        if N == 1 and kind in ("circuit", "purif"):
            kind = "purif0"
        if F.d > 2 and N > 6:
            continue
        g = PG.lattice(dims, "obc")
        dmax = dmax_for(dims)
        hist = []
        if kind == "rand":
            nsec, dsec = rng.choice([(n, d) for n, d in ((2, 1), (2, 1), (3, 1), (3, 1), (2, 2), (1, 2)) if n * d <= dmax])
            psi = PG.random_peps(F, rng, g, anc="charged", nsec=nsec, dmax=dsec)
        else:
            if kind in ("purif", "purif0"):
                psi, _ = PG.product_purif_state(F, rng, nprng, g)
            else:
                psi, _ = PG.product_vec_state(F, rng, nprng, g)
            bonds = list(g.bonds())
            rng.shuffle(bonds)
            for b in bonds[:rng.randint(1, len(bonds))] if kind != "purif0" else []:        # purif0: product state, D=1 bonds
                b = tuple(map(tuple, b))
                if rng.random() < 0.5:
                    b = b[::-1]
                gate, _M, lab = invertible_nn_gate(F, rng, nprng, b, max_rank=dmax)
                psi.apply_gate_(gate)
                hist.append(lab)
            for s in g.sites():
                if rng.random() < 0.4 and kind != "purif0":
                    gate, _M, lab = invertible_local_gate(F, rng, nprng, tuple(s))
                    psi.apply_gate_(gate)
                    hist.append(lab)
        scaled = []
        if rng.random() < scale:                 # extreme but legal scales on single site tensors: ratios must not care
            for s in rng.sample(list(g.sites()), min(N, rng.randint(1, 2))):
                cs = big_scalar(rng)
                psi[s] = cs * psi[s]
                scaled.append([list(s), abs(cs)])
        fr = R.PepsFrame(F.loc, psi)
        x = fr.dense(psi)
        if np.count_nonzero(np.abs(x) > 1e-14 * max(np.abs(x).max(), 1e-300)) < (2 if N > 1 else 1):
            continue
        S = 1.0
        for s in psi.sites():
            S *= float(psi[s].norm())
        if float(np.linalg.norm(x)) < 1e-4 * S:        # numerically tiny against the contraction round-off
            continue
        desc = {"family": [F.cls, F.sym], "lattice": list(dims), "state": kind, "circuit": hist, "scaled_sites": scaled,
                "bond_dims": sorted(set(psi.get_bond_dimensions().values()))}
        if F.fermionic:
            ctx.count("fermionic_states")
        if scaled:
            ctx.count("states_with_scaled_site_tensors")
        if N == 1:
            ctx.count("states_on_1x1")
        if max(desc["bond_dims"] + [1]) == 1:
            ctx.count("states_with_D1_bonds_only")
        return F, g, psi, fr, x, desc
    raise CaseSkip


def big_scalar(rng):
    c = 10.0 ** rng.uniform(-20, 20)
    return c * rng.choice((1, 1, -1, 1j, np.exp(0.7j)))


def invertible_local_gate(F, rng, nprng, site):
    import yastn.tn.fpeps as fpeps
    o = F.cat
    T, _H = _hermitian(F, nprng, 1)
    step = rng.uniform(0.1, 0.6) * rng.choice((1, 1j, np.exp(0.4j)))
    gate = fpeps.gates.gate_local_exp(step, o["I"], R.from_dense(F.cfg, T, [F.loc.leg, F.loc.leg.conj()]), site)
    return gate, R.gate_chain_dense(F.loc, gate.G), "local_exp"


def _hermitian(F, nprng, K):
    d = F.d
    M = PG.rand_array(nprng, (d ** K, d ** K))
    M = (M + M.conj().T) / 2
    T = R.matrix_chain(M, d, K) * F.loc.charge_mask(K)
    return T, R.chain_matrix(T)


def invertible_nn_gate(F, rng, nprng, bond, max_rank=4):
    """invertible two-site gate whose auxiliary dimension is <= max_rank -> (Gate, dense M, label)"""
    import yastn.tn.fpeps as fpeps
    o, loc = F.cat, F.loc
    step = rng.uniform(0.2, 0.8) * rng.choice((1, 1j, np.exp(0.5j), -1))
    opts = ["product"]
    if max_rank >= 2:
        opts += ["zz", "zz"]
        if F.cls == "Spin12" and F.sym != "U1":
            opts.append("Ising")
    if max_rank >= 4 and F.d == 2:
        opts += ["hopping" if F.fermionic else "Heisenberg"] * 3 + ["nn_exp"]
    if max_rank >= 4 and F.fermionic:
        opts += ["pairexp", "pairexp"]
    kind = rng.choice(opts)
    if kind == "hopping":
        gate = fpeps.gates.gate_nn_hopping(rng.uniform(0.3, 1.2), step, o["I"], o["c"], o["cp"], bond)
    elif kind == "Heisenberg":
        gate = fpeps.gates.gate_nn_Heisenberg(rng.uniform(-1, 1), step, o["I"], o["sz"], o["sp"], o["sm"], bond)
    elif kind == "Ising":
        gate = fpeps.gates.gate_nn_Ising(rng.uniform(0.3, 1.2), step, o["I"], o[rng.choice(("x", "y", "z"))], bond)
    elif kind == "nn_exp":
        T, _ = _hermitian(F, nprng, 2)
        legs = [loc.leg, loc.leg.conj(), loc.leg, loc.leg.conj()]
        gate = fpeps.gates.gate_nn_exp(step, o["I"], R.from_dense(F.cfg, T, legs), bond)
    else:
        d = F.d
        if kind == "product":          # exp(a A) (x) exp(b B): rank 1
            A = sla.expm(rng.uniform(-1, 1) * F.mat[rng.choice(F.even[:-1])])
            B = sla.expm(rng.uniform(-1, 1) * F.mat[rng.choice(F.even[:-1])])
            M = np.multiply.outer(A, B).astype(np.complex128)
        elif kind == "zz":             # exp(-step A (x) A) for a diagonal projector-like A: rank 2
            A = np.diag(np.diag(F.mat[rng.choice(F.even[:-1])])).real
            A = (A != 0).astype(float)
            M = np.multiply.outer(np.eye(d), np.eye(d)) + (np.exp(-step) - 1) * np.multiply.outer(A, A)
        else:                          # exp(theta (A0 B1 + h.c.)) with A odd, (A0 B1)^2 = 0: 1 + theta(AB + h.c.) + ..: rank 3-4
            a, b = rng.choice(F.odd)
            K = R.full_matrix(loc, 2, [(F.mat[a], 0), (F.mat[b], 1)])
            K = K + K.conj().T
            M = R.matrix_chain(sla.expm(-step * K), d, 2)
        Gs = PG.split_chain(F, M, tol=1e-12)
        if Gs[0].get_shape(axes=2) > max_rank:
            A = sla.expm(rng.uniform(-1, 1) * F.mat[rng.choice(F.even[:-1])])
            Gs = PG.split_chain(F, np.multiply.outer(A, A).astype(np.complex128), tol=1e-12)
            kind = "product"
        gate = fpeps.Gate(G=tuple(Gs), sites=bond)
    return gate, R.gate_chain_dense(loc, gate.G), kind


# ------------------------------------------------------------------------------------------------ oracle + judging

class Battery:
    def __init__(self, ctx, F, g, psi, fr, x, desc, envname):
        self.ctx, self.F, self.g, self.psi, self.fr, self.x, self.desc, self.envname = ctx, F, g, psi, fr, x, desc, envname
        self.sites = [tuple(s) for s in g.sites()]
        self.nontrivial = False
        self.nrm = {k: float(np.linalg.norm(m, 2)) for k, m in F.mat.items()}
        self._cache = {}
        # <O> = val_op / val_no: both carry contraction round-off ~ eps * prod ||A_s||^2, so the quotient is only as
        # accurate as eps * (prod ||A_s|| / ||psi||)^2; widen the tolerance when the state is small against its tensors
        S = 1.0
        for s in psi.sites():
            S *= float(psi[s].norm())
        self.amp = max(1.0, (1e-2 * S / max(float(np.linalg.norm(x)), 1e-300)) ** 2)

    def tol(self, names):
        return VAL_TOL * self.amp * max(1.0, float(np.prod([self.nrm[n] for n in names])))

    def dense(self, names, sites):
        key = (tuple(names), tuple(sites))
        if key not in self._cache:
            terms = [(self.F.mat[n], self.fr.position(s)) for n, s in zip(names, sites)]
            self._cache[key] = complex(R.expect(self.F.loc, self.x, terms, self.fr.sys_axes))
        return self._cache[key]

    def klass(self, names, sites):
        """mechanism qualifiers: odd operators present?  site order w.r.t. the fermionic order"""
        odd = any(self.F.loc.string(self.F.charge_of(n)) is not None for n in names if self.F.charge_of(n) is not None)
        pos = [self.fr.position(s) for s in sites]
        if len(set(pos)) < len(pos):
            order = "repeated-site"
        elif pos == sorted(pos):
            order = "ordered"
        elif pos == sorted(pos, reverse=True):
            order = "reversed"
        else:
            order = "mixed"
        return odd, order

    def judge(self, fn, names, sites, got, key_extra="", tol_scale=1.0, key=None, factor=1.0):
        ctx = self.ctx
        exp = factor * self.dense(names, sites)
        scale = max(1.0, float(np.prod([self.nrm[n] for n in names]))) * (abs(factor) if factor != 0 else 1.0)
        odd, order = self.klass(names, sites)
        ctx.count("values_compared")
        ctx.count("fn:" + self.envname + "." + fn)
        if odd:
            ctx.count("odd_operator_values")
        if order in ("reversed", "mixed"):
            ctx.count("reversed_order_values")
        if all(n == "I" for n in names):
            ctx.count("identity_measured")
        if abs(exp) > 1e-6 and abs(exp - 1) > 1e-6:
            ctx.count("values_nontrivial")
            self.nontrivial = True
        try:
            got = complex(got)
        except Exception:
            ctx.violation(f"result-type:{self.envname}.{fn}", f"{fn} returned {type(got).__name__}")
            return False
        err = abs(got - exp)
        ok = ctx.margin(f"{self.envname}.{fn}" if key is None else key, err, VAL_TOL * scale * tol_scale * self.amp)
        if not ok:
            key = key or (f"value:{self.envname}.{fn}{key_extra}:" + ("odd" if odd else "even") + ":" + order)
            ctx.violation(key, f"{self.envname}.{fn}({', '.join(names)}) at {list(sites)} = {got} but dense <psi|O|psi>/<psi|psi> = {exp} "
                               f"(|diff| {err:.3e}) on {self.desc['lattice']} {self.F.cls},{self.F.sym}",
                          dict(self.desc, function=fn, operators=list(names), sites=[list(s) for s in sites], got=got, expected=exp))
        return ok

    # operator choices -----------------------------------------------------------------
    def op_pairs(self, rng, n_odd=1, n_even=1):
        F = self.F
        out = []
        odd = list(F.odd)
        rng.shuffle(odd)
        out += odd[:n_odd]
        ev = [(a, b) for a in F.even for b in F.even]
        rng.shuffle(ev)
        out += ev[:n_even]
        return out

    def op_tuple(self, rng, k):
        """k catalogue operators whose charges add to zero (operators of a family commute to a definite charge)."""
        F = self.F
        names = [n for n in F.cat if F.charge_of(n) is not None]
        for _ in range(50):
            pick = [rng.choice(names) for _ in range(k - 1)]
            tot = R.G.add(F.sym, [F.charge_of(n) for n in pick])
            last = [n for n in names if R.G.add(F.sym, [tot, F.charge_of(n)]) == F.loc.zero]
            if last:
                return pick + [rng.choice(last)]
        return ["I"] * k


def restricted(ctx, envname, fn, exc, allowed):
    """a YastnError whose text is one of the documented restrictions is counted; anything else is re-raised."""
    msg = str(exc)
    if type(exc).__name__ == "YastnError" and any(a in msg for a in allowed):
        ctx.count("restriction_raises_counted")
        ctx.count(f"raises:{envname}.{fn}")
        return True
    return False



# ------------------------------------------------------------------------------------------------ container forms, scales, sampling

def shuffled(rng, seq):
    seq = list(seq)
    rng.shuffle(seq)
    return seq


def extras_1site(ctx, B, env, rng, site_sequence=False):
    """measure_1site: dict forms in shuffled site order with a single-key dict per site and a different operator per site;
    operators at extreme scales and the zero operator (expectation values are linear in the operator)."""
    o, F = B.F.cat, B.F
    per = {s: rng.choice(F.even) for s in shuffled(rng, B.sites)}
    out = env.measure_1site({s: {"k": o[nm]} for s, nm in per.items()})
    ctx.count("container:measure_1site_dict")
    if not isinstance(out, dict):
        out = {B.sites[0] + ("k",): out}
    if set(map(tuple, out)) != {s + ("k",) for s in per}:
        ctx.violation(f"keys:{B.envname}.measure_1site", f"measure_1site(dict) returned keys {sorted(out)[:6]}")
    for s, nm in per.items():
        if s + ("k",) in out:
            B.judge("measure_1site", [nm], [s], out[s + ("k",)], ":dict")
    nm = rng.choice(F.even)
    cs = big_scalar(rng)
    out = env.measure_1site(cs * o[nm])
    for s in B.sites:
        B.judge("measure_1site", [nm], [s], out[s] if isinstance(out, dict) else out, ":scaled-operator", factor=cs)
    out = env.measure_1site(0.0 * o[nm])
    for s in B.sites:
        B.judge("measure_1site", [nm], [s], out[s] if isinstance(out, dict) else out, ":zero-operator", factor=0.0)
    ctx.count("scaled_and_zero_operators")
    if site_sequence and len(B.sites) > 1:
        seq = shuffled(rng, rng.sample(B.sites, rng.randint(1, len(B.sites))))
        out = env.measure_1site(o[nm], site=list(seq))
        ctx.count("container:measure_1site_site_sequence")
        for s in seq:
            B.judge("measure_1site", [nm], [s], out[s], ":site-sequence")


def extras_2site(ctx, B, env, rng, pairs, opts, dirns):
    """measure_2site with operators given as {site: {key: operator}} in shuffled order (one or two keys per site; all O1 of
    one charge), and once with every optional argument omitted."""
    o, F = B.F.cat, B.F
    for dirn in dirns:
        a, b = rng.choice(pairs)
        same = [n for n in F.cat if F.charge_of(n) == F.charge_of(b) and n != b and not np.iscomplexobj(F.mat[n])]
        Od = {s: {"x": o[a]} for s in shuffled(rng, B.sites)}
        Pd = {}
        for s in shuffled(rng, B.sites):
            Pd[s] = {"y": o[b]}
            if same and rng.random() < 0.5:
                Pd[s]["z"] = o[rng.choice(same)]
        names = {s: {k: next(n for n in F.cat if F.cat[n] is v) for k, v in d.items()} for s, d in Pd.items()}
        pm = rng.choice(("<", "<=", "corner <=", "row <"))
        out = env.measure_2site(Od, Pd, pairs=pm, dirn=dirn, opts_svd=dict(opts))
        ctx.count("container:measure_2site_dicts")
        for (k0, k1), v in out.items():
            s0, s1 = tuple(k0[:2]), tuple(k1[:2])
            if tuple(k0[2:]) != ("x",) or tuple(k1[2:]) not in (("y",), ("z",)):
                ctx.violation(f"keys:{B.envname}.measure_2site", f"measure_2site(dicts) returned key {k0}, {k1}")
                continue
            B.judge("measure_2site", [a, names[s1][k1[2]]], [s0, s1], v, ":" + dirn + ":dicts")
    # defaults: pairs='corner <=', dirn='v', opts_svd=None (D_total = largest stored boundary bond -- may bind inside zipper)
    if "v" in dirns:
        a, b = pairs[0]
        out = env.measure_2site(o[a], o[b])
        ctx.count("defaults:measure_2site")
        bad = [(k, v) for k, v in out.items() if abs(complex(v) - B.dense([a, b], [tuple(k[0]), tuple(k[1])])) > B.tol([a, b])]
        if bad:
            ref = env.measure_2site(o[a], o[b], opts_svd=dict(opts))
            for k, v in bad:
                if abs(complex(ref[k]) - B.dense([a, b], [tuple(k[0]), tuple(k[1])])) <= B.tol([a, b]):
                    ctx.count("default_truncation_binding:measure_2site")
                else:
                    B.judge("measure_2site", [a, b], [tuple(k[0]), tuple(k[1])], v, ":v:defaults")
        for k, v in out.items():
            if (k, v) not in bad:
                B.judge("measure_2site", [a, b], [tuple(k[0]), tuple(k[1])], v, ":v:defaults")


def sample_check(ctx, B, env, rng, opts=None, bp=False, dirns="vh"):
    """sample(projectors=...) in its list / dict / per-site-dict forms (shuffled key and site order, vectors or matrices):
    the returned probability of the drawn configuration must be <psi| prod_s P_s |psi> / <psi|psi> of the dense state."""
    F, loc = B.F, B.F.loc
    d = F.d
    mats = [np.diag((np.arange(d) == k).astype(float)) for k in range(d)]
    vec = rng.random() < 0.4

    def proj(k):
        if vec:
            v = np.zeros(d)
            v[k] = 1.0
            return R.from_dense(F.cfg, v, [loc.leg], n=loc.charges[k])
        return R.from_dense(F.cfg, mats[k], [loc.leg, loc.leg.conj()])

    form = rng.choice(("list", "dict", "site-dict"))
    if form == "list":
        P = [proj(k) for k in range(d)]
        key2k = {s: {k: k for k in range(d)} for s in B.sites}
    elif form == "dict":
        ks = shuffled(rng, range(d))
        P = {"p%d" % k: proj(k) for k in ks}
        key2k = {s: {"p%d" % k: k for k in range(d)} for s in B.sites}
    else:
        P, key2k = {}, {}
        for s in shuffled(rng, B.sites):
            ks = shuffled(rng, range(d))
            P[s] = {("q", k): proj(k) for k in ks}
            key2k[s] = {("q", k): k for k in range(d)}
    F.seed_backend(rng)
    kw = {} if bp or opts is None else {"opts_svd": dict(opts)}
    if not bp and (rng.random() < 0.5 or "v" not in dirns):
        kw["dirn"] = rng.choice(dirns)
    smp, prob = env.sample(P, return_probabilities=True, **kw)
    if isinstance(prob, (list, tuple)):
        prob = prob[0]
    ctx.count("container:sample_" + form)
    if set(map(tuple, smp)) != set(B.sites):
        ctx.violation(f"keys:{B.envname}.sample", f"sample returned sites {sorted(smp)[:6]}")
        return
    try:
        conf = {s: key2k[s][smp[s]] for s in B.sites}
    except (KeyError, TypeError):
        ctx.violation(f"keys:{B.envname}.sample", f"sample returned an unknown projector key: {smp}")
        return
    exp = complex(R.expect(loc, B.x, [(mats[conf[s]], B.fr.position(s)) for s in B.sites], B.fr.sys_axes)).real
    err = abs(complex(prob) - exp)
    ctx.count("values_compared")
    ctx.count("fn:" + B.envname + ".sample")
    if not ctx.margin(B.envname + ".sample", err, 10 * VAL_TOL * B.amp):
        ctx.violation(f"value:{B.envname}.sample:probability:{form}", f"{B.envname}.sample ({form}, {'vectors' if vec else 'matrices'}) drew "
                      f"{conf} and reports probability {prob}, dense state gives {exp}", dict(B.desc, configuration={str(k): v for k, v in conf.items()}))


def probe_falsy(ctx, B, env, rng):
    """PROBES (recorded only): empty containers are not mentioned by the docstrings."""
    o = B.F.cat
    for name, call in (("measure_1site_site=[]", lambda: env.measure_1site(o["I"], site=[])),
                       ("measure_nn_bond=[]", lambda: env.measure_nn(o["I"], o["I"], bond=[])),
                       ("measure_2site_pairs=[]", lambda: env.measure_2site(o["I"], o["I"], pairs=[]))):
        try:
            r = call()
            ctx.count("probe:empty:" + name + ":" + ("empty-result" if (isinstance(r, dict) and not r) else "returned-" + type(r).__name__))
        except Exception as e:
            ctx.count("probe:empty:" + name + ":" + type(e).__name__)

# ------------------------------------------------------------------------------------------------ battery: bmps

def battery_bmps(ctx, idx, rng, nprng, lattices):
    import yastn
    import yastn.tn.fpeps as fpeps
    from yastn.tn.fpeps.envs._env_window import _measure_nsite
    F, g, psi, fr, x, desc = draw_state(ctx, rng, nprng, lattices)
    setup = rng.choice(SETUPS)
    B = Battery(ctx, F, g, psi, fr, x, dict(desc, setup=setup), "EnvBoundaryMPS")
    opts = {"D_total": BIG}
    if setup == "r":                             # 'r' is the default set-up: omit the argument
        env = fpeps.EnvBoundaryMPS(psi, dict(opts))
        ctx.count("defaults:EnvBoundaryMPS_setup")
    else:
        env = fpeps.EnvBoundaryMPS(psi, opts_svd=dict(opts), setup=setup)
    Nx, Ny = g.Nx, g.Ny
    o = F.cat
    has_lr = "l" in setup and "r" in setup
    has_tb = "t" in setup and "b" in setup
    pairs = B.op_pairs(rng, 1, 1)
    if has_lr:
        # ---- measure_1site: all sites, every even operator
        for nm in F.even:
            out = env.measure_1site(o[nm])
            if set(out) != set(B.sites):
                ctx.violation("keys:EnvBoundaryMPS.measure_1site", f"measure_1site returned keys {sorted(out)}")
            for s in B.sites:
                B.judge("measure_1site", [nm], [s], out[s])
        s = rng.choice(B.sites)
        nm = rng.choice(F.even)
        B.judge("measure_1site", [nm], [s], env.measure_1site(o[nm], site=s), ":site")
        out = env.measure_1site({"k": o[nm]}, site=s)
        B.judge("measure_1site", [nm], [s], out["k"], ":site-dict")
        extras_1site(ctx, B, env, rng)
        sample_check(ctx, B, env, rng, opts, dirns="vh" if has_tb else "v")
    # ---- measure_nn on the bonds the set-up supports
    vb, hb = [tuple(map(tuple, b)) for b in g.bonds("v")], [tuple(map(tuple, b)) for b in g.bonds("h")]
    for a, b in pairs:
        use = (vb if has_lr else []) + (hb if has_tb else [])
        if not use:
            break
        if has_lr and has_tb and rng.random() < 0.5:
            out = env.measure_nn(o[a], o[b])
        else:
            out = env.measure_nn({bd: (o[a], o[b]) for bd in use})
        if set(out) != set(use):
            ctx.violation("keys:EnvBoundaryMPS.measure_nn", f"measure_nn returned keys {sorted(out)} for bonds {use}")
        for bd in use:
            if bd in out:
                B.judge("measure_nn", [a, b], bd, out[bd])
    use = (vb if has_lr else []) + (hb if has_tb else [])
    if use:
        # dict form, bonds listed in reversed / shuffled order, a different operator pair on every bond
        for _ in range(2):
            order, how = bond_order(rng, use)
            per = {bd: rng.choice(pairs) for bd in order}
            out = env.measure_nn({bd: (o[per[bd][0]], o[per[bd][1]]) for bd in order})
            ctx.count("measure_nn_dict_order:" + how)
            if set(out) != set(order):
                ctx.violation("keys:EnvBoundaryMPS.measure_nn", f"measure_nn(dict) returned keys {sorted(out)} for bonds {order}")
            for bd in order:
                if bd in out:
                    B.judge("measure_nn", list(per[bd]), bd, out[bd], ":dict-" + how)
    # ---- measure_2site
    for dirn, ok in (("v", has_lr), ("h", has_tb)):
        if not ok:
            continue
        for a, b in pairs:
            pm = rng.choice(("corner <=", "row <=", "<=", "<", "corner <", "=", "row <"))
            out = env.measure_2site(o[a], o[b], pairs=pm, dirn=dirn, opts_svd=dict(opts))
            check_2site_keys(ctx, B, "EnvBoundaryMPS", out, pm, dirn, (0, Nx), (0, Ny))
            for (s0, s1), v in out.items():
                B.judge("measure_2site", [a, b], [tuple(s0), tuple(s1)], v, ":" + dirn)
    windows_2site(ctx, B, env, "EnvBoundaryMPS", rng, pairs, opts, Nx, Ny, [d for d, ok in (("v", has_lr), ("h", has_tb)) if ok])
    extras_2site(ctx, B, env, rng, pairs, opts, [d for d, ok in (("v", has_lr), ("h", has_tb)) if ok])
    for dirn, ok in (("v", has_lr), ("h", has_tb)):
        if ok:
            pairs_list_2site(ctx, B, env, rng, pairs, opts, dirn, Nx, Ny)
    # single-direction set-ups: the only windows that need no other boundary
    single = {"r": ("v", None, (0, 1)), "l": ("v", None, (Ny - 1, Ny)), "b": ("h", (0, 1), None), "t": ("h", (Nx - 1, Nx), None)}
    for ch, (dirn, xr, yr) in single.items():
        if setup == ch or (ch in setup and not (has_lr if dirn == "v" else has_tb)):
            a, b = pairs[0]
            out = env.measure_2site(o[a], o[b], xrange=xr, yrange=yr, pairs="<=", dirn=dirn, opts_svd=dict(opts))
            ctx.count("bmps_single_direction_windows")
            for (s0, s1), v in out.items():
                B.judge("measure_2site", [a, b], [tuple(s0), tuple(s1)], v, ":" + dirn + ":window")
    # ---- measure_nsite  (needs the right boundary of the last and the left boundary of the first column involved)
    def nsite(names, sites):
        cols = [s[1] for s in sites]
        if has_lr:
            pass
        elif "r" in setup:                 # only the right boundaries + the trivial left one: windows inside column 0
            if set(cols) != {0}:
                return
        elif "l" in setup:
            if set(cols) != {Ny - 1}:
                return
        else:
            return
        if rng.random() < 0.2:                   # operators given as {site: operator}
            got = env.measure_nsite(*[{tuple(s): o[n]} for n, s in zip(names, sites)], sites=sites)
            ctx.count("container:nsite_operator_dicts")
        else:
            got = env.measure_nsite(*[o[n] for n in names], sites=sites)
        exp = B.dense(names, sites)
        if abs(complex(got) - exp) > B.tol(names):
            # internal default D_total (largest bond of the stored boundary vectors) may bind inside zipper:
            env.xrange, env.yrange = (0, Nx), (min(cols), max(cols) + 1)
            got2 = _measure_nsite(env, *[o[n] for n in names], sites=sites, dirn="lr", opts_svd=dict(opts))
            ctx.count("nsite_default_truncation_suspected")
            if abs(complex(got2) - exp) <= B.tol(names):
                ctx.count("nsite_default_truncation_binding:EnvBoundaryMPS")
                ctx.count("fn:EnvBoundaryMPS.measure_nsite")
                return
            got = got2
        B.judge("measure_nsite", names, sites, got)

    run_nsite_tuples(ctx, B, rng, nsite, pairs)
    finish(ctx, B, ("bmps", setup))


PAIR_MODES = ("corner <=", "row <=", "<=", "<", "corner <", "=", "row <")


def sub_windows(rng, Nx, Ny, dirn):
    """proper sub-windows (xrange, yrange) of the lattice for measure_2site.

    Always included when the lattice allows it: a window of >= 3 boundary-MPS steps (columns for dirn='v', rows for 'h')
    whose last row (column) is NOT the last one of the lattice, so that the legs leaving the window carry charge and
    every piece of the fermionic string at the window's edge matters; plus one random proper sub-window."""
    out = []
    if dirn == "v" and Ny >= 3 and Nx >= 2:
        x0 = rng.randrange(0, Nx - 1)
        x1 = rng.randint(x0 + 1, Nx - 1)
        y0 = rng.randrange(0, Ny - 2)
        out.append(((x0, x1), (y0, rng.randint(y0 + 3, Ny))))
    if dirn == "h" and Nx >= 3 and Ny >= 2:
        y0 = rng.randrange(0, Ny - 1)
        y1 = rng.randint(y0 + 1, Ny - 1)
        x0 = rng.randrange(0, Nx - 2)
        out.append(((x0, rng.randint(x0 + 3, Nx)), (y0, y1)))
    for _ in range(20):
        x0, y0 = rng.randrange(Nx), rng.randrange(Ny)
        w = ((x0, rng.randint(x0 + 1, Nx)), (y0, rng.randint(y0 + 1, Ny)))
        if w != ((0, Nx), (0, Ny)) and w not in out and (w[0][1] - w[0][0]) * (w[1][1] - w[1][0]) >= 2:
            out.append(w)
            break
    return out


def windows_2site(ctx, B, env, envname, rng, pairs, opts, Nx, Ny, dirns):
    """measure_2site restricted to explicit (xrange, yrange) windows, odd operator pair first."""
    o = B.F.cat
    for dirn in dirns:
        for wi, (xr, yr) in enumerate(sub_windows(rng, Nx, Ny, dirn)):
            for a, b in pairs[:1] if (ctx.tier == "quick" or wi > 0) else pairs:
                pm = rng.choice([m for m in PAIR_MODES if "<" in m]) if wi == 0 else rng.choice(PAIR_MODES)
                out = env.measure_2site(o[a], o[b], xrange=xr, yrange=yr, pairs=pm, dirn=dirn, opts_svd=dict(opts))
                check_2site_keys(ctx, B, envname, out, pm, dirn, xr, yr)
                ctx.count("measure_2site_subwindows")
                if (xr[1] < Nx and yr[1] - yr[0] >= 3) if dirn == "v" else (yr[1] < Ny and xr[1] - xr[0] >= 3):
                    ctx.count("measure_2site_subwindows_open_edge_3steps")
                for (s0, s1), v in out.items():
                    B.judge("measure_2site", [a, b], [tuple(s0), tuple(s1)], v, ":" + dirn + ":subwindow")


PAIRS_LIST_KEY = "value:measure_2site:pairs-list:odd:string-skipped-on-unlisted-site"


def string_path(s0, s1, dirn, xr, yr):
    """sites on which the workers (_measure_2site_rows / _columns) place the fermionic string of O0 when O1 sits at s1:
    the rest of the row (column) of O0 up to O1 or to the window's edge, and -- if O1 is in a later row (column) -- the
    part of O1's row (column) beyond O1; intermediate rows (columns) are crossed at the window's edge only."""
    if dirn == "h":
        (x0, y0), (x1, y1) = s0, s1
        if x1 == x0:
            return [(x0, y) for y in range(y0 + 1, y1)]
        return [(x0, y) for y in range(y0 + 1, yr[1])] + [(x1, y) for y in range(y1 + 1, yr[1])]
    (x0, y0), (x1, y1) = s0, s1
    if y1 == y0:
        return [(x, y0) for x in range(x0 + 1, x1)]
    return [(x, y0) for x in range(x0 + 1, xr[1])] + [(x, y1) for x in range(x1 + 1, xr[1])]


def pairs_list_2site(ctx, B, env, rng, pairs, opts, dirn, Nx, Ny):
    """measure_2site with an explicit LIST of pairs (offered by the docstring).

    The workers add the string swaps of O0 on a site only inside `if ((nx0, ny0), (nx1, ny1)) in pairs:`, so with parity-odd
    operators a listed pair is evaluated with a piece of the string missing whenever a site on the string's path is not
    itself listed as a partner of O0.  Exactly that mechanism (odd operators, explicit list, unlisted site on the path)
    is judged under ONE key, PAIRS_LIST_KEY; even operators and lists that contain the whole path keep the normal keys."""
    o = B.F.cat
    xr, yr = (0, Nx), (0, Ny)
    so = (lambda s: s) if dirn == "h" else (lambda s: s[::-1])
    cand = [(s0, s1) for s0 in B.sites for s1 in B.sites if so(s0) < so(s1)]
    if not cand:
        return
    lst = rng.sample(cand, min(len(cand), rng.randint(1, 2)))
    far = [p for p in cand if string_path(p[0], p[1], dirn, xr, yr)]
    if far and rng.random() < 0.5:               # a lone pair whose string passes other sites
        lst = [rng.choice(far)]
    elif rng.random() < 0.6:                     # complete the list: every site on the string's path is listed with O0
        lst = lst[:1]
        lst += [(lst[0][0], s) for s in string_path(lst[0][0], lst[0][1], dirn, xr, yr)]
    listed = set(lst)
    for a, b in (pairs[-1], pairs[0]):
        out = env.measure_2site(o[a], o[b], pairs=list(lst), dirn=dirn, opts_svd=dict(opts))
        if {(tuple(p), tuple(q)) for p, q in out} != listed:
            ctx.violation(f"keys:{B.envname}.measure_2site", f"measure_2site(pairs=<list of {len(listed)}>) returned {len(out)} entries")
        odd = B.klass([a, b], lst[0])[0]
        for (s0, s1), v in out.items():
            s0, s1 = tuple(s0), tuple(s1)
            skipped = odd and any((s0, s) not in listed for s in string_path(s0, s1, dirn, xr, yr))
            ctx.count("pairs_list:" + ("odd" if odd else "even") + (":unlisted-site-on-path" if skipped else ":path-listed"))
            B.judge("measure_2site", [a, b], [s0, s1], v, ":" + dirn + ":pairs-list", key=PAIRS_LIST_KEY if skipped else None)


def bond_order(rng, bonds):
    """the same bonds in a non-natural order (reversed / shuffled); measure_nn must not depend on it."""
    bonds = list(bonds)
    how = rng.choice(("reversed", "shuffled", "shuffled"))
    if how == "reversed":
        bonds.reverse()
    else:
        rng.shuffle(bonds)
    return bonds, how


def check_2site_keys(ctx, B, envname, out, pm, dirn, xr, yr):
    """the `pairs` selector documents which (s0, s1) are returned."""
    sites = [(nx, ny) for nx in range(*xr) for ny in range(*yr)]
    if "corner" in pm:
        allp = [((xr[0], yr[0]), s1) for s1 in sites]
    elif "row" in pm:
        allp = [((xr[0], ny), s1) for ny in range(*yr) for s1 in sites]
    else:
        allp = [(s0, s1) for s0 in sites for s1 in sites]
    so = (lambda s: s) if dirn == "h" else (lambda s: s[::-1])
    want = set()
    if "<" in pm:
        want |= {(a, b) for a, b in allp if so(a) < so(b)}
    if "=" in pm:
        want |= {(a, b) for a, b in allp if a == b}
    got = {(tuple(a), tuple(b)) for a, b in out}
    if got != want:
        ctx.violation(f"keys:{envname}.measure_2site", f"measure_2site(pairs={pm!r}, dirn={dirn!r}) returned {len(got)} pairs, "
                      f"expected {len(want)}; missing {sorted(want - got)[:4]} extra {sorted(got - want)[:4]}")


def run_nsite_tuples(ctx, B, rng, fun, pairs, all_pairs=True):
    """all ordered site pairs for one operator pair (+ a sample for the second), random 3- and 4-operator tuples."""
    sites = B.sites
    for j, (a, b) in enumerate(pairs):
        allp = list(itertools.product(sites, repeat=2))
        if j > 0 or not all_pairs:
            allp = rng.sample(allp, min(len(allp), 8))
        for ss in allp:
            fun([a, b], list(ss))
    for _ in range(4 if B.ctx.tier == "quick" else 8):
        k = rng.choice((1, 3, 3, 4))
        names = B.op_tuple(rng, k)
        ss = [rng.choice(sites) for _ in range(k)]
        fun(names, ss)


def finish(ctx, B, struct):
    d = B.desc
    sig = (struct, d["family"][0], d["family"][1], tuple(d["lattice"]), d["state"], tuple(d["bond_dims"]))
    ctx.count("states:" + struct[0])
    ctx.case(sig, B.nontrivial, dict(d, battery=list(map(str, struct))))


# ------------------------------------------------------------------------------------------------ battery: ctm

def exact_ctm(psi, rng, g):
    import yastn.tn.fpeps as fpeps
    need = max(g.Nx, g.Ny) - 1
    if rng.random() < 0.5 and need >= 1:
        env = fpeps.EnvCTM(psi, init="dl")
        done, how = 1, "dl"
    else:
        env = fpeps.EnvCTM(psi, init="eye")
        done, how = 0, "eye"
    for _ in range(need - done):
        env.expand_outward_()
    return env, how + "+expand*%d" % max(need - done, 0)


def battery_ctm(ctx, idx, rng, nprng, lattices):
    import yastn
    import yastn.tn.fpeps as fpeps
    from yastn.tn.fpeps.envs._env_window import EnvWindow, _measure_nsite
    F, g, psi, fr, x, desc = draw_state(ctx, rng, nprng, lattices)
    env, how = exact_ctm(psi, rng, g)
    B = Battery(ctx, F, g, psi, fr, x, dict(desc, env=how), "EnvCTM")
    o = F.cat
    Nx, Ny = g.Nx, g.Ny
    opts = {"D_total": BIG}
    pairs = B.op_pairs(rng, 1, 1)
    # ---- measure_1site
    for nm in F.even:
        out = env.measure_1site(o[nm])
        if set(map(tuple, out)) != set(B.sites):
            ctx.violation("keys:EnvCTM.measure_1site", f"measure_1site returned keys {sorted(out)}")
        for s in B.sites:
            B.judge("measure_1site", [nm], [s], out[s])
    s = rng.choice(B.sites)
    nm = rng.choice(F.even)
    B.judge("measure_1site", [nm], [s], env.measure_1site(o[nm], site=s), ":site")
    extras_1site(ctx, B, env, rng, site_sequence=True)
    sample_check(ctx, B, env, rng, opts)
    probe_falsy(ctx, B, env, rng)
    # ---- measure_nn: all bonds as listed, then every bond reversed
    bonds = [tuple(map(tuple, b)) for b in g.bonds()]
    for a, b in pairs:
        out = env.measure_nn(o[a], o[b])
        if {(tuple(p), tuple(q)) for p, q in out} != set(bonds):
            ctx.violation("keys:EnvCTM.measure_nn", f"measure_nn returned keys {sorted(out)}")
        for bd in bonds:
            B.judge("measure_nn", [a, b], bd, out[bd], ":" + g.nn_bond_dirn(*bd))
        for bd in bonds:
            rb = bd[::-1]
            B.judge("measure_nn", [a, b], rb, env.measure_nn(o[a], o[b], bond=rb), ":" + g.nn_bond_dirn(*rb))
    # ---- measure_2site
    for dirn in "vh":
        for a, b in pairs[:1] if ctx.tier == "quick" else pairs:
            pm = rng.choice(("corner <=", "row <=", "<=", "<", "corner <", "=", "row <"))
            out = env.measure_2site(o[a], o[b], pairs=pm, dirn=dirn, opts_svd=dict(opts))
            check_2site_keys(ctx, B, "EnvCTM", out, pm, dirn, (0, Nx), (0, Ny))
            for (s0, s1), v in out.items():
                B.judge("measure_2site", [a, b], [tuple(s0), tuple(s1)], v, ":" + dirn)
    windows_2site(ctx, B, env, "EnvCTM", rng, pairs, opts, Nx, Ny, "vh")
    extras_2site(ctx, B, env, rng, pairs, opts, "vh")
    for dirn in "vh":
        pairs_list_2site(ctx, B, env, rng, pairs, opts, dirn, Nx, Ny)
    # ---- measure_nn for a sequence of bonds in reversed / shuffled order (mixed orientations), per-site operator dicts
    for a, b in pairs:
        order, how = bond_order(rng, [bd if rng.random() < 0.6 else bd[::-1] for bd in bonds])
        out = env.measure_nn({s: o[a] for s in shuffled(rng, B.sites)}, {s: o[b] for s in shuffled(rng, B.sites)}, bond=order)
        ctx.count("measure_nn_dict_order:" + how)
        for bd in order:
            B.judge("measure_nn", [a, b], bd, out[bd], ":bond-list:" + g.nn_bond_dirn(*bd))
    # probe (reported, not judged: the docstring names single tensors only): lists of operators per site
    a, b = pairs[0]
    try:
        if bonds:
            out = env.measure_nn([o[pairs[-1][0]], o[a]], [o[pairs[-1][1]], o[b]], bond=bonds[0])
            ctx.count("probe:EnvCTM.measure_nn_operator_lists:returned")
    except Exception as e:      # undocumented input form: whatever happens is only recorded
        ctx.count("probe:EnvCTM.measure_nn_operator_lists:" + type(e).__name__)
    # ---- n-site functions over all ordered pairs and random tuples
    has_2x2 = Nx >= 2 and Ny >= 2
    strip_reported = []

    def nsite(names, sites):
        ops = [o[n] for n in names]
        if rng.random() < 0.2:                   # operators given as {site: operator}
            ops = [{tuple(s): o[n]} for n, s in zip(names, sites)]
            ctx.count("container:nsite_operator_dicts")
        xs, ys = sorted(set(s[0] for s in sites)), sorted(set(s[1] for s in sites))
        # measure_2x2: documented to need the sites inside one 2x2 window
        if has_2x2:
            try:
                v = env.measure_2x2(*ops, sites=sites)
            except yastn.YastnError as e:
                if not (restricted(ctx, "EnvCTM", "measure_2x2", e, ["Sites do not form a 2x2 window"]) and
                        (xs[-1] - xs[0] > 1 or ys[-1] - ys[0] > 1)):
                    raise
            else:
                B.judge("measure_2x2", names, sites, v)
        # measure_line: a horizontal or vertical line
        try:
            v = env.measure_line(*ops, sites=sites)
        except yastn.YastnError as e:
            if not (restricted(ctx, "EnvCTM", "measure_line", e, ["Sites should form a horizontal or vertical line"]) and
                    len(xs) > 1 and len(ys) > 1):
                raise
        else:
            B.judge("measure_line", names, sites, v)
        if has_2x2:
            v = env.measure_nsite_exact(*ops, sites=sites)
            B.judge("measure_nsite_exact", names, sites, v)
        else:
            # single-row / single-column lattice: the "shift the window for a finite system" step of
            # measure_nsite_exact indexes row/column -1 (specific key; any other failure escapes as usual)
            try:
                v = env.measure_nsite_exact(*ops, sites=sites)
            except KeyError as e:
                if not strip_reported:
                    strip_reported.append(1)
                    ctx.violation("exception:KeyError:EnvCTM.measure_nsite_exact:single-row-or-column-lattice",
                                  f"measure_nsite_exact on the {Nx}x{Ny} lattice raised KeyError({e}) for sites {sites}",
                                  dict(B.desc, sites=[list(s) for s in sites], operators=list(names)))
                ctx.count("nsite_exact_strip_keyerror")
            else:
                B.judge("measure_nsite_exact", names, sites, v)
        got = env.measure_nsite(*ops, sites=sites)
        exp = B.dense(names, sites)
        lim = B.tol(names)
        if abs(complex(got) - exp) > lim:
            xr, yr = (xs[0], xs[-1] + 1), (ys[0], ys[-1] + 1)
            win = EnvWindow(env, xr, yr)
            dirn = "lr" if (xr[1] - xr[0]) >= (yr[1] - yr[0]) else "tb"
            got2 = _measure_nsite(win, *ops, sites=sites, dirn=dirn, opts_svd=dict(opts))
            ctx.count("nsite_default_truncation_suspected")
            if abs(complex(got2) - exp) <= lim:
                ctx.count("nsite_default_truncation_binding:EnvCTM")
                ctx.count("fn:EnvCTM.measure_nsite")
                return
            got = got2
        B.judge("measure_nsite", names, sites, got)

    run_nsite_tuples(ctx, B, rng, nsite, pairs)
    finish(ctx, B, ("ctm", how))


# ------------------------------------------------------------------------------------------------ battery: bp

def battery_bp(ctx, idx, rng, nprng, lattices):
    import yastn.tn.fpeps as fpeps
    F, g, psi, fr, x, desc = draw_state(ctx, rng, nprng, STRIPS)
    B = Battery(ctx, F, g, psi, fr, x, desc, "EnvBP")
    env = fpeps.EnvBP(psi, init="eye", which=rng.choice(BPKINDS))
    if not g.bonds():
        # 1x1 lattice: no messages to update.  PROBE (recorded): EnvBP.update_ takes max() of an empty list of differences
        try:
            env.iterate_(max_sweeps=1)
            ctx.count("probe:EnvBP.iterate_on_1x1:returned")
        except Exception as e:
            ctx.count("probe:EnvBP.iterate_on_1x1:" + type(e).__name__)
        info = type("I", (), {"converged": True, "sweeps": 0})()
    else:
        info = env.iterate_(max_sweeps=4 * max(g.Nx, g.Ny) + 4, diff_tol=1e-13)
    if not info.converged:
        # on a tree the messages are exact after diameter-many sweeps; non-convergence is itself a finding
        ctx.violation("bp:not-converged-on-tree", f"EnvBP.iterate_ did not converge on the loop-free lattice {desc['lattice']}: {info}", desc)
        return
    ctx.count("bp_converged")
    o = F.cat
    for nm in F.even:
        out = env.measure_1site(o[nm])
        for s in B.sites:
            B.judge("measure_1site", [nm], [s], out[s] if isinstance(out, dict) else out)
    s = rng.choice(B.sites)
    B.judge("measure_1site", ["I"], [s], env.measure_1site(o["I"], site=s), ":site")
    bonds = [tuple(map(tuple, b)) for b in g.bonds()]
    for a, b in B.op_pairs(rng, 2, 1):
        out = env.measure_nn(o[a], o[b])
        for bd in bonds:
            B.judge("measure_nn", [a, b], bd, out[bd], ":" + g.nn_bond_dirn(*bd))
            rb = bd[::-1]
            B.judge("measure_nn", [a, b], rb, env.measure_nn(o[a], o[b], bond=rb), ":" + g.nn_bond_dirn(*rb))
    extras_1site(ctx, B, env, rng)
    sample_check(ctx, B, env, rng, bp=True)
    a, b = B.op_pairs(rng, 1, 0)[0]
    out = env.measure_nn({s: o[a] for s in shuffled(rng, B.sites)}, {s: o[b] for s in shuffled(rng, B.sites)})   # dict (site -> operator)
    for bd in bonds:
        B.judge("measure_nn", [a, b], bd, out[bd], ":site-dict:" + g.nn_bond_dirn(*bd))
    finish(ctx, B, ("bp", env.which, info.sweeps))


# ------------------------------------------------------------------------------------------------ battery: ntu

def reduced_pair(psi, s0, s1, dirn):
    """the QR reduction truncate_ performs before asking the environment for the metric."""
    if dirn == "lr":
        Q0, _ = psi[s0].qr(axes=((0, 1, 2, 4), 3), sQ=-1, Qaxis=3)
        Q1, _ = psi[s1].qr(axes=((0, 2, 3, 4), 1), sQ=1, Qaxis=1, Raxis=-1)
    else:
        Q0, _ = psi[s0].qr(axes=((0, 1, 3, 4), 2), sQ=1, Qaxis=2)
        Q1, _ = psi[s1].qr(axes=((1, 2, 3, 4), 0), sQ=-1, Qaxis=0, Raxis=-1)
    return Q0, Q1


def judge_metric(ctx, gm, which, where, desc, envname="EnvNTU"):
    """Hermitian and positive semi-definite up to round-off."""
    l0, l1 = gm.get_legs()
    if gm.ndim != 2 or l0 != l1.conj():
        ctx.violation(f"metric-legs:{envname}", f"bond metric {which} at {where}: legs are not (L, L*)", desc)
        return False
    M = np.asarray(gm.to_numpy())
    nrm = float(np.linalg.norm(M))
    ctx.count("metrics_checked")
    ctx.count("metric:" + which)
    if not np.isfinite(nrm):
        ctx.violation(f"metric-degenerate:{envname}:{which}", f"bond metric {which} at {where} has norm {nrm}", desc)
        return False
    if nrm == 0:
        # NN+, NN++, NNN++ replace border tensors by SVD-1 hairs (cut_into_hairs, D_total=1), each living in ONE charge
        # sector; on sparse symmetric states the product of such hairs can vanish identically.  A zero matrix is Hermitian
        # and PSD, so this is counted, not judged.  The exactly contracted clusters can only vanish if the state does.
        if which in SVD1_CLUSTERS:
            ctx.count("metric_identically_zero")
            ctx.count("metric_identically_zero:" + which)
            return True
        ctx.violation(f"metric-degenerate:{envname}:{which}", f"exactly contracted bond metric {which} at {where} is identically zero", desc)
        return False
    ah = float(np.linalg.norm(M - M.conj().T)) / (2 * nrm)
    ew = np.linalg.eigvalsh((M + M.conj().T) / 2)
    neg = max(0.0, -float(ew.min())) / nrm
    ok = True
    if not ctx.margin("metric:antihermitian", ah, HERM_TOL):
        ctx.violation(f"metric:not-hermitian:{envname}:{which}", f"bond metric {which} at {where}: ||g-g^H||/(2||g||) = {ah:.3e}", dict(desc, where=where))
        ok = False
    if which in SVD1_CLUSTERS and neg > PSD_TOL and float(ew.max()) <= PSD_TOL * nrm:
        # -g is positive semi-definite: an overall sign flip of the metric.  Seen when an SVD-1 hair (cut_into_hairs) lives in a
        # fermionically odd charge sector and comes out negative definite.  One specific key for this mechanism.
        ctx.count("metric_sign_flipped")
        ctx.violation("metric:negative-semidefinite:EnvNTU:svd1-hairs", f"bond metric {which} at {where} is NEGATIVE semi-definite "
                      f"(eigenvalues/||g|| in [{float(ew.min()) / nrm:.3f}, {float(ew.max()) / nrm:.3e}])", dict(desc, where=where, which=which))
        return False
    if not ctx.margin("metric:negative-eigenvalue", neg, PSD_TOL):
        ctx.violation(f"metric:not-psd:{envname}:{which}", f"bond metric {which} at {where}: lambda_min/||g|| = {-neg:.3e}", dict(desc, where=where))
        ok = False
    if M.shape[0] >= 2:
        ctx.count("metrics_dim>=2")
    return ok


def battery_ntu(ctx, idx, rng, nprng, lattices):
    import yastn.tn.fpeps as fpeps
    lat = [d for d in lattices if min(d) >= 2] + [(1, 3), (3, 1)]
    F, g, psi, fr, x, desc = draw_state(ctx, rng, nprng, lat)
    env = fpeps.EnvNTU(psi, which="NN")
    big = False
    for bond in g.bonds():
        s0, s1 = tuple(bond[0]), tuple(bond[1])
        dirn = g.nn_bond_dirn(s0, s1)
        Q0, Q1 = reduced_pair(psi, s0, s1, dirn)
        raw = rng.random() < 0.35
        for which in CLUSTERS:
            env.which = which
            gm = env.bond_metric(Q0, Q1, s0, s1, dirn).g
            judge_metric(ctx, gm, which, [list(s0), list(s1), "qr"], desc)
            big = big or gm.get_shape(axes=0) >= 2
            if raw:
                gm = env.bond_metric(psi[s0], psi[s1], s0, s1, dirn if rng.random() < 0.5 else dirn[0].replace("l", "h").replace("t", "v")).g
                judge_metric(ctx, gm, which, [list(s0), list(s1), "raw"], desc)
    ctx.count("states:ntu")
    ctx.case(("ntu", F.cls, F.sym, tuple(desc["lattice"]), desc["state"], tuple(desc["bond_dims"])), big, dict(desc, battery="ntu"))


# ------------------------------------------------------------------------------------------------ battery: evol

def overlap_error(ref, y):
    a, b = np.asarray(ref).ravel(), np.asarray(y).ravel()
    nb = float(np.linalg.norm(b))
    na = float(np.linalg.norm(a))
    if na == 0 or nb == 0:
        return float("inf")
    c = np.vdot(a, b) / np.vdot(a, a)
    return float(np.linalg.norm(b - c * a)) / nb


def zero_metric_bond(env, psi, gates, g):
    """first nearest-neighbour bond touched by the gates whose NTU metric is identically zero (None if there is none)."""
    for gate in gates:
        for s0, s1 in zip(gate.sites[:-1], gate.sites[1:]):
            dirn = g.nn_bond_dirn(s0, s1)
            if dirn in ("rl", "bt"):
                s0, s1, dirn = s1, s0, dirn[::-1]
            Q0, Q1 = reduced_pair(psi, s0, s1, dirn)
            nrm = float(env.bond_metric(Q0, Q1, s0, s1, dirn).g.norm())
            if nrm == 0.0 or not np.isfinite(nrm):
                return tuple(s0), tuple(s1)
    return None


def battery_evol(ctx, idx, rng, nprng, lattices):
    import yastn
    import yastn.tn.fpeps as fpeps
    envs = [("NTU", c) for c in CLUSTERS] + [("BP", b) for b in BPKINDS] + [("CTM", None), ("CTM", None)]
    envkind, which = envs[idx % len(envs)]
    lat = [d for d in lattices if 2 <= d[0] * d[1] <= 6]
    F, g, psi, fr, x, desc = draw_state(ctx, rng, nprng, lat, kinds=("rand", "circuit", "purif", "purif"))
    method = rng.choice(("mpo", "NN"))
    dmax = 4 if envkind != "CTM" else 1
    gates, labels, ref = [], [], x
    for _ in range(rng.randint(1, 3)):
        if rng.random() < 0.75:
            b = tuple(map(tuple, rng.choice(g.bonds())))
            if rng.random() < 0.5:
                b = b[::-1]
            gate, M, lab = invertible_nn_gate(F, rng, nprng, b, max_rank=dmax)
            pos = [fr.position(b[0]), fr.position(b[1])]
        else:
            s = tuple(rng.choice(g.sites()))
            gate, M, lab = invertible_local_gate(F, rng, nprng, s)
            pos = [fr.position(s)]
        r = rng.random()
        if r < 0.15:                             # the same gate at an extreme scale (the state is compared up to normalisation)
            cs = big_scalar(rng)
            gate, M, lab = gate._replace(G=type(gate.G)([cs * gate.G[0]] + list(gate.G[1:]))), cs * np.asarray(M), lab + "*big"
            ctx.count("evolution_scaled_gates")
        gates.append(gate)
        labels.append(lab)
        ref = R.apply_chain(F.loc, ref, M, pos, fr.sys_axes)
    if rng.random() < 0.2:
        # gates.distribute with its defaults (symmetrize=True): one nn and one local gate spread over the lattice; the
        # circuit is whatever list comes back, read gate by gate
        proto_nn, _, lab_nn = invertible_nn_gate(F, rng, nprng, None, max_rank=min(dmax, 2))
        proto_loc, _, _ = invertible_local_gate(F, rng, nprng, None)
        gates = fpeps.gates.distribute(g, gates_nn=proto_nn, gates_local=proto_loc)
        labels, ref = ["distribute(" + lab_nn + ",local_exp)"], x
        for gt in gates:
            ref = R.apply_chain(F.loc, ref, R.gate_chain_dense(F.loc, gt.G), [fr.position(s) for s in gt.sites], fr.sys_axes)
        ctx.count("evolution_distribute_defaults")
    elif envkind != "CTM" and fr.N >= 3 and F.d == 2 and rng.random() < 0.4:
        # three-site MPO gate: identity + small perturbation (invertible), tensors from successive SVD
        path = PG.rand_path(rng, g, 3)
        if path is not None:
            path = [tuple(s) for s in path]
            M = R.matrix_chain(np.eye(F.d ** 3), F.d, 3) + 0.3 * PG.rand_chain_operator(F, rng, nprng, 3, rank=2)
            Gs = PG.split_chain(F, M, tol=1e-12)
            M = R.gate_chain_dense(F.loc, Gs)
            gates.append(fpeps.Gate(G=PG.chain_to_mpo(F, Gs) if rng.random() < 0.5 else tuple(Gs), sites=tuple(path)))
            labels.append("mpo3")
            ref = R.apply_chain(F.loc, ref, M, [fr.position(s) for s in path], fr.sys_axes)
    kw = {}
    if envkind == "NTU":
        env = fpeps.EnvNTU(psi, which=which)
    elif envkind == "BP":
        env = fpeps.EnvBP(psi, which=which)
        env.iterate_(max_sweeps=8, diff_tol=1e-10)
    else:
        env = fpeps.EnvCTM(psi, init="eye")
        env.iterate_(opts_svd={"D_total": 64}, max_sweeps=3)
        kw["opts_post_truncation"] = {"opts_svd": {"D_total": 64}}
    init = rng.choice(("EAT_SVD", "EAT_SVD", "SVD", "EAT", None))
    if init is None:                             # every optional argument of evolution_step_ left at its default
        init, method, ekw = "default", "mpo", {}
        ctx.count("defaults:evolution_step_")
    else:
        ekw = {"method": method, "initialization": init}
    d = dict(desc, env=envkind, which=which, method=method, gates=labels, initialization=init)
    tag = envkind + (":" + which if which else "")
    legs0 = {tuple(s): psi[s].get_legs() for s in g.sites()}
    twin = None
    if envkind == "BP":
        # reads must be transparent: the same history without the reads (twin state and environment) has to give the same
        # values afterwards (seeded C12_A3: measure_nn memoised the bond norm, update_bond_ did not drop it)
        psi2 = psi.copy()
        env2 = fpeps.EnvBP(psi2, which=which)
        env2.iterate_(max_sweeps=8, diff_tol=1e-10)
        ra, rb = rng.choice(F.even), rng.choice(F.even)
        before = env.measure_nn(F.cat[ra], F.cat[rb])
        env.measure_nn(F.cat["I"], F.cat["I"])
        env.measure_1site(F.cat[ra])
        twin = (psi2, env2, ra, rb, len(before))
    try:
        infos = fpeps.evolution_step_(env, gates, opts_svd={"D_total": BIG}, **ekw, **kw)
    except yastn.YastnError as e:
        # EnvCTM.update_bond_ is documented to assume fixed *sectorial* bond dimensions; a lossless truncation may still
        # shrink a bond or redistribute its sectors, after which the stored environment no longer fits.
        if envkind == "CTM" and "do not match" in str(e) and any(psi[s].get_legs() != legs0[tuple(s)] for s in g.sites()):
            ctx.count("restriction_raises_counted")
            ctx.count("raises:EnvCTM.evolution:bond-dimension-changed")
            raise CaseSkip
        raise
    except (ValueError, ZeroDivisionError, FloatingPointError):
        # premise of the evolution clause: a usable metric.  The SVD-1 clusters can return an identically zero metric
        # (see judge_metric) and truncate_ then divides by its norm; such steps are counted, not judged.
        # (the CTM environment used here -- 'eye' + 3 sweeps -- is approximate and can degenerate in the same way)
        zb = zero_metric_bond(env, psi, gates, g) if (envkind == "NTU" and which in SVD1_CLUSTERS) else None
        if zb is None and envkind != "CTM":
            raise
        # CTM: the stored environment is approximate and goes stale while many gates are applied; truncate_optimize_ then zeroes
        # all eigenvalues below its error estimate and divides by <RR|g|RR> = 0.  Counted as a broken premise, not judged.
        ctx.count("evolution_zero_metric_not_judged" if zb is not None else "evolution_degenerate_ctm_metric_not_judged")
        raise CaseSkip
    y = fr.dense(psi)
    err = overlap_error(ref, y)
    if not (err <= STATE_TOL) and envkind == "NTU" and which in SVD1_CLUSTERS and zero_metric_bond(env, psi, gates, g) is not None:
        ctx.count("evolution_zero_metric_not_judged")
        raise CaseSkip
    if not ctx.margin("evolution:state", err, STATE_TOL):
        ctx.violation(f"evolution:state-changed:{tag}:{method}", f"evolution_step_ ({tag}, method={method}, init={init}) with non-binding D_total: "
                      f"state differs from the exactly evolved one by {err:.3e} (relative, up to normalisation)", d)
    te = max([float(i.truncation_error) for i in infos] + [0.0])
    if not ctx.margin("evolution:truncation_error", te, TRUNC_TOL):
        ctx.violation(f"evolution:truncation-error-reported:{tag}", f"evolution_step_ ({tag}) reported truncation_error {te:.3e} although nothing was truncated", d)
    if twin is not None:
        psi2, env2, ra, rb, nb = twin
        fpeps.evolution_step_(env2, gates, opts_svd={"D_total": BIG}, **ekw, **kw)
        for names in ((ra, rb), ("I", "I")):
            v1 = env.measure_nn(F.cat[names[0]], F.cat[names[1]])
            v2 = env2.measure_nn(F.cat[names[0]], F.cat[names[1]])
            for bd in v2:
                ctx.count("bp_read_transparency_compared")
                dev = abs(complex(v1[bd]) - complex(v2[bd])) / max(1.0, abs(complex(v2[bd])))
                if not ctx.margin("bp:read-transparency", dev, 1e-9):
                    ctx.violation("bp:measure_nn-depends-on-earlier-reads", f"EnvBP ({which}): <{names[0]} {names[1]}> on bond {bd} after an "
                                  f"evolution step is {v1[bd]!r} on the environment that was measured before the step and {v2[bd]!r} "
                                  f"on a twin with the same history but no earlier reads", dict(d, bond=str(bd), ops=list(names)))
        m1, m2 = env.measure_1site(F.cat[ra]), env2.measure_1site(F.cat[ra])
        for st in m2:
            ctx.count("bp_read_transparency_compared")
            dev = abs(complex(m1[st]) - complex(m2[st])) / max(1.0, abs(complex(m2[st])))
            if not ctx.margin("bp:read-transparency", dev, 1e-9):
                ctx.violation("bp:measure_1site-depends-on-earlier-reads", f"EnvBP ({which}): <{ra}> at {st} after an evolution step is "
                              f"{m1[st]!r} on the measured environment and {m2[st]!r} on the unmeasured twin", dict(d, site=str(st)))
    ctx.count("evolution_steps")
    ctx.count("evolution_truncations", len(infos))
    ctx.count("evol:" + tag)
    ctx.count("evol_method:" + method)
    changed = overlap_error(x, ref) > 1e-6
    ctx.case(("evol", tag, method, init, F.cls, F.sym, tuple(desc["lattice"]), desc["state"], tuple(labels)), changed and len(infos) > 0, d)


# ------------------------------------------------------------------------------------------------ driver

def run_case(ctx, idx):
    rng, nprng = ctx.rng(idx), ctx.nprng(idx)
    lattices = THOROUGH_LAT if ctx.tier == "thorough" else QUICK_LAT
    k = (idx + idx // 16) % 13
    if k in (0, 1):
        battery_bmps(ctx, idx, rng, nprng, lattices)
    elif k in (2, 3):
        battery_ctm(ctx, idx, rng, nprng, lattices)
    elif k == 4:
        battery_bp(ctx, idx, rng, nprng, lattices)
    elif k in (5, 6, 7):
        battery_ntu(ctx, idx, rng, nprng, lattices)
    else:
        battery_evol(ctx, idx, rng, nprng, lattices)


def canaries(ctx):
    import random
    import yastn.tn.fpeps as fpeps
    rng, nprng = random.Random(12), np.random.default_rng(12)
    sub = type(ctx)(ctx.prop, ctx.tier, ctx.seed)
    F = PG.fam("SpinlessFermions", "U1")
    g = PG.lattice((2, 2), "obc")
    mc, mcp = F.mat["c"], F.mat["cp"]
    for _ in range(200):
        psi = PG.random_peps(F, rng, g, anc="charged", nsec=3, dmax=1)
        fr = R.PepsFrame(F.loc, psi)
        x = fr.dense(psi)
        if not np.any(x):
            continue
        B = Battery(sub, F, g, psi, fr, x, {"family": [F.cls, F.sym], "lattice": [2, 2], "state": "rand", "bond_dims": []}, "EnvCTM")
        e = B.dense(["cp", "c"], [(0, 0), (1, 1)])
        # 1. the string of the intermediate sites forgotten: <c+_(0,0) c_(1,1)> without P on (1,0),(0,1)
        nostring = np.vdot(x, np.tensordot(mcp, np.moveaxis(np.tensordot(mc, x, axes=(1, 6)), 0, 6), axes=(1, 0))) / np.vdot(x, x)
        if abs(nostring - e) > 1e-3:
            break
    B.judge("measure_nsite", ["cp", "c"], [(0, 0), (1, 1)], nostring)
    ctx.canary("missing-string-value", len(sub.violations) == 1 and abs(nostring - e) > 1e-6)
    env, _ = exact_ctm(psi, rng, g)
    ok = B.judge("measure_nsite_exact", ["cp", "c"], [(0, 0), (1, 1)], env.measure_nsite_exact(F.cat["cp"], F.cat["c"], sites=[(0, 0), (1, 1)]))
    ctx.canary("clean-value-passes", ok and len(sub.violations) == 1)
    B.judge("measure_1site", ["I"], [(0, 0)], 1.0 + 1e-8)
    ctx.canary("identity-not-one", len(sub.violations) == 2)
    # 2. metrics: a non-Hermitian and an indefinite matrix must be flagged
    import yastn
    leg = yastn.Leg(F.cfg, s=1, t=((0,), (1,)), D=(2, 1))
    A = nprng.standard_normal((3, 3))
    P = A @ A.T
    P[0, 2] = P[2, 0] = 0
    P[1, 2] = P[2, 1] = 0
    good = R.from_dense(F.cfg, P, [leg, leg.conj()])
    n0 = len(sub.violations)
    judge_metric(sub, good, "NN", "canary", {})
    ctx.canary("metric-clean-passes", len(sub.violations) == n0)
    Q = P.copy()
    Q[0, 1] += 1e-6
    judge_metric(sub, R.from_dense(F.cfg, Q, [leg, leg.conj()]), "NN", "canary", {})
    ctx.canary("metric-nonhermitian", any(v["key"].startswith("metric:not-hermitian") for v in sub.violations))
    Q = P.copy()
    Q[2, 2] = -1e-6 * np.linalg.norm(P)
    judge_metric(sub, R.from_dense(F.cfg, Q, [leg, leg.conj()]), "NN", "canary", {})
    ctx.canary("metric-negative", any(v["key"].startswith("metric:not-psd") for v in sub.violations))
    # 3. evolution: a state with one flipped sign is not the evolved state
    y = x.copy()
    y[tuple(np.argwhere(np.abs(y) > 1e-3)[0])] *= -1
    ctx.canary("evolution-sign-flip", overlap_error(x, y) > STATE_TOL and overlap_error(x, 3.7j * x) < STATE_TOL)


def finalize(cov, merged):
    c = merged["counters"]
    cov["functions_compared"] = {k[3:]: int(v) for k, v in sorted(c.items()) if k.startswith("fn:")}
    cov["documented_restrictions_counted"] = {k[7:]: int(v) for k, v in sorted(c.items()) if k.startswith("raises:")}
    cov["metrics_by_cluster"] = {k[7:]: int(v) for k, v in sorted(c.items()) if k.startswith("metric:")}
    cov["evolution_by_environment"] = {k[5:]: int(v) for k, v in sorted(c.items()) if k.startswith("evol:")}
    cov["not_judged"] = {k: int(v) for k, v in sorted(c.items()) if k.startswith("nsite_default_truncation") or
                         k.startswith("metric_identically_zero") or k.startswith("evolution_zero_metric") or k.startswith("evolution_degenerate") or
                         k.startswith("probe:") or k.startswith("default_truncation_binding")}
