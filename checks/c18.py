"""C18  Krylov solvers agree with dense matrix functions.

Reference-model monitor.  A case draws a symmetric linear map f on block-sparse vectors (operator(s) with
a harness-side dense image, so the matrix of f on the start vector's charge sector is known without
to_numpy), a start vector (random / partially stored / eigenvector / near-invariant / few-eigenvector
combination / zero) and solver parameters, runs the real yastn.expmv / yastn.eigs / yastn.lin_solver and
decides the observation against scipy.linalg.expm / numpy eigh, eig, solve on the dense sector matrix.

The Krylov basis that eigs / lin_solver build is additionally observed by calling
Tensor.expand_krylov_space with exactly the arguments the solver uses (anchor yastn/tensor/_krylov.py), so
that "the Krylov space is complete" is an *observed* premise (numerical breakdown seen), never an assumption.
Branch reach (expmv rejection / happy breakdown / ncv_max branch, breakdown in expand_krylov_space) is
recorded with sys.monitoring LINE events restricted to the two _krylov.py files.
"""
from __future__ import annotations

import inspect
import math
import sys

import numpy as np
import scipy.linalg as sla

from vmon import dense as D
from vmon import groups as G
from vmon.harness import CaseSkip

PROP = "C18"
GROWTH_KNOWN_MAX_RATIO = 1e3
RULE = ("case = (symmetry [all 7], vector rank 1-3, map kind full/spectator/sum-of-local/shifted, Hermitian or not, dtype, "
        "block density, sector dimension 2-300 (mostly >= 10), operator norm 0.1-30, start vector kind random/partial/"
        "eigvec/near-invariant/3-eigvec combination/zero, solver expmv|eigs|lin_solver and its parameters: t real/"
        "imaginary/complex with |t| 1e-4..1e2 and 0, tol 1e-6/1e-10/1e-12, ncv 1-30 and r, r+1, r+3 around the reachable "
        "dimension r, normalize, hermitian flag, which, k, norm scale of the start vector / right-hand side 1e-30..1e30); "
        "distinct = hash of the structural part (no values); "
        "non-trivial = sector dimension >= 2 and the solver result was compared with the dense oracle")
ASSUMPTIONS = ["scipy.linalg.expm / numpy.linalg eigh, eig, solve, svd on matrices of dimension <= 300 are the truth "
               "(expm cross-checked against the spectral formula; disagreeing cases are not judged)",
               "the dense matrix of the map is built by the harness from the same blocks passed to set_block (kron for "
               "spectator / sum kinds); to_numpy(legs=universe) is used only to observe results",
               "expmv error is judged relative to the exact result and scaled by the problem's condition number "
               "kappa = ||exp(tA)|| ||v|| / ||exp(tA) v|| (=1 for unitary evolution): allowed = max(1,kappa) * "
               "(10 tol + 1e-13 + 100 eps |t| ||A||)",
               "eigs: k <= dimension of the reachable Krylov space (the docstring only demands k < ncv); "
               "lin_solver: v0 is not already the exact solution (the solver rejects that with YastnError)",
               "hermitian=True is passed only for maps whose dense matrix is exactly Hermitian",
               "norm scales: start vectors / right-hand sides are multiplied by c in {1e-30,1e-12,1e-6,1e6,1e9,1e13,1e16,1e30} (40 % of eigs "
               "and lin_solver cases, 60 % of near-invariant eigs starts, 30 % of expmv cases with growth*c inside the overflow-free range); "
               "the dense oracle is scale free, and in addition eigs(f, c v0) is compared with eigs(f, v0) (values; residuals) and "
               "lin_solver(f, c b, c v0) with c lin_solver(f, b, v0).  Two runs differ by the rounding of c v0: an incomplete Krylov space "
               "that passed a small sub-diagonal h may differ by 100 eps ||A||^2/h, non-normal eigenvalues are compared to 1e-5 only "
               "(conjugate pairs of real maps tie); a complete space must agree to 1e-10",
               "edge families (2 of 12 case slots, 14 scenarios in rotation): a call with an optional argument omitted must be bitwise "
               "equal to the same call with the documented signature default spelled out (expmv t=1., tol=1e-12, ncv=10, hermitian=False, "
               "normalize=False, return_info=False; eigs k=1, which='SR', ncv=10, hermitian=False; lin_solver ncv=10, tol=1e-13, "
               "pinv_tol=1e-13, hermitian=False; the API has no sigma / preconditioner arguments); eigs tol / maxiter are documented as not "
               "implemented and must not matter; expmv(tol=0) has no documented meaning and is not called; lin_solver(tol=0) is called only "
               "when the Krylov space is not exhausted within ncv; start vectors given lazily transposed, hard/meta fused (with the map "
               "wrapped accordingly), with explicitly stored zero blocks, or real for a complex map are decided by the same dense oracle; "
               "7 % of all cases live in a one-dimensional sector",
               "the default of `which` is part of the documented signature (autofunction yastn.eigs: which='SR'; dmrg_ relies on it): eigs "
               "called without `which` must return what which='SR' returns, checked on positive-dominant spectra (map shifted by 1.5||A||)",
               "'exact result representable' is read as: spectral growth of exp(tA) and the numerical abscissa of tA (bound for every "
               "Krylov projection) below exp(300); beyond ~1e154 plain 2-norms overflow.  Such cases are counted (expmv_excluded_overflow), "
               "not judged",
               "start vectors that store fewer than min(30, sector dimension) elements are propagated only over |t| ||A|| <= 0.02*size with "
               "tol=1e-6: expmv caps its Krylov dimension at the number of stored elements, the low-order regime is legitimately slow",
               "a non-terminating expmv call is detected deterministically (identical controller state 25 times in a row, sampled by the "
               "LINE monitor) and reported as a violation; 20000 loop iterations without repetition are counted, not judged"]
EPS = 2.3e-16
# exp(300) ~ 2e130: beyond ~1e154 a plain 2-norm (numpy, Tensor.norm) overflows when squaring, so 'the exact result is
# representable' is read as: growth of the exact result and of any Krylov projection (numerical abscissa) below exp(300)
GROWTH_MAX = 300.0


def plan(tier):
    if tier == "thorough":
        return {"cases": 24000, "shards": 16, "budget_s": 700}
    return {"cases": 2000, "shards": 8, "budget_s": 50}


def edge_floors(k):
    f = {"edge:" + sc: 2 * k for sc in EDGE_SCENARIOS}
    f["edge:zero-filled-blocks"] = 1 * k
    for solver, dfl in (("expmv", EXPMV_DEFAULTS), ("eigs", EIGS_DEFAULTS), ("lin_solver", LIN_DEFAULTS)):
        for a in dfl:
            f[f"edge_omitted_argument_compared:{solver}:{a}"] = 2 * k
    f.update({"edge_defaults_compared": 6 * k, "edge_return_info_compared": 2 * k, "edge_unused_argument_compared": 8 * k,
              "edge_falsy_t_checked": 20 * k, "edge_small_ncv_judged": 10 * k, "edge_tol_zero_checked": 4 * k,
              "edge_zero_operator_checked": 18 * k, "edge_identity_checked": 24 * k, "edge_f_forms_compared": 12 * k,
              "edge_vector_forms": 8 * k, "edge_expmv_judged": 8 * k, "edge_eigs_judged": 8 * k, "edge_lin_solver_judged": 8 * k,
              "sector_dim_1:expmv": 3 * k, "sector_dim_1:eigs": 3 * k, "sector_dim_1:lin": 3 * k, "sector_dim_1:edge": 1 * k,
              "eigs_degenerate_extremal": 8 * k, "edge_lin_solver_nearly_singular": 1 * k,
              "start_vector_poorer_fusion_history": 3 * k, "start_vector_richer_fusion_history": 2 * k})
    for w in ("SR", "LR", "LM", "SM"):
        for h in ("hermitian-map", "non-hermitian-map"):
            f[f"eigs:which:{w}:{h}"] = 4 * k
    return f


def floors(tier):
    k = 12 if tier == "thorough" else 1
    return {"expmv_calls": 150 * k, "eigs_calls": 80 * k, "lin_solver_calls": 50 * k,
            "expmv_judged": 120 * k, "eigs_pairs_judged": 80 * k, "lin_solver_res_judged": 50 * k,
            "eigs_complete_judged": 10 * k, "lin_solver_complete_judged": 10 * k,
            "happy_breakdowns": 5 * k, "sector_checks": 250 * k,
            "reach:expmv_reject": 1 * k, "reach:expmv_happy": 1 * k, "reach:expmv_ncv_max_branch": 1 * k,
            "reach:krylov_happy": 5 * k, "reach:lanczos": 20 * k, "reach:arnoldi": 20 * k,
            "expmv_substepped": 20 * k, "expmv_zero_vector_rejected": 2 * k, "expmv_t0": 3 * k,
            "eigs_zero_vector_rejected": 1 * k, "eigs_ritz_reference_compared": 20 * k,
            "eigs_variational_vs_start_checked": 20 * k, "expmv_normalized_judged": 50 * k,
            "eigs_scale_invariance_checked": 30 * k, "eigs_scale_invariance_checked:complete": 20 * k,
            "eigs_scale_invariance_checked:near-invariant:complete": 3 * k, "eigs_default_which_discriminating": 10 * k,
            "lin_solver_linearity_checked": 20 * k, **edge_floors(k)}


# ------------------------------------------------------------------ line reach (sys.monitoring)

class ExpmvStuck(Exception):
    """Raised from the LINE monitor when expmv's controller repeats the same state (provably no progress)."""


class ExpmvBudget(Exception):
    """Raised from the LINE monitor when expmv exceeds the (deterministic) iteration budget of the harness."""


class Reach:
    """LINE events on the four Krylov functions; every line fires once per case (DISABLE, then restart_events).
    The first line of expmv's while-body is never disabled: there the controller state is sampled; the same
    state (t_now, tau, ncv, len(V), reject) 25 times in a row is a fixed point of a deterministic loop."""
    LOOP_TEXT = "F = backend.expm((sgn * tau) * T)"
    ANCHORS = {  # name -> (function, stripped source text that identifies the line)
        "expmv_reject": ("expmv", "reject = True"),
        "expmv_happy": ("expmv", "tau = t_out - t_now"),
        "expmv_ncv_max_branch": ("expmv", "tau_new, ncv_new = tau * (omega / gamma) ** (-1. / order), ncv_max"),
        "expmv_accept": ("expmv", "info['steps'] += 1"),
        "expmv_order_estimate": ("expmv", "order = max([1., np.log(omega / omega_old) / np.log(tau / tau_old)])"),
        "expmv_ncv_estimate": ("expmv", "ncv_computed = True"),
        "krylov_happy": ("expand_krylov_space", "happy = True"),
        "lanczos": ("expand_krylov_space", "H[(j, j)] = V[j].vdot(w)"),
        "arnoldi": ("expand_krylov_space", "amplitudes = [1]"),
        "lin_solver_happy_row": ("lin_solver", "H[(m,m-1)] = H[(0,0)] * 0 + tol if happy else H[(m,m-1)]"),
    }

    def __init__(self):
        self.ok = False
        self.case_hits = set()
        self.all_hits = {}
        self.exec_lines = {}
        self.anchor_line = {}
        self.tool = None
        self.loop_key = None
        self.loop_state, self.loop_repeat, self.loop_iters, self.stuck = None, 0, 0, None
        try:
            import yastn.krylov._krylov as K1
            import yastn.tensor._krylov as K2
            mon = sys.monitoring
            funcs = {"expmv": K1.expmv, "eigs": K1.eigs, "lin_solver": K1.lin_solver,
                     "expand_krylov_space": K2.expand_krylov_space}
            for tid in (3, 4, 5, 2):
                if mon.get_tool(tid) is None:
                    mon.use_tool_id(tid, "vmon-c18-reach")
                    self.tool = tid
                    break
            if self.tool is None:
                return
            self.codes = {}
            for name, fn in funcs.items():
                code = fn.__code__
                self.codes[code] = name
                self.exec_lines[name] = sorted({ln for _, _, ln in code.co_lines() if ln is not None and ln > code.co_firstlineno})
                self.all_hits[name] = set()
                src, first = inspect.getsourcelines(fn)
                if name == "expmv":
                    for off, line in enumerate(src):
                        if line.strip() == self.LOOP_TEXT:
                            self.loop_key = (name, first + off)
                for an, (fname, text) in self.ANCHORS.items():
                    if fname != name:
                        continue
                    for off, line in enumerate(src):
                        if line.strip() == text:
                            self.anchor_line[an] = (name, first + off)
                            break
                mon.set_local_events(self.tool, code, mon.events.LINE)
            mon.register_callback(self.tool, mon.events.LINE, self._cb)
            self.ok = True
        except Exception:   # monitoring unavailable -> reach counters stay 0 -> floors -> inconclusive
            self.ok = False

    def _cb(self, code, line):
        name = self.codes.get(code)
        if name is not None:
            self.case_hits.add((name, line))
        if (name, line) == self.loop_key:
            L = sys._getframe(1).f_locals
            V = L.get("V")
            state = (L.get("t_now"), L.get("tau"), L.get("ncv"), len(V) if V else 0, L.get("reject"))
            self.loop_iters += 1
            if state == self.loop_state:
                self.loop_repeat += 1
                if self.loop_repeat >= 25:
                    self.stuck = {"t_now": state[0], "tau": state[1], "ncv": state[2], "len(V)": state[3], "reject": state[4],
                                  "m": L.get("m"), "ncv_max": L.get("ncv_max"), "omega": L.get("omega"), "t_out": L.get("t_out")}
                    raise ExpmvStuck()
            else:
                self.loop_state, self.loop_repeat = state, 0
            if self.loop_iters > 20000:
                raise ExpmvBudget()
            return None
        return sys.monitoring.DISABLE

    def start_call(self):
        self.loop_state, self.loop_repeat, self.loop_iters, self.stuck = None, 0, 0, None

    def start_case(self):
        self.case_hits = set()
        self.start_call()
        if self.ok:
            sys.monitoring.restart_events()

    def end_case(self, ctx):
        for name, line in self.case_hits:
            self.all_hits[name].add(line)
        for an, key in self.anchor_line.items():
            if key in self.case_hits:
                ctx.count("reach:" + an)
        for name in self.all_hits:
            ctx.note("lines_reached:" + name, sorted(self.all_hits[name]))
            ctx.note("lines_executable:" + name, self.exec_lines[name])
        ctx.note("anchor_lines", {an: f"{fn}:{ln}" for an, (fn, ln) in sorted(self.anchor_line.items())})


_REACH = None


def reach():
    global _REACH
    if _REACH is None:
        _REACH = Reach()
    return _REACH


# ------------------------------------------------------------------ harness-side linear algebra

def hermitise(ht, k):
    """(A + A^H)/2 on the block level for an operator with legs (L1..Lk, L1*..Lk*)."""
    perm = tuple(range(k, 2 * k)) + tuple(range(k))
    blocks = {}
    for key, blk in ht.blocks.items():
        kt = key[k:] + key[:k]
        other = ht.blocks.get(kt)
        bt = np.conj(np.transpose(other, perm)) if other is not None else np.zeros_like(blk)
        blocks[key] = (blk + bt) / 2
    for key, blk in ht.blocks.items():
        kt = key[k:] + key[:k]
        if kt not in blocks:
            blocks[kt] = np.conj(np.transpose(blk, perm)) / 2
    return ht._new(blocks=blocks)


def sector_index(sym, legs, n):
    shape = tuple(l.dim for l in legs)
    mask = np.zeros(shape, bool)
    offs = [l.offsets() for l in legs]
    for key in D.allowed_keys(sym, legs, n):
        mask[tuple(slice(*o[t]) for o, t in zip(offs, key))] = True
    return np.flatnonzero(mask.ravel())


def vector_from_dense(sym, legs, n, full, dtype, keep=None):
    """HTensor over ``legs`` with charge n holding the dense array ``full`` (all allowed blocks, or ``keep``)."""
    arr = np.asarray(full).reshape(tuple(l.dim for l in legs))
    offs = [l.offsets() for l in legs]
    blocks = {}
    for key in D.allowed_keys(sym, legs, n):
        if keep is not None and key not in keep:
            continue
        sl = tuple(slice(*o[t]) for o, t in zip(offs, key))
        blocks[key] = np.array(arr[sl], dtype=dtype)
    return D.HTensor(sym, legs, n, blocks, dtype)


def dense_krylov(M, v, nmax, nrm):
    """Arnoldi with double re-orthogonalisation on the dense sector matrix: (Q, subdiagonals h_1..)."""
    d = len(v)
    Q = [v / np.linalg.norm(v)]
    hs = []
    for j in range(min(nmax, d)):
        w = M @ Q[-1]
        for _ in range(2):
            for q in Q:
                w = w - q * np.vdot(q, w)
        h = float(np.linalg.norm(w))
        hs.append(h)
        if h <= 1e-10 * nrm or len(Q) == d:
            break
        Q.append(w / h)
    return np.array(Q).T, hs


def reachable_dim(M, v, nrm, nmax=34):
    """(r, status): r = dimension of the Krylov space of (M, v) if it is exhausted within nmax steps.
    status 'exhausted' (clear numerical breakdown at r), 'open' (no breakdown within nmax), 'ambiguous'."""
    Q, hs = dense_krylov(M, v, nmax, nrm)
    d = len(v)
    amb = any(1e-10 * nrm < h < 1e-5 * nrm for h in hs[:-1]) or (hs and 1e-10 * nrm < hs[-1] < 1e-5 * nrm)
    if amb:
        return Q.shape[1], "ambiguous", Q
    if hs and (hs[-1] <= 1e-10 * nrm or Q.shape[1] == d):
        return Q.shape[1], "exhausted", Q
    return Q.shape[1], "open", Q


def which_sort(vals, which):
    vals = np.asarray(vals)
    if which == "LM":
        key = -np.abs(vals)
    elif which == "SM":
        key = np.abs(vals)
    elif which == "LR":
        key = -vals.real
    else:
        key = vals.real
    order = np.argsort(key, kind="stable")
    return vals[order], key[order]


# ------------------------------------------------------------------ problem generator

class Problem:
    pass


def draw_legs(rng, sym, rank, dlo, dhi, nmax_full):
    for _ in range(40):
        if dhi == 1:
            dmax = 1                      # one-dimensional sector: every sector of every leg has dimension 1
        elif dhi <= 40:
            dmax = {1: max(2, dhi), 2: rng.choice((2, 3, 5)), 3: rng.choice((2, 3))}[rank]
        elif rank == 1:
            dmax = rng.choice((12, 40, 120, 300))
        elif rank == 2:
            dmax = rng.choice((3, 6, 10, 16))
        else:
            dmax = rng.choice((2, 3, 4, 6))
        legs = [D.gen_leg(rng, sym, nsec=(1, 3), dmax=dmax) for _ in range(rank)]
        N = int(np.prod([l.dim for l in legs]))
        if N > nmax_full:
            continue
        n = D.gen_n(rng, sym, legs, "fit")
        idx = sector_index(sym, legs, n)
        if dlo <= len(idx) <= dhi:
            return legs, n, idx
    raise CaseSkip


def gen_problem(rng, nprng, sym, tier, want_small=False, drange=None, dtype=None, rank=None, kind=None, herm=None):
    import yastn
    P = Problem()
    P.sym = sym
    P.rank = rank = rng.choice((1, 2, 2, 3)) if rank is None else rank
    P.kind = rng.choice(("full", "full", "full", "spectator", "sum")) if rank >= 2 else "full"
    if kind is not None:
        P.kind = kind
    P.herm = rng.random() < 0.55
    if herm is not None:
        P.herm = herm
    P.dtype = rng.choice(("float64", "complex128"))
    if dtype is not None:
        P.dtype = dtype
    P.density = rng.choice((1.0, 1.0, 1.0, 0.6))
    dhi = 300 if tier == "thorough" else 150
    dlo, dhi = (2, 9) if want_small else (10, dhi)
    if drange is not None:
        dlo, dhi = drange
    legs, n, idx = draw_legs(rng, sym, rank, dlo, dhi, 900)
    P.legs, P.n, P.idx = legs, n, idx
    dims = [l.dim for l in legs]
    N = int(np.prod(dims))
    P.N, P.d = N, len(idx)
    zero = G.zero(sym)

    def op_on(sub):
        k = len(sub)
        A = D.gen_tensor(rng, nprng, sym, legs=list(sub) + [l.conj() for l in sub], n=zero, dtype=P.dtype, density=P.density)
        return hermitise(A, k) if P.herm else A

    def mat(A, k):
        m = int(np.prod([l.dim for l in A.legs[:k]]))
        return A.dense().reshape(m, m)

    if P.kind == "full":
        ops = [(op_on(legs), tuple(range(rank)))]
        M = mat(ops[0][0], rank)
    elif P.kind == "spectator":
        A = op_on(legs[:-1])
        ops = [(A, tuple(range(rank - 1)))]
        M = np.kron(mat(A, rank - 1), np.eye(dims[-1]))
    else:
        ops, M = [], 0
        for i in range(rank):
            A = op_on([legs[i]])
            ops.append((A, (i,)))
            m = mat(A, 1)
            left, right = int(np.prod(dims[:i])), int(np.prod(dims[i + 1:]))
            M = M + np.kron(np.kron(np.eye(left), m), np.eye(right))
    M = np.asarray(M)
    comp = np.setdiff1d(np.arange(N), idx)
    if comp.size and np.any(M[np.ix_(comp, idx)]):
        raise RuntimeError("harness: dense image of the map leaves the charge sector")
    Ms = M[np.ix_(idx, idx)]
    nrm0 = float(np.linalg.norm(Ms, 2)) if Ms.size else 0.0
    if not nrm0 > 1e-12:
        raise CaseSkip
    target = 10 ** rng.uniform(-1, 1.5)
    sc = target / nrm0
    ops = [(A.map_values(lambda v: v * sc), ax) for A, ax in ops]
    Ms = Ms * sc
    P.shift = 0.0
    P.ops, P.M, P.nrm = ops, Ms, float(np.linalg.norm(Ms, 2))
    P.cfg = D.make_cfg(sym)
    P.yops = [(A.to_yastn(P.cfg), ax) for A, ax in ops]
    P.calls = 0

    def f(x):
        P.calls += 1
        out = None
        for ya, ax in P.yops:
            k = len(ax)
            y = yastn.tensordot(ya, x, axes=(tuple(range(k, 2 * k)), ax))
            if ax != tuple(range(k)):
                y = y.moveaxis(0, ax[0])
            out = y if out is None else out + y
        if P.shift:
            out = out + P.shift * x
        return out

    P.f = f
    return P


def add_shift(P, sigma):
    """f(x) -> f(x) + sigma x (still a symmetric linear map); dense image updated accordingly."""
    P.shift = sigma
    P.M = P.M + sigma * np.eye(P.d)
    P.nrm = float(np.linalg.norm(P.M, 2))


def gen_vector(P, rng, nprng, kind, force_real=False):
    """Start vector as HTensor + its dense sector image."""
    d, idx = P.d, P.idx
    cplx = "complex" in P.dtype and not force_real
    dt = P.dtype if not force_real else "float64"

    def rnd():
        x = nprng.standard_normal(d)
        return x + 1j * nprng.standard_normal(d) if cplx else x

    keep = None
    if kind == "random":
        vs = rnd()
    elif kind == "partial":
        keys = D.allowed_keys(P.sym, P.legs, P.n)
        keep = {k for k in keys if rng.random() < 0.5} or {keys[0]}
        vs = rnd()
    elif kind == "zero":
        vs = np.zeros(d, dtype=dt)
    else:
        if P.herm:
            lam, U = np.linalg.eigh(P.M)
        else:
            lam, U = np.linalg.eig(P.M)
            if np.iscomplexobj(U) and np.abs(U.imag).max() > 0:
                dt = "complex128"
        cols = rng.sample(range(d), min(d, 1 if kind in ("eigvec", "near") else 3))
        vs = sum((1 + rng.random()) * U[:, c] for c in cols)
        if kind == "near":
            P.near_eps = rng.choice((1e-6, 1e-6, 1e-8, 1e-9))
            vs = vs + P.near_eps * rnd() * np.linalg.norm(vs) / math.sqrt(d)
        if dt != "complex128":
            vs = np.real(vs)
    full = np.zeros(P.N, dtype="complex128" if (dt == "complex128" or np.iscomplexobj(vs)) else "float64")
    full[idx] = vs
    hv = vector_from_dense(P.sym, P.legs, P.n, full, dt if not np.iscomplexobj(full) or dt == "complex128" else "complex128", keep)
    vec = hv.dense().reshape(-1)[idx]
    return hv, vec


SCALES = (1e-30, 1e-12, 1e-6, 1e6, 1e9, 1e13, 1e16, 1e30)


def draw_scale(rng, p):
    """Norm scale of a start vector / right-hand side: 1 with probability 1-p, else one of SCALES."""
    return rng.choice(SCALES) if rng.random() < p else 1.0


def scaled(hv, vec, c):
    """(HTensor, dense sector image) multiplied by the real factor c."""
    if c == 1.0:
        return hv, vec
    return hv.map_values(lambda v: v * c, hv.dtype), vec * c


# ------------------------------------------------------------------ observation helpers

def observe_vector(ctx, what, y, P, witness=None):
    """Sector discipline: result is a Tensor over the start vector's legs with its charge. Returns dense sector image."""
    import yastn
    ctx.count("sector_checks")
    if not isinstance(y, yastn.Tensor):
        ctx.violation("result-type:" + what, f"{what}: returned {type(y).__name__}", witness)
        return None
    if y.ndim != len(P.legs):
        ctx.violation("sector:" + what, f"{what}: result rank {y.ndim}, start vector rank {len(P.legs)}", witness)
        return None
    if tuple(y.n) != tuple(P.n):
        ctx.violation("sector:" + what, f"{what}: result charge {y.n}, start vector charge {P.n}", witness)
        return None
    for i, (yl, hl) in enumerate(zip(y.get_legs(), P.legs)):
        bad = D.sub_leg_ok(yl, hl)
        if bad:
            ctx.violation("sector:" + what, f"{what}: leg {i} of the result: {bad}", witness)
            return None
    full = D.obs_dense(y, P.legs).reshape(-1)
    if not np.all(np.isfinite(full)):
        ctx.violation("nonfinite:" + what, f"{what}: result contains inf/nan", witness)
        return None
    comp = np.delete(full, P.idx)
    if comp.size and np.any(comp):
        ctx.violation("sector:" + what, f"{what}: result has weight outside the charge sector", witness)
        return None
    return full[P.idx]


def pdesc(P, **kw):
    d = {"sym": P.sym, "rank": P.rank, "kind": P.kind, "herm": P.herm, "dtype": P.dtype, "density": P.density,
         "d": P.d, "N": P.N, "norm": P.nrm, "shift": P.shift, "n": list(P.n), "legs": [l.desc() for l in P.legs]}
    d.update(kw)
    return d


def psig(P):
    return (P.sym, P.rank, P.kind, P.herm, P.dtype, P.density, tuple((l.s, l.sectors) for l in P.legs), P.n)


# ------------------------------------------------------------------ expmv

def expm_oracle(P, t, vec):
    """(exact, kappa, oracle_uncertainty) or None when the exact result over/underflows."""
    M = P.M
    with np.errstate(all="ignore"):
        if P.herm:
            lam, U = np.linalg.eigh(M)
            ex = (t * lam)
            if ex.real.max() > GROWTH_MAX or ex.real.min() < -GROWTH_MAX:
                return None
            exact = U @ (np.exp(ex) * (U.conj().T @ vec))
            normE = float(np.exp(ex.real.max()))
            alt = sla.expm(t * M) @ vec
        else:
            lam = np.linalg.eigvals(M)
            ex = t * lam
            if ex.real.max() > GROWTH_MAX or ex.real.min() < -GROWTH_MAX:
                return None
            # non-normal map: exp(tau H_m) of a Krylov projection is bounded by the numerical abscissa of tA, not by its spectrum;
            # a trial step over the whole interval may overflow although the exact result is representable -> not judged either
            if np.linalg.eigvalsh((t * M + np.conj(t * M).T) / 2).max() > GROWTH_MAX:
                return None
            E = sla.expm(t * M)
            exact = E @ vec
            normE = float(np.linalg.norm(E, 2))
            lam2, V = np.linalg.eig(M)
            alt = None
            if np.linalg.cond(V) < 1e6:
                alt = V @ (np.exp(t * lam2) * np.linalg.solve(V, vec.astype(complex)))
    ne = float(np.linalg.norm(exact))
    if not np.isfinite(ne) or not np.isfinite(normE) or ne > 1e280 or (ne < 1e-280 and np.linalg.norm(vec) > 0):
        return None
    nv = float(np.linalg.norm(vec))
    kappa = normE * nv / ne if ne > 0 else 1.0
    unc = float(np.linalg.norm(alt - exact)) / ne if (alt is not None and ne > 0) else 0.0
    P.growth = float(ex.real.max())      # log of the spectral growth of exp(tA)
    return exact, max(1.0, kappa), unc


def kappa_path(P, t, vec, exact, npts=8):
    """Condition number of the problem for an error-per-unit-step integrator:
    max_s ||exp((t-s)A)|| ||exp(sA) v|| / ||exp(tA) v|| over s on a grid between 0 and t (s = 0 gives kappa).
    A local error made at 'time' s is propagated by exp((t-s)A); for non-normal A this can exceed kappa (hump)."""
    ne = float(np.linalg.norm(exact))
    if ne == 0:
        return 1.0
    best = 1.0
    with np.errstate(all="ignore"):
        if P.herm:
            lam, U = np.linalg.eigh(P.M)
            c = U.conj().T @ vec
            for j in range(npts + 1):
                s = t * j / npts
                prop = float(np.exp(np.max(((t - s) * lam).real)))
                vs = float(np.linalg.norm(np.exp(s * lam) * c))
                best = max(best, prop * vs / ne)
        else:
            for j in range(npts + 1):
                s = t * j / npts
                prop = float(np.linalg.norm(sla.expm((t - s) * P.M), 2))
                vs = float(np.linalg.norm(sla.expm(s * P.M) @ vec)) if j else float(np.linalg.norm(vec))
                best = max(best, prop * vs / ne)
    return best if np.isfinite(best) else float("inf")


def judge_expmv(ctx, P, params, out_vec, exact, kappa, label="expmv", vec=None, info=None):
    """out_vec, exact: dense sector vectors. Returns True if inside the bound."""
    t, tol = params["t"], params["tol"]
    ne = float(np.linalg.norm(exact))
    unit = 10 * tol + 1e-13 + 100 * EPS * abs(t) * P.nrm
    allowed = kappa * unit
    err = float(np.linalg.norm(out_vec - exact)) / ne if ne > 0 else float(np.linalg.norm(out_vec))
    if err > allowed and vec is not None and t != 0:
        kp = kappa_path(P, t, vec, exact)
        ctx.count("expmv_kappa_path_refinements")
        allowed = max(kappa, kp) * unit
        kappa = max(kappa, kp)
    mkey = "expmv:tol=%g" % tol
    ok = ctx.margin(mkey, err, allowed)
    if kappa <= 10:
        ctx.margin("expmv-wellconditioned:err/(10tol+1e-13+floor)", err, allowed)
    if not ok:
        tkind = "t-real" if np.imag(t) == 0 else ("t-imag" if np.real(t) == 0 else "t-complex")
        est = info.get("error") if isinstance(info, dict) else None
        growth = getattr(P, "growth", 0.0)
        if est == 0.0 and t != 0:
            # demonstrated mechanism: every step ended in a "happy breakdown" (h < tol, absolute) and the coupling h was dropped,
            # but its effect on exp(tA)v is of order |t| h, not h
            key = "value:expmv:happy-breakdown-threshold-ignores-|t|"
        elif est is not None and est <= 1.2 * tol * 1.01 and growth > 30 and err <= GROWTH_KNOWN_MAX_RATIO * allowed:
            # (lead) the recorded finding is a *modest* excess over the tolerance (worst ratio err/allowed observed on the unchanged
            # tree is recorded below); an error orders of magnitude larger is a different defect and keeps its generic key
            ctx.margin("known-finding:growth>e^30:err/allowed (bound %g)" % GROWTH_KNOWN_MAX_RATIO, err, GROWTH_KNOWN_MAX_RATIO * allowed)
            # demonstrated mechanism: for strongly growing (exp(tA) ~ e^30 and more) problems the accumulated error estimate
            # stays below tol while the true error is orders of magnitude larger
            key = "value:expmv:error-estimate-optimistic:growth>e^30"
        else:
            key = f"value:{label}:" + ("hermitian" if params["hermitian"] else "arnoldi") + ":" + tkind
        ctx.violation(key,
                      f"{label}: relative error {err:.3e} > allowed {allowed:.3e} (tol={tol:g}, kappa={kappa:.2e}, |t|*||A||={abs(t) * P.nrm:.3g}, "
                      f"growth e^{growth:.0f}, info.error={est})",
                      pdesc(P, **{k: (v if not isinstance(v, complex) else [v.real, v.imag]) for k, v in params.items()}))
    return ok


def draw_t(P, rng):
    if rng.random() < 0.35:      # force the sub-stepping regime: |t| ||A|| between 10 and 1000
        mag = 10 ** rng.uniform(1, 3) / P.nrm
    else:
        mag = 10 ** rng.uniform(-4, 2)
    mag = min(mag, 1000.0 / P.nrm)
    ph = rng.choice(("+", "-", "+i", "-i", "c", "c"))
    if ph == "c":
        a = rng.uniform(0, 2 * math.pi)
        t = mag * complex(math.cos(a), math.sin(a))
    else:
        t = {"+": mag, "-": -mag, "+i": 1j * mag, "-i": -1j * mag}[ph]
    return t, ph


def call_expmv(ctx, P, yv, t, tol, ncv, hflag, normalize, wit):
    """One guarded expmv call.  Returns (out, info) or None when the call did not terminate."""
    import yastn
    R = reach()
    R.start_call()
    ctx.count("expmv_calls")
    try:
        return yastn.expmv(P.f, yv, t, tol, ncv, hermitian=hflag, normalize=normalize, return_info=True)
    except ExpmvStuck:
        st = dict(R.stuck or {})
        over = st.get("m") is not None and st.get("ncv_max") is not None and st["m"] > st["ncv_max"]
        om = st.get("omega")
        nonfin = om is None or not (om == om and abs(om) != float("inf"))
        ctx.count("expmv_stuck")
        ctx.violation("expmv:no-termination:controller-fixed-point" + (":nonfinite-error-estimate" if nonfin else ":m>ncv_max" if over else ""),
                      f"expmv does not terminate: after a rejected step the controller state repeats forever "
                      f"(t_now={st.get('t_now')}, tau={st.get('tau')}, ncv={st.get('ncv')}, m={st.get('m')}, ncv_max={st.get('ncv_max')}, "
                      f"omega={st.get('omega')}); vector size {yv.size}, requested ncv={ncv}, tol={tol:g}, |t|*||A||={abs(t) * P.nrm:.3g}",
                      dict(wit, stuck_state={k: (float(v) if isinstance(v, (int, float, np.floating)) else repr(v)) for k, v in st.items()},
                           vector_size=int(yv.size), call_ncv=ncv, call_normalize=normalize))
        return None
    except ExpmvBudget:
        ctx.count("expmv_iteration_budget_exceeded_unjudged")
        return None
    except (ZeroDivisionError, OverflowError):
        # demonstrated mechanism: the error estimate of a rejected first step is astronomically large (or inf) although the exact
        # result is representable; then tau_opt = tau * (omega / gamma) ** (-1 / order) underflows to 0.0 (or a denormal) and
        # (t_out - t_now) / tau_opt raises ZeroDivisionError / int(ceil(inf)) raises OverflowError
        import traceback
        tb = traceback.format_exc()
        if "tau_opt" not in tb and "ncv_opt" not in tb:
            raise
        ctx.count("expmv_controller_arithmetic_failure")
        if yv.size < min(30, P.d):
            # second demonstrated mechanism: ncv_max = min(30, v.size) counts *stored* elements; with ncv_max = 1 the error estimate
            # per unit time, t_out * h / tol, does not depend on tau, every step is rejected and tau shrinks until it underflows
            ctx.violation("expmv:controller-arithmetic-failure:ncv_max-limited-by-stored-size",
                          f"expmv raised {tb.strip().splitlines()[-1]} after shrinking the step to nothing: the start vector stores "
                          f"{yv.size} element(s) of a {P.d}-dimensional sector and the Krylov dimension is capped at min(30, v.size); "
                          f"requested ncv={ncv}, tol={tol:g}, |t|*||A||={abs(t) * P.nrm:.3g}",
                          dict(wit, call_ncv=ncv, vector_size=int(yv.size), traceback=tb[-600:]))
            return None
        ctx.violation("expmv:controller-arithmetic-failure:huge-error-estimate",
                      f"expmv raised {tb.strip().splitlines()[-1]} in its step-size controller for a problem whose exact result is "
                      f"representable; requested ncv={ncv}, tol={tol:g}, |t|*||A||={abs(t) * P.nrm:.3g}",
                      dict(wit, call_ncv=ncv, traceback=tb[-600:]))
        return None


def case_expmv(ctx, P, rng, nprng):
    import yastn
    vkind = rng.choice(("random", "random", "random", "partial", "eigvec", "near", "few", "zero"))
    hv, vec = gen_vector(P, rng, nprng, vkind)
    hflag = P.herm and rng.random() < 0.8
    t, ph = draw_t(P, rng)
    # norm scale of the start vector (expmv is linear in v); keep growth * scale inside the range where 2-norms do not overflow
    c = draw_scale(rng, 0.3) if vkind != "zero" else 1.0
    if c != 1.0:
        w_ = np.linalg.eigvalsh((t * P.M + np.conj(t * P.M).T) / 2)      # numerical range of tA along the real axis
        if float(max(abs(w_[0]), abs(w_[-1]))) + abs(math.log(c)) > GROWTH_MAX - 10:
            c = 1.0
    hv, vec = scaled(hv, vec, c)
    ctx.count("expmv:scale:%g" % c)
    yv = hv.to_yastn(P.cfg)
    tol = rng.choice((1e-6, 1e-10, 1e-12))
    if yv.size < min(30, P.d):
        # expmv caps the Krylov dimension at min(30, v.size) = number of *stored* elements, so a start vector with few stored
        # blocks is propagated with a very low order method (millions of steps for tol=1e-12): keep that regime short.
        ctx.count("expmv_ncvmax_limited_by_storage")
        tol = 1e-6
        if abs(t) * P.nrm > 0.02 * max(1, yv.size):
            t = t * (0.02 * max(1, yv.size) / (abs(t) * P.nrm))
    if rng.random() < 0.06:
        t, ph = 0, "0"
    ncv = rng.choice((rng.randint(1, 30), rng.randint(1, 30), 30, 1, 2, 5, 10))
    params = {"t": t, "tol": tol, "ncv": ncv, "hermitian": hflag, "vkind": vkind, "phase": ph, "v_norm_scale": c}
    wit = pdesc(P, **{k: (v if not isinstance(v, complex) else [v.real, v.imag]) for k, v in params.items()})
    nontrivial = False
    if vkind == "zero":
        r0 = call_expmv(ctx, P, yv, t, tol, ncv, hflag, False, wit)
        if r0 is not None:
            o = observe_vector(ctx, "expmv", r0[0], P, wit)
            if o is not None and np.any(o):
                ctx.violation("value:expmv:zero-vector", "expmv of the zero vector (normalize=False) is not zero", wit)
        ctx.count("expmv_zero_vector")
        try:
            ctx.count("expmv_calls")
            yastn.expmv(P.f, yv, t, tol, ncv, hermitian=hflag, normalize=True)
            ctx.violation("expmv:zero-vector-normalized-accepted",
                          "expmv(normalize=True) accepted a zero vector (documented: cannot be normalized)", wit)
        except yastn.YastnError:
            ctx.count("expmv_zero_vector_rejected")
        ctx.case(("expmv-zero", psig(P), ncv, tol), False)
        return
    P.growth = 0.0
    orc = expm_oracle(P, t, vec) if t != 0 else (vec.copy(), 1.0, 0.0)
    if orc is None:
        ctx.count("expmv_excluded_overflow")
        ctx.case(("expmv-overflow", psig(P)), False)
        return
    exact, kappa, unc = orc
    allowed0 = kappa * (10 * tol + 1e-13 + 100 * EPS * abs(t) * P.nrm)
    ctx.margin("expmv-oracle-selfconsistency", unc, 0.1 * allowed0)
    if unc > 0.1 * allowed0:
        ctx.count("expmv_oracle_unreliable")
        ctx.case(("expmv-unjudged", psig(P)), False)
        return
    if kappa > 1e3:
        ctx.count("expmv_ill_conditioned_kappa>1e3")
    # --- un-normalised with info
    info = None
    r1 = call_expmv(ctx, P, yv, t, tol, ncv, hflag, False, wit)
    if r1 is not None:
        out, info = r1
        o = observe_vector(ctx, "expmv", out, P, wit)
        if o is not None:
            judge_expmv(ctx, P, params, o, exact, kappa, vec=vec, info=info)
            ctx.count("expmv_judged")
            nontrivial = True
        if not isinstance(info, dict) or not all(k in info for k in ("ncv", "error", "krylov_steps", "steps")):
            ctx.violation("expmv:info-fields", f"return_info=True returned {info!r}")
        elif t != 0:
            if info["steps"] < 1 or info["krylov_steps"] < info["steps"]:
                ctx.violation("expmv:info-inconsistent", f"info {info} for t={t}", wit)
            if info["steps"] > 1:
                ctx.count("expmv_substepped")
            ctx.count("expmv_krylov_steps_total", int(info["krylov_steps"]))
        else:
            ctx.count("expmv_t0")
            if info["steps"] != 0 or info["krylov_steps"] != 0:
                ctx.violation("expmv:info-inconsistent", f"t=0 but info {info}")
    # --- normalised (independent call, other ncv)
    ncv2 = rng.randint(1, 30)
    r2 = call_expmv(ctx, P, yv, t, tol, ncv2, hflag, True, wit)
    if r2 is not None:
        o2 = observe_vector(ctx, "expmv", r2[0], P, wit)
        if o2 is not None:
            n2 = float(np.linalg.norm(o2))
            p2 = dict(params, ncv=ncv2, normalize=True)
            ctx.count("expmv_normalized_judged")
            if not ctx.margin("expmv-normalize:|norm-1|/allowed", abs(n2 - 1.0), allowed0):
                # documented: "normalize: Whether to normalize the result to unity using 2-norm"
                ctx.violation("expmv:normalize-result-not-unit-norm",
                              f"normalize=True returned a vector of norm {n2!r} (|norm-1| = {abs(n2 - 1):.3e}, allowed {allowed0:.2e}); "
                              f"hermitian={hflag}, tol={tol:g}, |t|*||A||={abs(t) * P.nrm:.3g}, steps={r2[1].get('steps') if isinstance(r2[1], dict) else None}",
                              dict(wit, call_ncv=ncv2))
            if n2 > 0:   # the direction is judged separately from the norm
                judge_expmv(ctx, P, p2, o2 / n2, exact / np.linalg.norm(exact), kappa, label="expmv-normalized-direction",
                            vec=vec / np.linalg.norm(exact), info=r2[1])
                ctx.count("expmv_judged")
    ctx.count("expmv:phase:" + ph)
    ctx.count("expmv:vkind:" + vkind)
    big = "large" if abs(t) * P.nrm > 30 else "small"
    ctx.case(("expmv", psig(P), ph, tol, ncv, ncv2, hflag, vkind, big), nontrivial,
             dict(wit, info=info, kappa=kappa))


# ------------------------------------------------------------------ observed Krylov basis (shared by eigs / lin_solver)

def observed_basis(P, ystart, tol, ncv, hflag, f=None, dense=None):
    """Run the library's own basis construction with the solver's arguments; return dense observations."""
    nrm0 = ystart.norm()
    V = [ystart / nrm0]
    V, H, happy = ystart.expand_krylov_space(P.f if f is None else f, tol, ncv, hflag, V)
    m = len(V) if happy else len(V) - 1
    dense = dense or (lambda x: D.obs_dense(x, P.legs).reshape(-1)[P.idx])
    Vd = np.array([dense(x) for x in V[:m]]).T.reshape(P.d, m)
    sub = [abs(complex(H[(j + 1, j)])) for j in range(len(V)) if (j + 1, j) in H]
    orth = float(np.linalg.norm(Vd.conj().T @ Vd - np.eye(m))) if m else 0.0
    return {"m": m, "happy": happy, "sub": sub, "orth": orth, "V": Vd}


def breakdown_premise(P, r, status, ncv, obs):
    """(premise, mechanism).
    premise: why exact results are expected -- the Krylov space of the dense problem is exhausted at dimension r <= ncv
             AND the library's own recurrence saw it (happy breakdown at m == r, or its r-th sub-diagonal is
             <= 1e-9 ||A||); None when that was not observed (e.g. Lanczos lost orthogonality before r).
    mechanism 'undetected-breakdown': the library's recurrence produced a sub-diagonal <= 1e-9 ||A|| (space
             numerically exhausted) that was not below its absolute threshold, and it went on expanding the basis
             with normalised rounding noise."""
    sub, small = obs["sub"], 1e-9 * P.nrm
    mech = None
    if not obs["happy"] and (any(h <= small for h in sub[:-1]) or obs["m"] > P.d
                             or (len(sub) > 1 and min(sub[:-1]) <= 1e-5 * P.nrm and obs["orth"] >= 1e-2)):
        # (a basis with more vectors than the sector has dimensions, or a small sub-diagonal followed by vectors that are
        #  nowhere near orthogonal [near-invariant start: the exhausted-space residual is amplified], is the same event)
        mech = "undetected-breakdown"
    if status != "exhausted" or ncv < r:
        return None, mech
    if obs["happy"]:
        return ("happy" if obs["m"] == r else None), mech
    if not (len(sub) >= r and sub[r - 1] <= small):
        return None, mech
    if ncv == r:
        # the residual of a Ritz pair is |h_{r+1,r} s_r|: demand exactness (1e-9) only when the neglected coupling is <= 1e-11
        return ("ncv==r" if sub[r - 1] <= 1e-11 * P.nrm else None), None
    return "ncv>r", mech


# ------------------------------------------------------------------ eigs

def judge_eigs_pair(ctx, P, theta, y, hflag, mech, fails, orth=0.0):
    """Rayleigh quotient and (Hermitian) spectral bounds of one returned pair. y: dense sector vector.
    Appends (key, text) to ``fails``; returns the residual norm of the pair."""
    ny = float(np.linalg.norm(y))
    if ny == 0:
        fails.append(("value:eigs:zero-vector", "eigs returned a zero vector"))
        return float("inf")
    rq = np.vdot(y, P.M @ y) / np.vdot(y, y)
    err = abs(rq - theta)
    sfx = (":" + mech) if mech else ""
    # theta = s^H H s and rho(Vs) differ by O(||V^H V - 1|| ||A||): the library does not re-orthogonalise ("economic
    # implementation"), so the tolerance follows the orthogonality loss *observed* in its basis (capped at 1e-3)
    tol_rq = (1e-9 + 10 * min(orth, 1e-3)) * max(1.0, P.nrm)
    if not ctx.margin("eigs:rayleigh" + (":lanczos" if hflag else ":arnoldi") + sfx, err, tol_rq):
        fails.append(("value:eigs:rayleigh", f"Rayleigh quotient {rq} of the returned vector != returned value {theta} "
                      f"(|diff|={err:.3e}, ||A||={P.nrm:.3g})"))
    if P.herm:
        lam = P.lam
        out = max(lam[0] - np.real(theta), np.real(theta) - lam[-1], abs(np.imag(theta)) if not hflag else 0.0)
        if not ctx.margin("eigs:variational-bounds" + sfx, max(out, 0.0), 1e-9 * max(1.0, P.nrm)):
            fails.append(("value:eigs:outside-spectrum", f"Ritz value {theta} outside [{lam[0]}, {lam[-1]}]"))
    return float(np.linalg.norm(P.M @ y - theta * y)) / ny


def case_eigs(ctx, P, rng, nprng):
    import yastn
    vkind = rng.choice(("random", "random", "random", "partial", "eigvec", "near", "few"))
    if rng.random() < 0.03:
        # must-reject: a zero start vector spans no Krylov space ("Initial vector v0 of eigs should be nonzero.")
        hz, _ = gen_vector(P, rng, nprng, "zero")
        ctx.count("eigs_calls")
        try:
            val, Y = yastn.eigs(P.f, hz.to_yastn(P.cfg), k=1, which="SR", ncv=5, hermitian=P.herm)
            ctx.violation("eigs:zero-vector-accepted", f"eigs accepted a zero start vector and returned {np.asarray(val).tolist()}", pdesc(P))
        except yastn.YastnError:
            ctx.count("eigs_zero_vector_rejected")
        ctx.case(("eigs-zero", psig(P)), False)
        return
    posdom = rng.random() < 0.3
    if posdom:
        # positive-dominant spectrum (all Ritz values have positive real part): 'LM' and 'SR' select opposite ends
        add_shift(P, 1.5 * P.nrm)
    hv1, vec1 = gen_vector(P, rng, nprng, vkind)
    if not np.linalg.norm(vec1) > 0:
        raise CaseSkip
    # norm scale of the start vector: eigs normalises v0, so nothing may depend on it
    c = draw_scale(rng, 0.6 if vkind == "near" else 0.4)
    hv, vec = scaled(hv1, vec1, c)
    ctx.count("eigs:scale:%g" % c)
    yv = hv.to_yastn(P.cfg)
    hflag = P.herm and rng.random() < 0.8
    which = rng.choice(("SR", "LR", "LM", "SM"))
    r, status, Q = reachable_dim(P.M, vec1, P.nrm)
    cands = [rng.randint(2, 30), rng.randint(2, 12), 30]
    if status == "exhausted" and r <= 27:
        cands += [r, r, r + 1, r + 1, r + 3]
    ncv = max(2, rng.choice(cands))
    if vkind == "near" and P.d <= 28 and rng.random() < 0.6:
        ncv = max(2, min(30, P.d + rng.randint(0, 4)))      # near-invariant start in a space the basis can exhaust
    kmax = max(1, min(ncv - 1, r if status != "ambiguous" else 1, 3))
    k = rng.choice((1, 1, 2, 3))
    k = min(k, kmax)
    if vkind in ("eigvec", "near"):
        k = 1
    P.lam = np.linalg.eigvalsh(P.M) if P.herm else None
    obs = observed_basis(P, yv, 1e-13, ncv, hflag)
    if obs["happy"]:
        ctx.count("happy_breakdowns")
        ctx.count("eigs_happy_breakdowns")
    if obs["m"] < k:
        ctx.count("eigs_k_exceeds_krylov_dim_skipped")
        ctx.case(("eigs-skip", psig(P)), False)
        return
    premise, mech = breakdown_premise(P, r, status, ncv, obs)
    params = {"k": k, "which": which, "ncv": ncv, "hermitian": hflag, "vkind": vkind, "r": r, "rank_status": status,
              "observed_m": obs["m"], "observed_happy": obs["happy"], "orth_loss": obs["orth"],
              "subdiag_tail": obs["sub"][-4:], "premise": premise, "v0_norm_scale": c,
              "near_eps": getattr(P, "near_eps", None) if vkind == "near" else None, "positive_dominant": posdom}
    wit = pdesc(P, **params)
    ctx.count("eigs_calls")
    val, Y = yastn.eigs(P.f, yv, k=k, which=which, ncv=ncv, hermitian=hflag)
    val = np.atleast_1d(np.asarray(val))
    if len(val) != k or len(Y) != k:
        ctx.violation("eigs:count", f"asked k={k}, got {len(val)} values / {len(Y)} vectors", wit)
        return
    fails, ress = [], []
    for i in range(k):
        y = observe_vector(ctx, "eigs", Y[i], P, wit)
        if y is None:
            return
        ress.append(judge_eigs_pair(ctx, P, complex(val[i]) if not hflag else float(np.real(val[i])), y, hflag, mech, fails, obs["orth"]))
        ctx.count("eigs_pairs_judged")
    # ordering promised by `which`
    crit = {"LM": -np.abs(val), "SM": np.abs(val), "LR": -val.real, "SR": val.real}[which]
    if np.any(np.diff(crit) < -1e-10 * max(1.0, P.nrm)):
        fails.append(("eigs:which-order", f"which={which}: returned values {val.tolist()} are not ordered by the criterion"))
    ctx.count("eigs:which:" + which)
    ctx.count("eigs:which:%s:%s" % (which, "hermitian-map" if P.herm else "non-hermitian-map"))
    lam_all = P.lam if P.herm else np.linalg.eigvals(P.M)
    if len(lam_all) > 1:
        ls, _ = which_sort(lam_all, which)
        if abs(ls[0] - ls[1]) <= 1e-9 * max(1.0, P.nrm):
            ctx.count("eigs_degenerate_extremal")       # the eigenvalue `which` asks for is (at least) doubly degenerate
            ctx.count("eigs_degenerate_extremal:" + which)
    # variational improvement over the start vector (Hermitian): theta_min <= rho(v0) <= theta_max
    if P.herm:
        rho = float(np.real(np.vdot(vec, P.M @ vec) / np.vdot(vec, vec)))
        tl = 1e-9 * max(1.0, P.nrm)
        th0 = complex(val[0])
        bad = (which == "SR" and th0.real > rho + tl) or (which == "LR" and th0.real < rho - tl) or \
              (which == "LM" and abs(th0) < abs(rho) - tl)
        if which in ("SR", "LR", "LM"):
            ctx.count("eigs_variational_vs_start_checked")
        if bad:
            fails.append(("value:eigs:which-not-variational",
                          f"which={which}: first Ritz value {th0} is worse than the Rayleigh quotient {rho} of the start vector"))
    # reference Ritz values (dense Arnoldi with re-orthogonalisation) while the library's basis is still orthonormal
    m = obs["m"]
    if P.herm and obs["orth"] <= 1e-8 and mech is None and status != "ambiguous" and m <= Q.shape[1]:
        Qm = Q[:, :m]
        ref = np.linalg.eigvalsh(Qm.conj().T @ P.M @ Qm)
        rs, rk = which_sort(ref, which)
        gap_ok = (k >= len(rs)) or (rk[k] - rk[k - 1] > 1e-6 * P.nrm)
        inner_gap_ok = all(rk[i + 1] - rk[i] > 1e-6 * P.nrm for i in range(k - 1))
        if gap_ok and inner_gap_ok:
            errv = float(np.max(np.abs(np.real(val) - rs[:k])))
            ctx.count("eigs_ritz_reference_compared")
            if not ctx.margin("eigs:ritz-vs-dense-arnoldi", errv, 1e-7 * max(1.0, P.nrm)):
                fails.append(("value:eigs:which-selection", f"which={which}: returned {val.tolist()} but the {k} selected Ritz values "
                              f"of the {m}-dimensional Krylov space are {rs[:k].tolist()}"))
    # exactness once the Krylov space is exhausted
    if premise is not None:
        ctx.count("eigs_complete_judged")
        ctx.count("eigs_complete:" + premise)
        worst = max(ress)
        if not ctx.margin("eigs:complete-residual" + ((":" + mech) if mech else ""), worst, 1e-9 * max(1.0, P.nrm)):
            fails.append(("value:eigs:inexact-on-complete-space",
                          f"Krylov space exhausted at dimension r={r} (ncv={ncv}, happy={obs['happy']}) but a returned pair has "
                          f"residual {worst:.3e} (||A||={P.nrm:.3g}); which={which}, k={k}, values={val.tolist()}"))
    elif status == "exhausted" and ncv >= r:
        ctx.count("eigs_complete_by_count_but_no_numerical_breakdown")
    if mech:
        ctx.count("eigs_cases_past_undetected_breakdown")
    if fails and mech:
        # one mechanism, one key: the basis was expanded with normalised rounding noise after an exhausted Krylov space
        ctx.count("eigs_undetected_breakdown_failures")
        ctx.violation("eigs:undetected-breakdown:spurious-ritz-pairs",
                      f"Krylov recurrence continued past a numerically exhausted space (sub-diagonal <= 1e-9||A|| but >= the absolute "
                      f"threshold 1e-13; ncv={ncv}, reachable dimension {r}, sector dimension {P.d}); consequences: "
                      + " | ".join(f"[{k_}] {t_}" for k_, t_ in fails), wit)
    else:
        for k_, t_ in fails:
            ctx.violation(k_, t_, wit)
    # ---- invariance under v0 -> c v0: the same call on the unit-scale vector must give the same pairs
    yv1 = hv1.to_yastn(P.cfg) if c != 1.0 else None
    comparable = c != 1.0 and mech is None
    if comparable:
        # the unit-scale run must be in the same regime: the recorded finding (absolute breakdown threshold) makes the basis length
        # depend on round-off when the exhausted-space residual sits at the threshold -- such pairs of runs are counted, not compared
        obs1 = observed_basis(P, yv1, 1e-13, ncv, hflag)
        if breakdown_premise(P, r, status, ncv, obs1)[1] is not None or obs1["m"] != obs["m"]:
            ctx.count("eigs_scale_invariance_skipped_borderline_breakdown")
            comparable = False
    if comparable and not (bool(obs["happy"]) or premise is not None) and obs["sub"] and min(obs["sub"]) < 1e-3 * P.nrm:
        # an *incomplete* basis that went through a small sub-diagonal is dominated by amplified round-off (the following Krylov steps
        # amplify it further, without a usable bound): two runs differing by the rounding of c*v0 are not comparable -> counted
        ctx.count("eigs_scale_invariance_skipped_noise_dominated")
        comparable = False
    if comparable:
        ctx.count("eigs_calls")
        val1, Y1 = yastn.eigs(P.f, yv1, k=k, which=which, ncv=ncv, hermitian=hflag)
        val1 = np.atleast_1d(np.asarray(val1))
        ys1 = [observe_vector(ctx, "eigs", y_, P, wit) for y_ in Y1]
        if len(val1) == k and all(y_ is not None for y_ in ys1):
            ress1 = [float(np.linalg.norm(P.M @ y_ - th_ * y_) / max(np.linalg.norm(y_), 1e-300)) for th_, y_ in zip(val1, ys1)]
            ctx.count("eigs_scale_invariance_checked")
            if vkind == "near":
                ctx.count("eigs_scale_invariance_checked:near-invariant")
            unit = max(1.0, P.nrm)
            # `which` orders by a criterion (real part / magnitude); values that tie in it (conjugate pairs of real maps, sums of
            # local operators with equal real parts) may be selected in any order, so the *criterion values* are compared
            crit_ = {"LM": np.abs, "SM": np.abs, "LR": np.real, "SR": np.real}[which]
            dv = float(np.max(np.abs(crit_(val) - crit_(val1))))
            lo = min(min(ress), min(ress1))
            complete = bool(obs["happy"]) or premise is not None
            if complete:
                ctx.count("eigs_scale_invariance_checked:complete")
                if vkind == "near":
                    ctx.count("eigs_scale_invariance_checked:near-invariant:complete")
            # an incomplete Krylov space that went through a small sub-diagonal h carries round-off amplified by ||A|| / h:
            # two runs that differ by the rounding of c*v0 legitimately differ by that much (a complete space does not care)
            noise = 0.0 if complete else 100 * EPS * unit * P.nrm / max(min(obs["sub"]) if obs["sub"] else P.nrm, 1e-300)
            # eigenvalues of non-normal maps can be ill conditioned (clusters, defective): values only to 1e-5, residuals decide
            ok_v = ctx.margin("eigs:scale-invariance:values" + ("" if P.herm else ":non-hermitian"), dv,
                              1e-10 * unit + 1e-6 * lo + noise + (0.0 if P.herm else 1e-5 * unit))
            dr = max(abs(a_ - b_) for a_, b_ in zip(ress, ress1))
            ok_r = ctx.margin("eigs:scale-invariance:residuals", dr, 1e-10 * unit + 0.1 * lo + noise)
            if not (ok_v and ok_r):
                ctx.violation("value:eigs:depends-on-norm-of-v0" + (":near-invariant-start" if vkind == "near" else ""),
                              f"eigs(f, c*v0) != eigs(f, v0) for c={c:g} (which={which}, k={k}, ncv={ncv}, hermitian={hflag}, start={vkind}): "
                              f"values {val.tolist()} vs {val1.tolist()} (|diff of the `which` criterion|={dv:.3e}), residuals {ress} vs {ress1} (||A||={P.nrm:.3g})",
                              dict(wit, values_scaled=[complex(x) for x in val], values_unit=[complex(x) for x in val1],
                                   residuals_scaled=ress, residuals_unit=ress1))
    # ---- documented default: eigs(f, v0, k=1, which='SR', ...) -- calling without `which` is calling with 'SR'
    if posdom and mech is None:
        ctx.count("eigs_calls", 2)
        vd, Yd = yastn.eigs(P.f, yv, k=k, ncv=ncv, hermitian=hflag)
        vs, Ys = yastn.eigs(P.f, yv, k=k, which="SR", ncv=ncv, hermitian=hflag)
        vd, vs = np.atleast_1d(np.asarray(vd)), np.atleast_1d(np.asarray(vs))
        ctx.count("eigs_default_which_checked")
        if P.herm and obs["m"] >= 2:
            ctx.count("eigs_default_which_discriminating")     # Hermitian, >= 2 distinct positive Ritz values: LM != SR
        same = vd.shape == vs.shape and np.allclose(vd, vs, rtol=0, atol=1e-12 * max(1.0, P.nrm))
        if same:
            for a_, b_ in zip(Yd, Ys):
                ya, yb_ = observe_vector(ctx, "eigs", a_, P, wit), observe_vector(ctx, "eigs", b_, P, wit)
                same = same and ya is not None and yb_ is not None and np.allclose(ya, yb_, rtol=0, atol=1e-10)
        if not same:
            ctx.violation("eigs:default-which-is-not-SR",
                          f"eigs without `which` returned {vd.tolist()} but which='SR' (the documented default) returns {vs.tolist()} "
                          f"(k={k}, ncv={ncv}, hermitian={hflag}, positive-dominant spectrum, ||A||={P.nrm:.3g})", wit)
    ctx.case(("eigs", psig(P), which, k, ncv, hflag, vkind, premise, c, posdom), True,
             pdesc(P, **dict(params, values=[complex(x) for x in val], residuals=ress)))


# ------------------------------------------------------------------ lin_solver

def case_lin(ctx, P, rng, nprng):
    import yastn
    if rng.random() < 0.5:
        add_shift(P, rng.choice((1.0, 2.0, -1.5)) * P.nrm * (1 if P.herm or "complex" not in P.dtype else 1))
    hb, bvec = gen_vector(P, rng, nprng, rng.choice(("random", "random", "partial", "few")))
    if not np.linalg.norm(bvec) > 0:
        raise CaseSkip
    v0kind = rng.choice(("zero", "zero", "random"))
    h0, v0vec = gen_vector(P, rng, nprng, v0kind)
    # norm scale of the problem: the solution is linear in (b, v0), the returned residual is the true one at every scale
    c = draw_scale(rng, 0.4)
    hb1, bvec1, h01, v0vec1 = hb, bvec, h0, v0vec
    hb, bvec = scaled(hb, bvec, c)
    h0, v0vec = scaled(h0, v0vec, c)
    ctx.count("lin_solver:scale:%g" % c)
    yb, y0 = hb.to_yastn(P.cfg), h0.to_yastn(P.cfg)
    if "complex" in str(yb.yastn_dtype) and "complex" not in str(y0.yastn_dtype):
        y0 = y0.to(dtype="complex128")
    q0 = bvec - P.M @ v0vec
    if not np.linalg.norm(q0) > 1e-8 * np.linalg.norm(bvec):
        raise CaseSkip
    hflag = P.herm and rng.random() < 0.7
    cond = float(np.linalg.cond(P.M))
    if not cond < 1e10:
        ctx.count("lin_solver_singular_skipped")
        raise CaseSkip
    r, status, _ = reachable_dim(P.M, q0, P.nrm)
    cands = [rng.randint(1, 30), rng.randint(1, 30), 30]
    if status == "exhausted" and r <= 27:
        cands += [r, r, r + 1, r + 2]
    ncv = rng.choice(cands)
    tol = rng.choice((1e-13, 1e-13, 1e-16, 1e-10))
    obs = observed_basis(P, yb - P.f(y0), tol, ncv, hflag)
    if obs["happy"]:
        ctx.count("happy_breakdowns")
        ctx.count("lin_solver_happy_breakdowns")
    premise, mech = breakdown_premise(P, r, status, ncv, obs)
    params = {"ncv": ncv, "tol": tol, "hermitian": hflag, "v0": v0kind, "cond": cond, "r": r, "rank_status": status,
              "observed_m": obs["m"], "observed_happy": obs["happy"], "premise": premise, "norm_scale": c}
    wit = pdesc(P, **params)
    ctx.count("lin_solver_calls")
    x, res = yastn.lin_solver(P.f, yb, y0, ncv=ncv, tol=tol, pinv_tol=1e-13, hermitian=hflag)
    xv = observe_vector(ctx, "lin_solver", x, P, wit)
    if xv is None:
        return
    judge_lin(ctx, P, xv, res, bvec, cond, premise, mech, wit)
    if c != 1.0 and mech is None:
        # linearity: lin_solver(f, c b, c v0) == c * lin_solver(f, b, v0)
        y01 = h01.to_yastn(P.cfg)
        yb1 = hb1.to_yastn(P.cfg)
        if "complex" in str(yb1.yastn_dtype) and "complex" not in str(y01.yastn_dtype):
            y01 = y01.to(dtype="complex128")
        ctx.count("lin_solver_calls")
        x1, res1 = yastn.lin_solver(P.f, yb1, y01, ncv=ncv, tol=tol, pinv_tol=1e-13, hermitian=hflag)
        xv1 = observe_vector(ctx, "lin_solver", x1, P, wit)
        if xv1 is not None:
            ctx.count("lin_solver_linearity_checked")
            nx = max(float(np.linalg.norm(xv1)), 1e-300)
            dx = float(np.linalg.norm(xv / c - xv1)) / nx
            scale1 = P.nrm * nx + float(np.linalg.norm(bvec1))
            dres = abs(float(res) / c - float(res1))
            ok_x = ctx.margin("lin_solver:linearity:x/(1e-9*cond)", dx, 1e-9 * cond + 1e-10)
            ok_r = ctx.margin("lin_solver:linearity:res", dres, 1e-10 * scale1 + 1e-6 * float(res1))
            if not (ok_x and ok_r):
                ctx.violation("value:lin_solver:not-linear-in-rhs",
                              f"lin_solver(f, c*b, c*v0) != c*lin_solver(f, b, v0) for c={c:g}: ||x_c/c - x||/||x|| = {dx:.3e}, "
                              f"res_c/c = {float(res) / c:.6e} vs res = {float(res1):.6e} (cond={cond:.2e}, ncv={ncv})", wit)
    ctx.case(("lin_solver", psig(P), ncv, tol, hflag, v0kind, premise, P.shift != 0, c), True, wit)


def judge_lin(ctx, P, xv, res, bvec, cond, premise, mech, wit):
    try:
        res = float(res)
    except (TypeError, ValueError):
        ctx.violation("lin_solver:res-type", f"returned residual {res!r} is not a real number", wit)
        return
    true = float(np.linalg.norm(P.M @ xv - bvec))
    scale = P.nrm * float(np.linalg.norm(xv)) + float(np.linalg.norm(bvec))
    ctx.count("lin_solver_res_judged")
    if not ctx.margin("lin_solver:|res-true|/scale", abs(res - true), 1e-11 * scale):
        ctx.violation("value:lin_solver:residual", f"returned res={res:.6e} but ||f(x)-b|| recomputed = {true:.6e} (scale {scale:.3e})", wit)
    if premise is not None:
        ctx.count("lin_solver_complete_judged")
        ctx.count("lin_solver_complete:" + premise)
        xs = np.linalg.solve(P.M, bvec)
        err = float(np.linalg.norm(xv - xs)) / max(float(np.linalg.norm(xs)), 1e-300)
        sfx = (":" + mech) if mech else ""
        if not ctx.margin("lin_solver:complete-x-error/(cond*1e-10)" + sfx, err, cond * 1e-10 + 1e-10):
            ctx.violation("value:lin_solver:not-solution-on-complete-space" + sfx,
                          f"Krylov space exhausted ({premise}) but ||x - solve(A,b)||/||x*|| = {err:.3e} (cond={cond:.2e}, res={res:.3e})", wit)



# ------------------------------------------------------------------ edge families: defaults, falsy values, argument forms

EDGE_SCENARIOS = ("defaults:expmv", "defaults:eigs", "defaults:lin_solver", "falsy-t", "small-args", "tol-zero", "zero-operator",
                  "identity-f", "f-forms", "lazy-vector", "fused-vector:hard", "fused-vector:meta", "zero-filled-blocks",
                  "dtype-mismatch", "fused-history:poorer-start", "fused-history:richer-start")
EXPMV_DEFAULTS = {"t": 1., "tol": 1e-12, "ncv": 10, "hermitian": False, "normalize": False, "return_info": False}
EIGS_DEFAULTS = {"k": 1, "which": "SR", "ncv": 10, "hermitian": False}
LIN_DEFAULTS = {"ncv": 10, "tol": 1e-13, "pinv_tol": 1e-13, "hermitian": False}


class _Map:
    """f as a bound method."""
    def __init__(self, P):
        self.P = P

    def apply(self, x):
        return self.P.f(x)


def _apply(P, x):
    return P.f(x)


def guarded(ctx, fn, *a, **kw):
    """A solver call of an edge scenario.  Non-termination / controller arithmetic failures are the business of the regular
    expmv cases (recorded findings with narrow keys); here such a call is only counted."""
    reach().start_call()
    try:
        return fn(*a, **kw)
    except (ExpmvStuck, ExpmvBudget, ZeroDivisionError, OverflowError):
        ctx.count("edge_call_aborted_unjudged")
        return None


def same_tensor(a, b, P, dense=None):
    dense = dense or (lambda x: D.obs_dense(x, P.legs))
    return type(a) is type(b) and str(a.yastn_dtype) == str(b.yastn_dtype) and tuple(a.n) == tuple(b.n) and \
        np.array_equal(dense(a), dense(b))


def same_result(r1, r2, P):
    """Bitwise equality of two solver results (vector | (vector, info) | (values, vectors) | (vector, res))."""
    if r1 is None or r2 is None:
        return None
    import yastn
    if isinstance(r1, yastn.Tensor):
        return isinstance(r2, yastn.Tensor) and same_tensor(r1, r2, P)
    a, b = r1, r2
    if isinstance(a[1], dict):                                   # expmv with info
        return isinstance(b[1], dict) and same_tensor(a[0], b[0], P) and a[1] == b[1]
    if isinstance(a[0], yastn.Tensor):                           # lin_solver
        return same_tensor(a[0], b[0], P) and float(a[1]) == float(b[1])
    return np.array_equal(np.asarray(a[0]), np.asarray(b[0])) and len(a[1]) == len(b[1]) and \
        all(same_tensor(x, y, P) for x, y in zip(a[1], b[1]))     # eigs


def mini_battery(ctx, P, rng, scen, yv, vec, f=None, dense=None, expect_complex=False):
    """One expmv, one eigs and one lin_solver call on a start vector given in an unusual form, each decided by the dense oracle.
    dense(y) -> sector image of a result (None + violation when it leaves the sector)."""
    import yastn
    f = f or P.f
    wit = pdesc(P, scenario=scen)
    dense = dense or (lambda y, what: observe_vector(ctx, what, y, P, wit))

    def dtype_ok(y, what):
        if expect_complex and "complex" not in str(y.yastn_dtype):
            ctx.violation(f"edge:{scen}:{what}:result-dtype-not-promoted",
                          f"{what}: real start vector, complex map: the result has dtype {y.yastn_dtype}", wit)
    # expmv: moderate |t| ||A||, no growth regime
    t = rng.choice((1.0, -1.0, 1j, complex(0.6, -0.8))) * min(3.0, 10 ** rng.uniform(-1, 0.5)) / P.nrm
    P.growth = 0.0
    orc = expm_oracle(P, t, vec)
    hflag = P.herm and rng.random() < 0.7
    if orc is not None and orc[2] <= 1e-13:
        ctx.count("expmv_calls")
        r = guarded(ctx, yastn.expmv, f, yv, t, 1e-10, rng.choice((3, 10)), hermitian=hflag, normalize=False, return_info=True)
        if r is not None:
            o = dense(r[0], "expmv")
            if o is not None:
                dtype_ok(r[0], "expmv")
                ctx.count("edge_expmv_judged"); ctx.count("expmv_judged")
                judge_expmv(ctx, P, {"t": t, "tol": 1e-10, "ncv": 10, "hermitian": hflag}, o, orc[0], orc[1], label="expmv@" + scen,
                            vec=vec, info=r[1])
    # eigs: a space the basis can exhaust whenever the sector is small
    which = rng.choice(("SR", "LR", "LM", "SM"))
    ncv = max(2, min(30, P.d + 2)) if P.d <= 28 else 10
    rdim, status, _ = reachable_dim(P.M, vec, P.nrm)
    obs = observed_basis(P, yv, 1e-13, ncv, hflag, f=f, dense=(lambda x: dense(x, "krylov-basis")))
    premise, mech = breakdown_premise(P, rdim, status, ncv, obs)
    if mech is None and obs["m"] >= 1:
        ctx.count("eigs_calls")
        val, Y = yastn.eigs(f, yv, k=1, which=which, ncv=ncv, hermitian=hflag)
        y = dense(Y[0], "eigs")
        if y is not None:
            dtype_ok(Y[0], "eigs")
            P.lam = np.linalg.eigvalsh(P.M) if P.herm else None
            fails = []
            res = judge_eigs_pair(ctx, P, complex(np.asarray(val)[0]), y, hflag, None, fails, obs["orth"])
            ctx.count("edge_eigs_judged"); ctx.count("eigs_pairs_judged")
            if premise is not None and not ctx.margin("eigs:complete-residual", res, 1e-9 * max(1.0, P.nrm)):
                fails.append(("value:eigs:inexact-on-complete-space", f"complete Krylov space ({premise}) but residual {res:.3e}"))
            for k_, t_ in fails:
                ctx.violation(f"{k_}@{scen}", f"[{scen}] which={which}, ncv={ncv}, hermitian={hflag}: {t_}", wit)
    # lin_solver
    cond = float(np.linalg.cond(P.M))
    if cond < 1e8:
        bvec = vec
        v0 = yv * 0
        ctx.count("lin_solver_calls")
        x, res = yastn.lin_solver(f, yv, v0, ncv=min(30, P.d), tol=1e-13, pinv_tol=1e-13, hermitian=hflag)
        xv = dense(x, "lin_solver")
        if xv is not None:
            dtype_ok(x, "lin_solver")
            ctx.count("edge_lin_solver_judged")
            true = float(np.linalg.norm(P.M @ xv - bvec))
            scale = P.nrm * float(np.linalg.norm(xv)) + float(np.linalg.norm(bvec))
            if not ctx.margin("lin_solver:|res-true|/scale", abs(float(res) - true), 1e-11 * scale):
                ctx.violation(f"value:lin_solver:residual@{scen}", f"[{scen}] returned res={float(res):.6e}, recomputed {true:.6e}", wit)


def case_edge(ctx, P, rng, nprng, scen):
    import functools
    import yastn
    ctx.count("edge:" + scen)
    wit = pdesc(P, scenario=scen)
    hv, vec = gen_vector(P, rng, nprng, "random")
    yv = hv.to_yastn(P.cfg)
    f = P.f
    hf = P.herm and rng.random() < 0.5

    def differ(what, detail):
        ctx.violation(f"edge:{scen}:{what}", f"[{scen}] {detail}", wit)

    if scen == "defaults:expmv":
        # (a) only f and v: t = 1, tol = 1e-12, ncv = 10, Arnoldi, no normalisation, no info (documented signature)
        ctx.count("expmv_calls", 2)
        r0 = guarded(ctx, yastn.expmv, f, yv)
        r1 = guarded(ctx, yastn.expmv, f, yv, **EXPMV_DEFAULTS)
        eq = same_result(r0, r1, P)
        if eq is not None:
            ctx.count("edge_defaults_compared")
            if not eq:
                differ("pure-defaults", "expmv(f, v) differs from expmv(f, v, t=1., tol=1e-12, ncv=10, hermitian=False, normalize=False, return_info=False)")
            P.growth = 0.0
            orc = expm_oracle(P, 1.0, vec)
            if orc is not None and orc[2] <= 1e-13 and isinstance(r0, yastn.Tensor):
                o = observe_vector(ctx, "expmv", r0, P, wit)
                if o is not None:
                    ctx.count("edge_expmv_judged"); ctx.count("expmv_judged")
                    judge_expmv(ctx, P, {"t": 1.0, "tol": 1e-12, "ncv": 10, "hermitian": False}, o, orc[0], orc[1], label="expmv@" + scen, vec=vec)
        # (b) every optional argument left out one at a time == the same call with the documented default spelled out
        E = {"t": rng.choice((0.4, -0.7j, complex(0.3, 0.5))) / P.nrm, "tol": 1e-10, "ncv": 7, "hermitian": hf, "normalize": True,
             "return_info": True}
        full = guarded(ctx, yastn.expmv, f, yv, **E)
        for a in E:
            kw = {k_: v_ for k_, v_ in E.items() if k_ != a}
            ctx.count("expmv_calls", 2)
            ra = guarded(ctx, yastn.expmv, f, yv, **kw)
            rb = guarded(ctx, yastn.expmv, f, yv, **dict(kw, **{a: EXPMV_DEFAULTS[a]}))
            eq = same_result(ra, rb, P)
            if eq is not None:
                ctx.count("edge_omitted_argument_compared"); ctx.count("edge_omitted_argument_compared:expmv:" + a)
                if not eq:
                    differ(f"omitted:{a}", f"expmv without `{a}` differs from expmv with {a}={EXPMV_DEFAULTS[a]!r} (other arguments {kw})")
            if a == "return_info" and ra is not None and full is not None:
                ctx.count("edge_return_info_compared")
                if not (isinstance(ra, yastn.Tensor) and same_tensor(ra, full[0], P)):
                    differ("return_info-changes-result", "expmv(..., return_info=True)[0] differs from the call without return_info")
    elif scen == "defaults:eigs":
        if P.d < 4 or reachable_dim(P.M, vec, P.nrm)[0] < 3:      # k = 2 below needs a Krylov space of dimension >= 2
            raise CaseSkip
        ctx.count("eigs_calls", 2)
        r0 = yastn.eigs(f, yv)
        r1 = yastn.eigs(f, yv, **EIGS_DEFAULTS)
        ctx.count("edge_defaults_compared")
        if not same_result(r0, r1, P):
            differ("pure-defaults", f"eigs(f, v0) -> {np.asarray(r0[0]).tolist()} differs from eigs(f, v0, k=1, which='SR', ncv=10, hermitian=False) "
                                    f"-> {np.asarray(r1[0]).tolist()}")
        E = {"k": 2, "which": rng.choice(("LR", "LM", "SM")), "ncv": 7, "hermitian": hf}
        for a in E:
            kw = {k_: v_ for k_, v_ in E.items() if k_ != a}
            ctx.count("eigs_calls", 2)
            ra = yastn.eigs(f, yv, **kw)
            rb = yastn.eigs(f, yv, **dict(kw, **{a: EIGS_DEFAULTS[a]}))
            ctx.count("edge_omitted_argument_compared"); ctx.count("edge_omitted_argument_compared:eigs:" + a)
            if not same_result(ra, rb, P):
                differ(f"omitted:{a}", f"eigs without `{a}` -> {np.asarray(ra[0]).tolist()} differs from eigs with {a}={EIGS_DEFAULTS[a]!r} "
                                       f"-> {np.asarray(rb[0]).tolist()} (other arguments {kw})")
        # documented as not implemented: tol and maxiter must not influence the result
        base = yastn.eigs(f, yv, **E)
        for extra in ({"tol": 0}, {"tol": 1e-3}, {"maxiter": 3}, {"maxiter": None, "tol": 1e-13}):
            ctx.count("eigs_calls"); ctx.count("edge_unused_argument_compared")
            if not same_result(base, yastn.eigs(f, yv, **E, **extra), P):
                differ("unused-argument", f"eigs(..., {extra}) differs from the call without it although the argument is documented as not implemented")
    elif scen == "defaults:lin_solver":
        if P.herm and P.d <= 9 and rng.random() < 0.8:
            # nearly singular map (one eigenvalue ~1e-11 ||A||): the only regime where the pseudo-inverse cut-off matters
            lam_ = np.linalg.eigvalsh(P.M)
            add_shift(P, float(-lam_[rng.randrange(P.d)] + 1e-11 * P.nrm))
            ctx.count("edge_lin_solver_nearly_singular")
        hb, bvec = gen_vector(P, rng, nprng, "random")
        yb = hb.to_yastn(P.cfg)
        y0 = yb * 0
        ctx.count("lin_solver_calls", 2)
        r0 = yastn.lin_solver(f, yb, y0)
        r1 = yastn.lin_solver(f, yb, y0, **LIN_DEFAULTS)
        ctx.count("edge_defaults_compared")
        if not same_result(r0, r1, P):
            differ("pure-defaults", "lin_solver(f, b, v0) differs from lin_solver(f, b, v0, ncv=10, tol=1e-13, pinv_tol=1e-13, hermitian=False)")
        xv = observe_vector(ctx, "lin_solver", r0[0], P, wit)
        if xv is not None and not P.shift:
            # (the nearly singular map is A - lambda + 1e-11: its dense image and the two-term yastn map differ by the round-off of
            #  the cancelling terms, far above the tiny ||A - lambda||; only the equality clauses below are decided there)
            ctx.count("edge_lin_solver_judged")
            judge_lin(ctx, P, xv, r0[1], bvec, float(np.linalg.cond(P.M)), None, None, wit)
        E = {"ncv": 10 if P.shift else 7, "tol": 1e-10, "pinv_tol": 1e-12, "hermitian": hf}
        for a in E:
            kw = {k_: v_ for k_, v_ in E.items() if k_ != a}
            ctx.count("lin_solver_calls", 2)
            ra = yastn.lin_solver(f, yb, y0, **kw)
            rb = yastn.lin_solver(f, yb, y0, **dict(kw, **{a: LIN_DEFAULTS[a]}))
            ctx.count("edge_omitted_argument_compared"); ctx.count("edge_omitted_argument_compared:lin_solver:" + a)
            if not same_result(ra, rb, P):
                differ(f"omitted:{a}", f"lin_solver without `{a}` differs from lin_solver with {a}={LIN_DEFAULTS[a]!r} (other arguments {kw})")
    elif scen == "falsy-t":
        nv = float(np.linalg.norm(vec))
        for t in (0, 0.0, -0.0, 0j, complex(-0.0, 0.0)):
            for nz in (False, True):
                ctx.count("expmv_calls"); ctx.count("edge_falsy_t_checked")
                out, info = yastn.expmv(f, yv, t, 1e-10, rng.choice((1, 5, 10)), hermitian=hf, normalize=nz, return_info=True)
                o = observe_vector(ctx, "expmv", out, P, wit)
                want = vec / nv if nz else vec
                if o is not None and (not ctx.margin("expmv:t=0", float(np.linalg.norm(o - want)), 1e-13 * float(np.linalg.norm(want)))
                                      or info.get("steps") != 0 or info.get("krylov_steps") != 0):
                    differ("t=0", f"expmv(t={t!r}, normalize={nz}) is not the (normalised) start vector or reports steps: {info}")
    elif scen == "small-args":
        # smallest meaningful values: ncv = 1, 2 (expmv, lin_solver), k = 1 with ncv = 2 (eigs needs ncv > k)
        P.growth = 0.0
        t = rng.choice((1.0, -1j)) * 0.3 / P.nrm
        orc = expm_oracle(P, t, vec)
        for ncv in (1, 2):
            ctx.count("expmv_calls")
            r = guarded(ctx, yastn.expmv, f, yv, t, 1e-10, ncv, hermitian=hf, return_info=True)
            if r is not None and orc is not None:
                o = observe_vector(ctx, "expmv", r[0], P, wit)
                if o is not None:
                    ctx.count("edge_small_ncv_judged"); ctx.count("expmv_judged")
                    judge_expmv(ctx, P, {"t": t, "tol": 1e-10, "ncv": ncv, "hermitian": hf}, o, orc[0], orc[1], label="expmv@" + scen, vec=vec, info=r[1])
            hb, bvec = gen_vector(P, rng, nprng, "random")
            yb = hb.to_yastn(P.cfg)
            ctx.count("lin_solver_calls")
            x, res = yastn.lin_solver(f, yb, yb * 0, ncv=ncv, hermitian=hf)
            xv = observe_vector(ctx, "lin_solver", x, P, wit)
            if xv is not None:
                ctx.count("edge_small_ncv_judged")
                judge_lin(ctx, P, xv, res, bvec, float(np.linalg.cond(P.M)), None, None, wit)
        if P.d >= 2:
            which = rng.choice(("SR", "LR", "LM", "SM"))
            ctx.count("eigs_calls")
            val, Y = yastn.eigs(f, yv, k=1, which=which, ncv=2, hermitian=hf)
            y = observe_vector(ctx, "eigs", Y[0], P, wit)
            if y is not None:
                P.lam = np.linalg.eigvalsh(P.M) if P.herm else None
                fails = []
                judge_eigs_pair(ctx, P, complex(np.asarray(val)[0]), y, hf, None, fails)
                ctx.count("edge_small_ncv_judged"); ctx.count("eigs_pairs_judged")
                if P.herm:
                    rho = float(np.real(np.vdot(vec, P.M @ vec) / np.vdot(vec, vec)))
                    th = complex(np.asarray(val)[0]).real
                    if (which == "SR" and th > rho + 1e-9 * max(1, P.nrm)) or (which == "LR" and th < rho - 1e-9 * max(1, P.nrm)):
                        fails.append(("value:eigs:which-not-variational", f"ncv=2, which={which}: {th} vs Rayleigh quotient {rho} of the start vector"))
                for k_, t_ in fails:
                    ctx.violation(f"{k_}@{scen}", f"[{scen}] {t_}", wit)
    elif scen == "tol-zero":
        # eigs: tol is documented as not implemented -> no effect.  lin_solver: with an incomplete space the residual is still the
        # true one.  expmv: tol = 0 has no documented meaning (the controller divides by tol) -> not called.
        if P.d >= 3:
            ctx.count("eigs_calls", 2); ctx.count("edge_tol_zero_checked")
            if not same_result(yastn.eigs(f, yv, k=1, ncv=3, hermitian=hf), yastn.eigs(f, yv, k=1, ncv=3, hermitian=hf, tol=0), P):
                differ("eigs-tol=0", "eigs(tol=0) differs from eigs() although tol is documented as not implemented")
            hb, bvec = gen_vector(P, rng, nprng, "random")
            yb = hb.to_yastn(P.cfg)
            if reachable_dim(P.M, bvec, P.nrm)[0] >= 3:
                ctx.count("lin_solver_calls"); ctx.count("edge_tol_zero_checked")
                x, res = yastn.lin_solver(f, yb, yb * 0, ncv=2, tol=0, hermitian=hf)
                xv = observe_vector(ctx, "lin_solver", x, P, wit)
                if xv is not None:
                    judge_lin(ctx, P, xv, res, bvec, float(np.linalg.cond(P.M)), None, None, wit)
            else:
                # tol = 0 and a Krylov space exhausted within ncv steps: the residual is divided by its zero norm (nan, LinAlgError
                # from pinv); the docstring gives tol no meaning there -> counted, not called
                ctx.count("lin_solver_tol0_exhausted_space_unjudged")
        ctx.count("expmv_tol_zero_undefined_not_called")
    elif scen == "zero-operator":
        f0 = lambda x: f(x) * 0.0
        nv = float(np.linalg.norm(vec))
        for t in (0.7, 1j, complex(-2, 1)):
            for nz in (False, True):
                ctx.count("expmv_calls"); ctx.count("edge_zero_operator_checked")
                out = yastn.expmv(f0, yv, t, 1e-10, 5, hermitian=rng.random() < 0.5, normalize=nz)
                o = observe_vector(ctx, "expmv", out, P, wit)
                want = vec / nv if nz else vec
                if o is not None and not ctx.margin("expmv:zero-operator", float(np.linalg.norm(o - want)), 1e-13 * float(np.linalg.norm(want))):
                    differ("expmv", f"exp(t*0) v != v for t={t}, normalize={nz}")
        for hflag in (False, True):
            ctx.count("eigs_calls"); ctx.count("edge_zero_operator_checked")
            val, Y = yastn.eigs(f0, yv, k=1, which=rng.choice(("SR", "LR", "LM", "SM")), ncv=4, hermitian=hflag)
            y = observe_vector(ctx, "eigs", Y[0], P, wit)
            if y is not None and (abs(complex(np.asarray(val)[0])) > 1e-14 or
                                  abs(abs(np.vdot(y, vec)) - np.linalg.norm(y) * nv) > 1e-12 * nv * np.linalg.norm(y)):
                differ("eigs", f"zero operator: eigs returned {np.asarray(val).tolist()} / a vector not parallel to v0")
        ctx.count("lin_solver_calls"); ctx.count("edge_zero_operator_checked")
        x, res = yastn.lin_solver(f0, yv, yv * 0, ncv=3)
        xv = observe_vector(ctx, "lin_solver", x, P, wit)
        if xv is not None and abs(float(res) - nv) > 1e-12 * nv:
            differ("lin_solver", f"zero operator: returned res={float(res)!r} but ||0 - b|| = {nv!r}")
    elif scen == "identity-f":
        before = D.obs_dense(yv, P.legs).copy()
        for c in (1.0, 2.5):
            g = (lambda x: x) if c == 1.0 else (lambda x: c * x)     # c = 1: f returns the very object it was given
            for t in (0.7, 1j, complex(-0.3, 2)):
                ctx.count("expmv_calls"); ctx.count("edge_identity_checked")
                out = yastn.expmv(g, yv, t, 1e-10, 5, hermitian=rng.random() < 0.5)
                o = observe_vector(ctx, "expmv", out, P, wit)
                want = np.exp(t * c) * vec
                if o is not None and not ctx.margin("expmv:scalar-map", float(np.linalg.norm(o - want)), 1e-12 * float(np.linalg.norm(want))):
                    differ("expmv", f"f(x) = {c}*x: expmv(t={t}) != exp({c}t) v (relative error {np.linalg.norm(o - want) / np.linalg.norm(want):.2e})")
            ctx.count("eigs_calls"); ctx.count("edge_identity_checked")
            val, Y = yastn.eigs(g, yv, k=1, ncv=4, hermitian=rng.random() < 0.5)
            y = observe_vector(ctx, "eigs", Y[0], P, wit)
            if y is not None and (abs(complex(np.asarray(val)[0]) - c) > 1e-13 * c or
                                  abs(abs(np.vdot(y, vec)) - np.linalg.norm(y) * np.linalg.norm(vec)) > 1e-12 * np.linalg.norm(vec) * np.linalg.norm(y)):
                differ("eigs", f"f(x) = {c}*x: eigs returned {np.asarray(val).tolist()}")
            hb, bvec = gen_vector(P, rng, nprng, "random")
            yb = hb.to_yastn(P.cfg)
            for y0 in (yb * 0, yv):
                ctx.count("lin_solver_calls"); ctx.count("edge_identity_checked")
                x, res = yastn.lin_solver(g, yb, y0, ncv=3)
                xv = observe_vector(ctx, "lin_solver", x, P, wit)
                if xv is not None and (np.linalg.norm(xv - bvec / c) > 1e-12 * np.linalg.norm(bvec) or float(res) > 1e-12 * np.linalg.norm(bvec)):
                    differ("lin_solver", f"f(x) = {c}*x: x != b/{c} (error {np.linalg.norm(xv - bvec / c):.2e}, res {float(res):.2e})")
        if not np.array_equal(D.obs_dense(yv, P.legs), before):
            differ("start-vector-modified", "the start vector was modified by a solver whose map returns its argument")
    elif scen == "f-forms":
        forms = {"lambda": (lambda x: P.f(x)), "bound-method": _Map(P).apply, "partial": functools.partial(_apply, P)}
        t = rng.choice((0.5, 1j)) / P.nrm
        hb, bvec = gen_vector(P, rng, nprng, "random")
        yb = hb.to_yastn(P.cfg)
        res = {}
        for name, g in forms.items():
            ctx.count("expmv_calls"); ctx.count("eigs_calls"); ctx.count("lin_solver_calls")
            res[name] = (guarded(ctx, yastn.expmv, g, yv, t, 1e-10, 6, hermitian=hf, return_info=True),
                         yastn.eigs(g, yv, k=1, which="LR", ncv=min(5, max(2, P.d)), hermitian=hf),
                         yastn.lin_solver(g, yb, yb * 0, ncv=4, hermitian=hf))
        for name in ("bound-method", "partial"):
            for i, solver in enumerate(("expmv", "eigs", "lin_solver")):
                eq = same_result(res["lambda"][i], res[name][i], P)
                if eq is not None:
                    ctx.count("edge_f_forms_compared")
                    if not eq:
                        differ(f"{solver}:{name}", f"{solver} with f given as {name} differs from f given as lambda")
    elif scen == "lazy-vector":
        if P.rank < 2:
            raise CaseSkip
        q = list(range(P.rank))
        rng.shuffle(q)
        if q == sorted(q):
            q = q[1:] + q[:1]
        inv = [int(x) for x in np.argsort(q)]
        lazy = hv.permute(q).to_yastn(P.cfg).transpose(inv)          # pending transpose, same logical vector
        ctx.count("edge_vector_forms")
        mini_battery(ctx, P, rng, scen, lazy, vec)
    elif scen.startswith("fused-vector"):
        if P.rank < 2:
            raise CaseSkip
        mode = scen.split(":")[1]
        groups = (tuple(range(P.rank)),) if (P.rank == 2 or rng.random() < 0.5) else ((0, 1), 2)
        fuse = lambda x: x.fuse_legs(axes=groups, mode=mode)
        unfuse = lambda x: x.unfuse_legs(axes=0)
        ff = lambda x: fuse(P.f(unfuse(x)))
        ctx.count("edge_vector_forms")
        mini_battery(ctx, P, rng, scen, fuse(yv), vec, f=ff,
                     dense=lambda y, what: observe_vector(ctx, what, unfuse(y), P, pdesc(P, scenario=scen, groups=groups)))
    elif scen.startswith("fused-history"):
        # Hard-fused vectors whose fusion history differs from that of f(v): the start vector is fused on its own from a tensor that
        # holds only part of the constituent charge sectors (poorer than f(v)), or the operator lacks a constituent sector that the
        # start vector has (v richer than the range of f).  yastn embeds mismatching histories in add / vdot / tensordot by itself.
        if P.rank < 2 or P.kind != "full" or P.sym == "dense":
            raise CaseSkip
        k = P.rank
        A = P.ops[0][0]
        keys = sorted(hv.blocks)
        cand = [(i, t_) for i in range(k) for t_ in {key[i] for key in keys} if len({key[i] for key in keys}) >= 2]
        if not cand:
            raise CaseSkip
        i0, t0 = rng.choice(sorted(cand))
        if scen.endswith("poorer-start"):
            keep = {key for key in keys if key[i0] != t0}
            hs = hv.with_present(keep)                      # blocks with charge t0 on leg i0 are absent: the leg loses that sector
        else:
            hs = hv
            A2 = A.with_present({key for key in A.blocks if key[i0] != t0 and key[k + i0] != t0})
            if not A2.blocks:
                raise CaseSkip
            P.ops = [(A2, P.ops[0][1])]
            P.M = A2.dense().reshape(P.N, P.N)[np.ix_(P.idx, P.idx)]
            P.nrm = float(np.linalg.norm(P.M, 2))
            if not P.nrm > 1e-12:
                raise CaseSkip
            P.yops = [(A2.to_yastn(P.cfg), P.ops[0][1])]
            A = A2
        vs = hs.dense().reshape(-1)[P.idx]
        if not np.linalg.norm(vs) > 0:
            raise CaseSkip
        groups = (tuple(range(k)),)
        fuse = lambda x: x.fuse_legs(axes=groups, mode="hard")
        unfuse = lambda x: x.unfuse_legs(axes=0)
        vf = fuse(hs.to_yastn(P.cfg))                      # fused independently of the operator
        if rng.random() < 0.5:
            Mf = P.yops[0][0].fuse_legs(axes=(tuple(range(k)), tuple(range(k, 2 * k))), mode="hard")   # matrix on the fused space
            ff, form = (lambda x: (P.__setattr__("calls", P.calls + 1), Mf @ x)[1]), "fused-matrix"
        else:
            ff, form = (lambda x: fuse(P.f(unfuse(x)))), "unfuse-apply-fuse"
        lv, lw = unfuse(vf).get_legs(), unfuse(ff(vf)).get_legs()
        sub = all(set(a.t) <= set(b.t) for a, b in zip(lv, lw))
        sup = all(set(a.t) >= set(b.t) for a, b in zip(lv, lw))
        differs = vf.get_legs(0).hf != ff(vf).get_legs(0).hf
        if scen.endswith("poorer-start") and differs and sub and not sup:
            ctx.count("start_vector_poorer_fusion_history"); ctx.count("start_vector_poorer_fusion_history:" + form)
        elif scen.endswith("richer-start") and differs and sup and not sub:
            ctx.count("start_vector_richer_fusion_history"); ctx.count("start_vector_richer_fusion_history:" + form)
        elif differs:
            ctx.count("start_vector_other_fusion_history_mismatch")
        else:
            ctx.count("fused_history_scenario_without_mismatch")
        ctx.count("edge_vector_forms")
        mini_battery(ctx, P, rng, scen, vf, vs, f=ff,
                     dense=lambda y, what: observe_vector(ctx, what, unfuse(y), P, pdesc(P, scenario=scen, form=form, leg=i0, charge=list(t0))))
    elif scen == "zero-filled-blocks":
        keys = sorted(hv.blocks)
        if len(keys) < 2:
            raise CaseSkip
        zero = set(rng.sample(keys, max(1, len(keys) // 2)))
        hz = hv._new(blocks={k_: (np.zeros_like(b_) if k_ in zero else b_) for k_, b_ in hv.blocks.items()})
        vz = hz.dense().reshape(-1)[P.idx]
        if not np.linalg.norm(vz) > 0:
            raise CaseSkip
        ctx.count("edge_vector_forms")
        mini_battery(ctx, P, rng, scen, hz.to_yastn(P.cfg), vz)          # blocks stored as explicit zeros
    elif scen == "dtype-mismatch":
        hr, vr = gen_vector(P, rng, nprng, "random", force_real=True)      # P is complex (forced by the driver), v is real
        yr = hr.to_yastn(P.cfg)
        if "complex" in str(yr.yastn_dtype) or "complex" not in P.dtype:
            raise RuntimeError("harness: dtype-mismatch scenario needs a real vector and a complex map")
        ctx.count("edge_vector_forms")
        mini_battery(ctx, P, rng, scen, yr, vr, expect_complex=True)
    ctx.case(("edge", scen, psig(P)), True, dict(wit, d=P.d) if scen in ("defaults:eigs", "fused-vector:hard") else None)


# ------------------------------------------------------------------ driver

def run_case(ctx, idx):
    rng, nprng = ctx.rng(idx), ctx.nprng(idx)
    R = reach()
    R.start_case()
    try:
        sym = G.ALL_SYMS[idx % len(G.ALL_SYMS)]
        slot = (idx // 7) % 12
        solver = ("expmv", "eigs", "edge", "expmv", "lin", "expmv", "eigs", "lin", "edge", "expmv", "eigs", "expmv")[slot]
        tiny = rng.random() < 0.07          # a one-dimensional sector (single block of dimension 1): exact in one Krylov step
        if solver == "edge":
            rotation = EDGE_SCENARIOS + EDGE_SCENARIOS[-2:]          # the fusion-history scenarios get a double share
            scen = rotation[(2 * (idx // 84) + (slot == 8)) % len(rotation)]
            fh = scen.startswith("fused-history")
            if fh and sym == "dense":
                sym = rng.choice([x for x in G.ALL_SYMS if x != "dense"])      # a single sector has no poorer history
            needs_rank2 = fh or scen in ("lazy-vector", "fused-vector:hard", "fused-vector:meta", "zero-filled-blocks")
            for _attempt in range(6 if fh else 1):
                try:
                    nsing = scen == "defaults:lin_solver" and rng.random() < 0.6     # small Hermitian map for the nearly singular regime
                    P = gen_problem(rng, nprng, sym, ctx.tier, herm=True if nsing else None,
                                    drange=(2, 9) if nsing else (1, 1) if (tiny and not needs_rank2 and scen != "defaults:eigs") else ((4, 40) if fh else (2, 40)),
                                    dtype="complex128" if scen == "dtype-mismatch" else None,
                                    rank=rng.choice((2, 2, 3)) if needs_rank2 else None, kind="full" if fh else None)
                except CaseSkip:
                    if not fh or _attempt == 5:
                        raise
                    continue
                if not fh:
                    break
                keys_ = D.allowed_keys(P.sym, P.legs, P.n)       # some constituent leg must carry >= 2 charges inside the sector
                if any(len({key[i] for key in keys_}) >= 2 for i in range(P.rank)):
                    break
            if P.d == 1:
                ctx.count("sector_dim_1:edge")
            case_edge(ctx, P, rng, nprng, scen)
        else:
            small = rng.random() < (0.35 if solver != "expmv" else 0.12)
            P = gen_problem(rng, nprng, sym, ctx.tier, want_small=small, drange=(1, 1) if tiny else None)
            if P.d == 1:
                ctx.count("sector_dim_1:" + solver)
            {"expmv": case_expmv, "eigs": case_eigs, "lin": case_lin}[solver](ctx, P, rng, nprng)
        ctx.count("f_applications", P.calls)
    finally:
        R.end_case(ctx)


def canaries(ctx):
    import random
    sub = type(ctx)(ctx.prop, ctx.tier, ctx.seed)
    rng, nprng = random.Random(5), np.random.default_rng(5)
    P = gen_problem(rng, nprng, "U1", "quick")
    hv, vec = gen_vector(P, rng, nprng, "random")
    t = 0.3 / P.nrm
    exact, kappa, _ = expm_oracle(P, t, vec)
    prm = {"t": t, "tol": 1e-10, "ncv": 10, "hermitian": False}
    judge_expmv(sub, P, prm, exact * (1 + 1e-6), exact, kappa)
    ctx.canary("expmv-1e-6-relative-error", any(v["key"].startswith("value:expmv") for v in sub.violations))
    sub.violations.clear()
    judge_expmv(sub, P, prm, exact, exact, kappa)
    ctx.canary("expmv-exact-accepted", not sub.violations)
    # eigs: value shifted away from the Rayleigh quotient; vector that is not an eigenvector
    P.lam = np.linalg.eigvalsh(P.M) if P.herm else None
    lam, U = np.linalg.eig(P.M)
    y = U[:, 0]
    fl = []
    judge_eigs_pair(sub, P, lam[0] + 1e-6 * P.nrm, y, False, None, fl)
    ctx.canary("eigs-value-shifted", any(k == "value:eigs:rayleigh" for k, _ in fl))
    Ph = gen_problem(random.Random(6), np.random.default_rng(6), "Z2", "quick")
    tries = 0
    while not Ph.herm and tries < 50:
        tries += 1
        Ph = gen_problem(random.Random(6 + tries), np.random.default_rng(6 + tries), "Z2", "quick")
    Ph.lam = np.linalg.eigvalsh(Ph.M)
    _, Uh = np.linalg.eigh(Ph.M)
    fl = []
    judge_eigs_pair(sub, Ph, Ph.lam[0] - 1e-6 * Ph.nrm, Uh[:, 0], True, None, fl)
    ctx.canary("eigs-below-spectrum", any(k == "value:eigs:outside-spectrum" for k, _ in fl))
    # lin_solver: residual under-reported; wrong solution on a complete space
    b = nprng.standard_normal(P.d)
    xs = np.linalg.solve(P.M, b)
    cond = float(np.linalg.cond(P.M))
    x_bad = xs + 1e-3 * nprng.standard_normal(P.d) * np.linalg.norm(xs) / math.sqrt(P.d)
    true = float(np.linalg.norm(P.M @ x_bad - b))
    judge_lin(sub, P, x_bad, 0.5 * true, b, cond, None, None, None)
    ctx.canary("lin_solver-residual-underreported", any(v["key"] == "value:lin_solver:residual" for v in sub.violations))
    sub.violations.clear()
    judge_lin(sub, P, xs * (1 + 1e-3 * cond), float(np.linalg.norm(P.M @ (xs * (1 + 1e-3 * cond)) - b)), b, cond, "happy", None, None)
    ctx.canary("lin_solver-wrong-solution", any("not-solution" in v["key"] for v in sub.violations))
    sub.violations.clear()
    # sector: a vector with another charge
    other = D.gen_tensor(rng, nprng, "U1", legs=P.legs, n=G.add("U1", (P.n, (1,))), density=1.0)
    observe_vector(sub, "canary", other.to_yastn(P.cfg), P)
    ctx.canary("wrong-sector", any(v["key"].startswith("sector:") for v in sub.violations))


def finalize(cov, merged):
    lines = {}
    for name in ("expmv", "eigs", "lin_solver", "expand_krylov_space"):
        hit = cov.pop("lines_reached:" + name, None)
        ex = cov.pop("lines_executable:" + name, None)
        if hit is not None and ex is not None:
            lines[name] = {"reached": len(set(hit) & set(ex)), "executable": len(ex),
                           "not_reached": sorted(set(ex) - set(hit))}
    cov["anchor_line_reach"] = lines
    c = merged["counters"]
    cov["branch_reach_cases"] = {k[6:]: int(v) for k, v in sorted(c.items()) if k.startswith("reach:")}
    if not lines:
        cov["inconclusive_reasons"].append("line-reach monitor did not attach (sys.monitoring unavailable?)")
