"""C04  Factorisations reconstruct the input with the promised structure.

Reference-model monitor for yastn.svd / qr / eigh / eig (yastn/tensor/linalg.py).  Operands are harness tensors
(vmon.dense: dense truth known without to_numpy) in every shipped symmetry, with non-zero tensor charge, rectangular
sectors, complex data, realised in a random lazy state (plain / pending transpose / consumed / copied), optionally
fused (meta, hard, two levels) and lazily transposed again.  Every case draws a bipartition of the (fused) legs with
a random leg order and the full range of the keyword arguments.  Oracle, all in NumPy on dense images:

  * the factors are unfused, their outer legs compared with the universe legs, and converted with to_numpy over the
    universe legs; the connecting leg is contracted at the native position implied by the *claimed* Uaxis / Vaxis /
    Qaxis / Raxis and the product compared with the operand truth permuted to ``axes`` order;
  * U^+U = 1, V V^+ = 1, Q^+Q = 1, V U = 1 (eig);   S real, >= 0, non-increasing per sector (svd); eigenvalue order per
    ``which``; the spectrum of every sector equals numpy's svd / eigvalsh / eigvals of the dense sector matrix, the
    sectors and the charge of the connecting leg being derived from the independent group law by charge conservation;
  * total charges of U / V / Q / R / S as selected by nU; signature and position of the connecting leg;
  * R upper-triangular with non-negative diagonal.  Reading of "upper-triangular" for a block-sparse R with several
    column legs: in the matrix of each charge sector whose columns are enumerated as the library's own (hard) fusion
    of the column legs enumerates them (lexicographic in the leg charges, row-major inside a block).  When no hard
    fusion is involved the same enumeration is recomputed by the harness and checked too;
  * fix_signs: in every column of U (an) element of largest magnitude is real positive; compute_uv=False returns the
    same spectrum.
"""
from __future__ import annotations

import numpy as np

from vmon import dense as D
from vmon import factorgen as F
from vmon import groups as G
from vmon.harness import CaseSkip

PROP = "C04"
RULE = ("case = (operation svd|qr|eigh|eig, symmetry, tensor drawn from a charge box: rank 2-5, legs with 1-3 sectors of dim 1-3, "
        "block presence mask, tensor charge fit/zero/arbitrary, dtype, lazy state, fusion recipe none/meta/hard/two-level (+ lazy transpose "
        "after fusion), ordered bipartition of the legs, sU/sQ, nU, axis positions over the full signed range, which, fix_signs, compute_uv); "
        "distinct = hash of (op, tensor structure, lazy/fusion state, bipartition, keyword arguments); non-trivial = the operand stores a "
        "block and the reconstruction was compared element-wise")
ASSUMPTIONS = ["NumPy matmul / linalg.svd / eigvalsh / eigvals on dense sector matrices of dimension <= 729 are the truth",
               "harness dense images are built from the same blocks passed to set_block (no to_numpy involved for operands)",
               "fuse_legs / unfuse_legs / to_numpy are used to observe factors of fused operands (their faithfulness is C03 / C01)",
               "upper-triangularity of R is judged in the column order of the library's own hard fusion of the column legs "
               "(recomputed independently by the harness when no hard fusion is involved)",
               "eig: reconstruction / bi-orthonormality tolerances scale with ||U|| ||V|| (conditioning of the eigenvector basis); "
               "inputs whose sector spectra are degenerate are judged on the spectrum only (counted separately)"]

TOL_REC = 1e-11       # relative to ||a||
TOL_ISO = 5e-12       # absolute, entries of U^+U - 1
TOL_ISO_EIGH = 5e-11  # eigh (MRRR driver): orthogonality degrades for clustered / degenerate eigenvalues (observed <= 4e-13)
TOL_REC_EIGH = 3e-11  # same for ||U S U^+ - a|| / ||a|| (observed <= 1.3e-13 on designed degenerate spectra)
TOL_VAL = 1e-11       # spectrum vs numpy, relative to ||a||


def plan(tier):
    if tier == "thorough":
        return {"cases": 140000, "shards": 16, "budget_s": 800}
    return {"cases": 8960, "shards": 8, "budget_s": 100}


def floors(tier):
    k = 60 if tier == "thorough" else 5
    return {"evaluations": 800 * k, "op:svd": 250 * k, "op:qr": 120 * k, "op:eigh": 120 * k, "op:eig": 100 * k,
            "reconstructions_compared": 700 * k, "isometry_checks": 900 * k, "sector_spectra_compared": 1200 * k,
            "R_blocks_triangular_checked": 150 * k, "R_harness_order_checked": 40 * k,
            "lazy_operands": 250 * k, "fused_operands": 250 * k, "fused_hard": 80 * k, "fused_meta": 80 * k,
            "nonzero_charge": 150 * k, "rectangular_sectors": 300 * k, "complex_operands": 250 * k,
            "nU_false": 80 * k, "sU_minus": 200 * k, "negative_axis_args": 150 * k, "axis_not_default": 300 * k,
            "fix_signs_columns": 200 * k, "designed_spectrum": 150 * k, "compute_uv_false": 30 * k, "eig_biorthonormal_checked": 50 * k, "eig_nonnormal_scaled_inputs": 20 * k, "eig_directed_ill_conditioned": 1, "sides_fused_differently": 60 * k, "sides_fused_differently:meta": 20 * k, "sides_fused_differently:hard+meta": 2 * k,
            "which:LM": 30 * k, "which:SM": 30 * k, "which:LR": 30 * k, "which:SR": 30 * k, **reach_floors(k)}


def reach_floors(k):
    """Generic input classes, per decomposition: pure-default calls, extreme scales, pending 3-cycles (also with identical leg
    structures), negative axis arguments at every position down to -ndim and on factors that carry fused legs."""
    out = {"scaled_operands": 60 * k}
    for op in ("svd", "qr", "eigh", "eig"):
        out[f"pure_defaults:{op}"] = 4 * k
        out[f"lazy_3cycle:{op}"] = 20 * k
        out[f"lazy_3cycle_identical_legs:{op}"] = 2 * k
        out[f"negaxis_full_range:{op}"] = 15 * k
        out[f"negaxis_fused_factor:{op}"] = 10 * k
        for pos, n in ((-1, 15), (-2, 15), (-3, 5)):
            out[f"negaxis:{op}:{pos}"] = n * k
    return out


# ------------------------------------------------------------------ environment

class Env:
    def __init__(self, ctx, idx, sym):
        self.ctx, self.rng, self.nprng, self.sym = ctx, ctx.rng(idx), ctx.nprng(idx), sym
        self.cfg = D.make_cfg(sym, False)
        self.thorough = ctx.tier == "thorough"
        self.uniform_legs = False

    def legs(self, rank):
        small = rank >= 5
        if self.rng.random() < 0.15:
            # identical sector structure on every leg (signatures free): a wrongly resolved leg permutation stays shape-compatible
            l0 = D.gen_leg(self.rng, self.sym, nsec=(1, 2) if small else (1, 3), dmax=2 if small else 3)
            self.uniform_legs = True
            return [D.HLeg(self.sym, self.rng.choice((1, -1)), l0.sectors) for _ in range(rank)]
        return [D.gen_leg(self.rng, self.sym, nsec=(1, 2) if small else (1, 3), dmax=2 if small else 3) for _ in range(rank)]

    def tensor(self, rank=None):
        rank = rank or self.rng.choice((2, 3, 3, 4, 4, 5) if self.thorough else (2, 3, 3, 4))
        legs = self.legs(rank)
        nmode = self.rng.choice(("fit",) * 7 + ("zero", "zero", "any"))
        return D.gen_tensor(self.rng, self.nprng, self.sym, legs=legs, density=self.rng.choice((1.0, 1.0, 0.7, 0.5)), nmode=nmode)

    def operand(self, ht, rng=None, **kw):
        return F.make_operand(rng or self.rng, ht, self.cfg, **kw)

    def count_operand(self, ht, op):
        c = self.ctx
        if op.info["state"] != "plain" or op.info["post"] != "none":
            c.count("lazy_operands")
        if op.info["fusion"]:
            c.count("fused_operands")
            for mode, _ in op.info["fusion"]:
                c.count("fused_" + mode)
        if any(ht.n):
            c.count("nonzero_charge")
        if "complex" in ht.dtype:
            c.count("complex_operands")
        if not ht.blocks:
            c.count("empty_operands")

    def split_operand(self, p_designed=0.25, rank=None, split=None, **okw):
        """Tensor, operand (lazy / fused) and ordered bipartition; with probability p_designed the singular values of every
        sector of that bipartition are replaced by a designed set (exact-to-rounding degeneracies, zeros, all equal)."""
        import random
        rng = self.rng
        ht = self.tensor(rank)
        state = rng.getstate()
        operand = self.operand(ht, **okw)
        left, right = F.bipartition(rng, operand.nlegs) if split is None else split
        rebuilt = False
        if ht.blocks and rng.random() < p_designed:
            ht = F.redesign_svd(rng, ht, F.flat_axes(operand, left), F.flat_axes(operand, right))
            rebuilt = True
            self.ctx.count("designed_spectrum")
        c = F.draw_scale(rng)
        if c != 1.0 and ht.blocks:
            ht = F.scaled(ht, c)            # extreme but legal overall scale: every clause is relative to ||a||
            rebuilt = True
            self.ctx.count("scaled_operands")
        if rebuilt:
            r2 = random.Random()
            r2.setstate(state)
            operand = self.operand(ht, rng=r2, **okw)          # the same lazy state / fusion recipe on the new values
        self.count_operand(ht, operand)
        return ht, operand, left, right

    def count_axis(self, *axs_defaults):
        for ax, default in axs_defaults:
            if ax < 0:
                self.ctx.count("negative_axis_args")
            if ax != default:
                self.ctx.count("axis_not_default")

    def count_call(self, op, operand, factors):
        """Reach counters per decomposition: pending 3-cycles on the operand; negative axis arguments per position on the factors."""
        c = self.ctx
        c.count("input_unchanged_checked")
        changed = operand.input_changed()
        if changed:
            c.violation(f"{op}:input-changed", f"{op}: the factors are to reproduce the input the caller holds, but after the call the "
                        f"{changed}", {"op": op, "sym": self.sym, "operand": operand.info, "tensor": operand.ht.desc()})
        if F.pending_noninvolutive(operand.y):
            c.count(f"lazy_3cycle:{op}")
            if self.uniform_legs:
                c.count(f"lazy_3cycle_identical_legs:{op}")
        for x, ax in factors:
            if ax < 0:
                c.count(f"negaxis:{op}:{max(ax, -4)}")
                if ax == -x.ndim:
                    c.count(f"negaxis_full_range:{op}")
                if any(l.is_fused() for l in x.get_legs()):
                    c.count(f"negaxis_fused_factor:{op}")

    def sample(self, op, ht, operand, params):
        return {"op": op, "sym": self.sym, "params": params, "tensor": ht.desc(), "operand": operand.info,
                "tops": [list(t) for t in operand.tops]}


def wit(E, op, ht, operand, params, **extra):
    d = {"op": op, "sym": E.sym, "params": params, "tensor": ht.desc(values=ht.size() <= 200), "operand": operand.info,
         "tops": [list(t) for t in operand.tops]}
    d.update(extra)
    return d


# ------------------------------------------------------------------ oracle pieces

def safe_leg(x, axis):
    """Leg of x at ``axis`` as a tuple, or None when that position holds a fused leg (so it cannot be the new leg)."""
    lg = x.get_legs(axis % x.ndim)
    if type(lg).__name__ != "Leg" or lg.is_fused():
        return None, lg
    return F.leg_tuple(lg), lg


def conj_tuple(lt):
    return (-lt[0], lt[1], lt[2])


def check_new_leg(ctx, op, name, x, axis, s_expected, ref_tuple, w):
    """Position and signature of the connecting leg of factor ``name``; ref_tuple = the leg it must equal."""
    lt, lg = safe_leg(x, axis)
    if lt is None:
        ctx.violation(f"{op}:new-leg-position:{name}", f"{op}: leg {axis} of {name} is a fused leg, not the connecting leg", w)
        return None
    if lt[0] != s_expected:
        ctx.violation(f"{op}:new-leg-signature:{name}", f"{op}: connecting leg of {name} at axis {axis} has signature {lt[0]}, expected {s_expected}", w)
        return None
    if ref_tuple is not None and lt != ref_tuple:
        ctx.violation(f"{op}:new-leg-mismatch:{name}", f"{op}: connecting leg of {name} at axis {axis} is {lt}, its partner says {ref_tuple}", w)
        return None
    return lg


def check_charge(ctx, op, name, x, expected, w):
    if tuple(x.n) != tuple(expected):
        ctx.violation(f"{op}:charge:{name}", f"{op}: {name}.n = {tuple(x.n)}, expected {tuple(expected)}", w)
        return False
    return True


def check_identity(ctx, op, name, X, w, allowed=TOL_ISO):
    """X must be the identity matrix."""
    ctx.count("isometry_checks")
    err = F.maxabs(X - np.eye(X.shape[0])) if X.size else 0.0
    if not ctx.margin(f"{op}:{name}", err, allowed):
        ctx.violation(f"{op}:not-isometric:{name}", f"{op}: {name} differs from the identity by {err:.3e} (allowed {allowed:.1e})", w)
        return False
    return True


def judged_margin(ctx, counter, name, err, allowed):
    ctx.count(counter)
    return ctx.margin(name, err, allowed)


def order_ok(vals, which, scale):
    """Documented order of a sector spectrum."""
    if len(vals) < 2:
        return True
    key = {"LM": -np.abs(vals), "SM": np.abs(vals), "LR": -np.real(vals), "SR": np.real(vals)}[which]
    return bool(np.all(np.diff(key) >= -1e-13 * max(scale, 1e-300)))


def match_multiset(a, b):
    """Largest distance in a greedy nearest matching of two complex multisets (padded with zeros)."""
    a, b = list(np.asarray(a, dtype=complex)), list(np.asarray(b, dtype=complex))
    while len(a) < len(b):
        a.append(0j)
    while len(b) < len(a):
        b.append(0j)
    worst = 0.0
    a.sort(key=lambda z: -abs(z))
    for z in a:
        j = int(np.argmin([abs(z - y) for y in b]))
        worst = max(worst, abs(z - b[j]))
        b.pop(j)
    return worst


def compare_spectra(ctx, op, S, sectors, kind, which, anorm, w):
    """Every sector of S against NumPy on the dense sector matrix (sector charge from charge conservation)."""
    got = F.diag_blocks(S)
    ok = True
    for t in sorted(set(got) | set(sectors.sec)):
        ctx.count("sector_spectra_compared")
        lib = got.get(t, np.zeros(0))
        if t in sectors.sec:
            M = sectors.matrix(t)
            if M.shape[0] != M.shape[1]:
                ctx.count("rectangular_sectors")
            if kind == "svd":
                ref = np.linalg.svd(M, compute_uv=False)
            elif kind == "eigh":
                ref = np.linalg.eigvalsh(M)
            else:
                ref = np.linalg.eigvals(M)
        else:
            ref = np.zeros(0)
        if kind == "svd":
            n = max(len(lib), len(ref))
            a_, b_ = np.zeros(n), np.zeros(n)
            a_[:len(lib)] = np.sort(np.real(lib))[::-1]
            b_[:len(ref)] = np.sort(ref)[::-1]
            err = F.maxabs(a_ - b_)
        else:
            err = match_multiset(lib, ref)
        allowed = TOL_VAL * anorm * (w.get("kappa", 1.0) if kind == "eig" else 1.0)
        if not ctx.margin(f"{op}:spectrum", err, allowed):
            ctx.violation(f"{op}:sector-spectrum", f"{op}: spectrum of sector {t} differs from NumPy by {err:.3e} (allowed {allowed:.2e}); "
                          f"library {np.asarray(lib).tolist()[:8]} reference {np.asarray(ref).tolist()[:8]}", w)
            ok = False
        if kind == "svd":
            if lib.dtype.kind != "f":
                ctx.violation(f"{op}:S-not-real", f"{op}: singular values have dtype {lib.dtype}", w)
            if np.any(lib < 0):
                ctx.violation(f"{op}:S-negative", f"{op}: negative singular value in sector {t}: {lib.tolist()[:8]}", w)
                ok = False
            if np.any(np.diff(lib) > 0):
                ctx.violation(f"{op}:S-order", f"{op}: singular values of sector {t} are not non-increasing: {lib.tolist()[:8]}", w)
                ok = False
        else:
            if kind == "eigh" and lib.dtype.kind != "f":
                ctx.violation(f"{op}:S-not-real", f"{op}: eigenvalues of a Hermitian tensor have dtype {lib.dtype}", w)
            if which is not None and not order_ok(lib, which, anorm):
                ctx.violation(f"{op}:S-order:{which}", f"{op}: eigenvalues of sector {t} are not ordered as which={which} documents: "
                              f"{np.asarray(lib).tolist()[:8]}", w)
                ok = False
    return ok


def eig_degenerate(sec, anorm):
    """True when some sector matrix of the truth has a (numerically) repeated eigenvalue."""
    for t in sec.sec:
        ev = np.linalg.eigvals(sec.matrix(t))
        if len(ev) > 1:
            gap = min(abs(ev[i] - ev[j]) for i in range(len(ev)) for j in range(i))
            if gap < 1e-6 * max(anorm, 1e-300):
                return True
    return False


def svals_dense(ctx, op, S, sU, w):
    """S as a vector in the order of its own legs; S must be diagonal with legs (-sU, sU) conjugate to each other, charge 0."""
    if not S.isdiag:
        ctx.violation(f"{op}:S-not-diagonal", f"{op}: S is not a diagonal tensor", w)
        return None
    l0, l1 = S.get_legs(0), S.get_legs(1)
    if (int(l0.s), int(l1.s)) != (-sU, sU):
        ctx.violation(f"{op}:new-leg-signature:S", f"{op}: S has signature {(l0.s, l1.s)}, expected {(-sU, sU)}", w)
        return None
    if F.leg_tuple(l0) != conj_tuple(F.leg_tuple(l1)):
        ctx.violation(f"{op}:new-leg-mismatch:S", f"{op}: the two legs of S are not conjugate to each other", w)
        return None
    Sd = S.to_numpy()
    s = np.diag(Sd).copy()
    if np.any(Sd - np.diag(s)):
        ctx.violation(f"{op}:S-not-diagonal", f"{op}: dense S has off-diagonal elements", w)
        return None
    return s


def check_usv(E, op, ht, operand, left, right, U, S, V, sU, nU, Uaxis, Vaxis, kind, which, params):
    """Common oracle of svd and eig."""
    ctx = E.ctx
    flatL, flatR = F.flat_axes(operand, left), F.flat_axes(operand, right)
    Un, Vn = (ht.n, G.zero(E.sym)) if nU else (G.zero(E.sym), ht.n)
    sec = F.Sectors(ht, flatL, flatR, sU, Un)
    anorm = F.fro(sec.M)
    w = wit(E, op, ht, operand, params)
    ok = check_charge(ctx, op, "U", U, Un, w) & check_charge(ctx, op, "V", V, Vn, w) & check_charge(ctx, op, "S", S, G.zero(E.sym), w)
    s = svals_dense(ctx, op, S, sU, w)
    if s is None:
        return False
    lt1, lt0 = F.leg_tuple(S.get_legs(1)), F.leg_tuple(S.get_legs(0))
    lu = check_new_leg(ctx, op, "U", U, Uaxis, sU, lt1, w)
    lv = check_new_leg(ctx, op, "V", V, Vaxis, -sU, lt0, w)
    if lu is None or lv is None:
        return False
    # charges of the connecting leg: by charge conservation they are the labels of the non-empty sectors of the truth
    extra = [t for t in lt1[1] if t not in sec.sec]
    if extra:
        ctx.violation(f"{op}:new-leg-charges", f"{op}: connecting leg carries charges {extra} that charge conservation "
                      f"(sum_left s t + sU t_new = {'n' if nU else '0'}) does not allow; allowed {sorted(sec.sec)}", w)
        return False
    bad, Ud, _ = F.observe_factor(U, Uaxis, [operand.tops[i] for i in left], [ht.legs[i] for i in flatL], lu)
    if bad:
        ctx.violation(f"{op}:factor-legs:U", f"{op}: U: {bad}", w)
        return False
    bad, Vd, _ = F.observe_factor(V, Vaxis, [operand.tops[i] for i in right], [ht.legs[i] for i in flatR], lv)
    if bad:
        ctx.violation(f"{op}:factor-legs:V", f"{op}: V: {bad}", w)
        return False
    Dn = len(s)
    Um = F.mat_last(Ud)
    Vm = F.mat_first(Vd)
    kappa = 1.0
    if kind == "eig":
        kappa = max(1.0, F.fro(Um) * F.fro(Vm))
        w["kappa"] = kappa
    rec = (Um * s[None, :]) @ Vm
    err = F.fro(rec - sec.M)
    allowed = TOL_REC * anorm * kappa
    if kind == "eig" and eig_degenerate(sec, anorm):
        ctx.count("eig_degenerate_reconstruction_off", int(err > allowed))
    elif not judged_margin(ctx, "reconstructions_compared", f"{op}:reconstruction", err, allowed):
        ctx.violation(f"{op}:reconstruction", f"{op}: ||U S V - a|| = {err:.3e} (allowed {allowed:.2e}, ||a|| = {anorm:.3e}) with the connecting "
                      f"leg taken at Uaxis={Uaxis}, Vaxis={Vaxis}", w)
        ok = False
    if kind == "svd":
        ok &= check_identity(ctx, op, "U^+U", Um.conj().T @ Um, w)
        ok &= check_identity(ctx, op, "VV^+", Vm @ Vm.conj().T, w)
    else:
        # bi-orthonormality is only defined up to the conditioning of the eigenvector basis; degenerate sector spectra
        # (structurally rank-deficient sectors) make the non-Hermitian eigenproblem ill-posed -> not verdict-bearing, counted
        degenerate = eig_degenerate(sec, anorm)
        ctx.count("eig_degenerate_sector_inputs" if degenerate else "eig_biorthonormal_checked")
        X = Vm @ Um
        err = F.maxabs(X - np.eye(Dn)) if Dn else 0.0
        allowed = 1e-11 * kappa ** 2
        if degenerate:
            ctx.count("eig_degenerate_not_biorthonormal", int(err > allowed))
        elif not ctx.margin("eig:VU", err, allowed):
            ctx.violation("eig:not-biorthonormal", f"eig: V U differs from the identity by {err:.3e} (allowed {allowed:.2e})", w)
            ok = False
    ok &= compare_spectra(ctx, op, S, sec, kind, which, anorm, w)
    return ok


# ------------------------------------------------------------------ svd

def op_svd(E):
    import yastn
    ctx, rng = E.ctx, E.rng
    variant = rng.choice(("full", "full", "full", "fix_signs", "fix_signs", "compute_uv_false", "defaults", "pure_defaults"))
    if variant == "pure_defaults":
        # svd(a) on a matrix: axes, sU, nU, Uaxis, Vaxis all omitted
        ht, operand, left, right = E.split_operand(rank=2, split=((0,), (1,)), fusion="none")
        variant = "defaults"
        ctx.count("pure_defaults:svd")
    else:
        ht, operand, left, right = E.split_operand()
    axes = F.axes_arg(rng, left, right)
    sU, nU = rng.choice((1, -1)), rng.choice((True, False))
    Uaxis, Vaxis = F.rand_axis(rng, len(left) + 1), F.rand_axis(rng, len(right) + 1)
    if rng.random() < 0.15:
        Uaxis, Vaxis = -1, 0
    kw = {"axes": axes, "sU": sU, "nU": nU, "Uaxis": Uaxis, "Vaxis": Vaxis}
    if variant == "defaults":
        # documented defaults: sU=1, nU=True, Uaxis=-1, Vaxis=0 (and axes=(0, 1) for a matrix)
        sU, nU, Uaxis, Vaxis = 1, True, -1, 0
        kw = {"axes": axes}
        if operand.nlegs == 2 and (left, right) == ((0,), (1,)):
            kw = {}
    if variant == "fix_signs":
        kw["fix_signs"] = True
    params = {k: (v if k != "axes" else [list(left), list(right)]) for k, v in kw.items()}
    params["variant"] = variant
    E.count_axis((Uaxis, -1), (Vaxis, 0))
    ctx.count("nU_false", int(not nU))
    ctx.count("sU_minus", int(sU == -1))
    fn = (lambda **k: operand.y.svd(**k)) if rng.random() < 0.3 else (lambda **k: yastn.svd(operand.y, **k))
    U, S, V = fn(**kw)
    E.count_call("svd", operand, ((U, Uaxis), (V, Vaxis)))
    ok = check_usv(E, "svd", ht, operand, left, right, U, S, V, sU, nU, Uaxis, Vaxis, "svd", None, params)
    w = wit(E, "svd", ht, operand, params)
    if variant == "fix_signs" and ok:
        lu = U.get_legs(Uaxis % U.ndim)
        _, Ud, _ = F.observe_factor(U, Uaxis, [operand.tops[i] for i in left], [ht.legs[i] for i in F.flat_axes(operand, left)], lu)
        Um = F.mat_last(Ud)
        for k in range(Um.shape[1]):
            col = Um[:, k]
            m = np.max(np.abs(col))
            cand = col[np.abs(col) >= m * (1 - 1e-9)]
            ctx.count("fix_signs_columns")
            if not np.any((np.real(cand) > 0) & (np.abs(np.imag(cand)) <= 1e-12 * m)):
                ctx.violation("svd:fix_signs", f"svd(fix_signs=True): the largest element of column {k} of U is {cand.tolist()[:3]}, "
                              "documented to be positive", w)
                break
    if variant == "compute_uv_false":
        S2 = yastn.svd(operand.y, compute_uv=False, **kw)
        ctx.count("compute_uv_false")
        if not isinstance(S2, yastn.Tensor):
            ctx.violation("svd:compute_uv_false:type", f"svd(compute_uv=False) returned {type(S2).__name__}", w)
        else:
            flatL, flatR = F.flat_axes(operand, left), F.flat_axes(operand, right)
            sec = F.Sectors(ht, flatL, flatR, sU, ht.n if nU else G.zero(E.sym))
            if svals_dense(ctx, "svd:compute_uv_false", S2, sU, w) is not None:
                check_charge(ctx, "svd:compute_uv_false", "S", S2, G.zero(E.sym), w)
                compare_spectra(ctx, "svd:compute_uv_false", S2, sec, "svd", None, F.fro(sec.M), w)
                if F.leg_tuple(S2.get_legs(0)) != F.leg_tuple(S.get_legs(0)):
                    ctx.violation("svd:compute_uv_false:legs", "svd(compute_uv=False) returns S over other legs than svd()", w)
    ctx.count("op:svd")
    ctx.count("svd:" + variant)
    ctx.case(("svd", operand.sig(), left, right, sU, nU, Uaxis, Vaxis, variant), bool(ht.blocks),
             E.sample("svd", ht, operand, params))


# ------------------------------------------------------------------ qr

def harness_column_order(ht, flatR, sym, n_R=None):
    """Columns of the merged matrix per column charge: lexicographic in the leg charges of stored combinations, row-major inside.

    returns {column charge cR: flat column indices (row-major multi-index over flatR)}"""
    legsR = [ht.legs[i] for i in flatR]
    dims = tuple(l.dim for l in legsR)
    combos = sorted({tuple(key[i] for i in flatR) for key in ht.blocks})
    out = {}
    for combo in combos:
        cR = G.add(sym, combo, tuple(l.s for l in legsR))
        rngs = [range(*l.offsets()[t]) for l, t in zip(legsR, combo)]
        grid = np.meshgrid(*[np.array(r, dtype=np.int64) for r in rngs], indexing="ij")
        flat = np.ravel_multi_index([g.ravel() for g in grid], dims) if dims else np.zeros(1, dtype=np.int64)
        out.setdefault(cR, []).extend(flat.tolist())
    return {c: np.array(v, dtype=np.int64) for c, v in out.items()}


def upper_triangular(ctx, op, blk, tol, where, w):
    """Zero strict lower triangle, real non-negative diagonal."""
    low = F.maxabs(np.tril(blk, -1))
    d = np.diagonal(blk)
    ctx.margin(f"{op}:R-lower-triangle", low, tol)
    if low > tol:
        ctx.violation(f"{op}:R-not-upper-triangular", f"{op}: {where}: strict lower triangle of R has magnitude {low:.3e} (allowed {tol:.1e})", w)
        return False
    if d.size and (np.min(np.real(d)) < -tol or F.maxabs(np.imag(d)) > tol):
        ctx.violation(f"{op}:R-diagonal-sign", f"{op}: {where}: diagonal of R is not real non-negative: {d.tolist()[:6]}", w)
        return False
    return True


def op_qr(E):
    import yastn
    ctx, rng = E.ctx, E.rng
    pure = rng.random() < 0.08
    if pure:
        ht, operand, left, right = E.split_operand(rank=2, split=((0,), (1,)), fusion="none")
    else:
        ht, operand, left, right = E.split_operand()
    axes = F.axes_arg(rng, left, right)
    sQ = rng.choice((1, -1))
    Qaxis, Raxis = F.rand_axis(rng, len(left) + 1), F.rand_axis(rng, len(right) + 1)
    if rng.random() < 0.15:
        Qaxis, Raxis = -1, 0
    kw = {"axes": axes, "sQ": sQ, "Qaxis": Qaxis, "Raxis": Raxis}
    if rng.random() < 0.1:
        sQ, Qaxis, Raxis = 1, -1, 0
        kw = {"axes": axes}
    if pure:
        sQ, Qaxis, Raxis = 1, -1, 0
        kw = {}                      # qr(a): every optional argument omitted
        ctx.count("pure_defaults:qr")
    params = {k: (v if k != "axes" else [list(left), list(right)]) for k, v in kw.items()}
    E.count_axis((Qaxis, -1), (Raxis, 0))
    ctx.count("sU_minus", int(sQ == -1))
    Q, R = operand.y.qr(**kw) if rng.random() < 0.3 else yastn.qr(operand.y, **kw)
    E.count_call("qr", operand, ((Q, Qaxis), (R, Raxis)))
    w = wit(E, "qr", ht, operand, params)
    flatL, flatR = F.flat_axes(operand, left), F.flat_axes(operand, right)
    sec = F.Sectors(ht, flatL, flatR, sQ, ht.n)
    anorm = F.fro(sec.M)
    ok = check_charge(ctx, "qr", "Q", Q, ht.n, w) & check_charge(ctx, "qr", "R", R, G.zero(E.sym), w)
    lq = check_new_leg(ctx, "qr", "Q", Q, Qaxis, sQ, None, w)
    lr = None if lq is None else check_new_leg(ctx, "qr", "R", R, Raxis, -sQ, conj_tuple(F.leg_tuple(lq)), w)
    if lq is not None and lr is not None:
        extra = [t for t in F.leg_tuple(lq)[1] if t not in sec.sec]
        if extra:
            ctx.violation("qr:new-leg-charges", f"qr: connecting leg carries charges {extra}; charge conservation with Q.n = a.n allows {sorted(sec.sec)}", w)
            lq = None
    if lq is not None and lr is not None:
        bad, Qd, _ = F.observe_factor(Q, Qaxis, [operand.tops[i] for i in left], [ht.legs[i] for i in flatL], lq)
        bad2, Rd, _ = F.observe_factor(R, Raxis, [operand.tops[i] for i in right], [ht.legs[i] for i in flatR], lr)
        if bad or bad2:
            ctx.violation("qr:factor-legs:" + ("Q" if bad else "R"), f"qr: {bad or bad2}", w)
        else:
            Dn = Qd.shape[-1]
            Qm = F.mat_last(Qd)
            Rm = F.mat_first(Rd)
            ctx.count("reconstructions_compared")
            err = F.fro(Qm @ Rm - sec.M)
            if not ctx.margin("qr:reconstruction", err, TOL_REC * anorm):
                ctx.violation("qr:reconstruction", f"qr: ||Q R - a|| = {err:.3e} (allowed {TOL_REC * anorm:.2e}) with the connecting leg at "
                              f"Qaxis={Qaxis}, Raxis={Raxis}", w)
            check_identity(ctx, "qr", "Q^+Q", Qm.conj().T @ Qm, w)
            for t, (r, c) in sec.sec.items():
                ctx.count("rectangular_sectors", int(len(r) != len(c)))
            # ---- R upper triangular: (1) in the column order of the library's own hard fusion of the column legs
            tol = 1e-12 * max(anorm, 1e-300)
            R0 = R.moveaxis(source=Raxis, destination=0)
            while any(type(l).__name__ == "LegMeta" for l in R0.get_legs()):
                R0 = R0.unfuse_legs(axes=tuple(i for i, l in enumerate(R0.get_legs()) if type(l).__name__ == "LegMeta"))
            Rf = R0.fuse_legs(axes=(0, tuple(range(1, R0.ndim))), mode="hard") if R0.ndim > 2 else R0
            l0, l1 = Rf.get_legs(0), Rf.get_legs(1)
            for t0 in l0.t:
                for t1 in l1.t:
                    key = tuple(t0) + tuple(t1)
                    if key in Rf:
                        ctx.count("R_blocks_triangular_checked")
                        if not upper_triangular(ctx, "qr", np.asarray(Rf[key]), tol, f"sector {tuple(t0)} (library fusion order)", w):
                            break
            # ---- (2) the same enumeration recomputed by the harness (no hard-fused legs among the columns)
            if not any(mode == "hard" for mode, _ in operand.info["fusion"]):
                cols = harness_column_order(ht, flatR, E.sym)
                offs = dict(zip(F.leg_tuple(lq)[1], np.cumsum((0,) + F.leg_tuple(lq)[2])))
                for t, Dt in zip(F.leg_tuple(lq)[1], F.leg_tuple(lq)[2]):
                    cR = G.add(E.sym, (t,), (sQ,))       # -sQ t + cR = 0
                    if cR not in cols:
                        ctx.violation("qr:new-leg-charges", f"qr: sector {t} of the connecting leg has no columns", w)
                        continue
                    blk = Rm[offs[t]:offs[t] + Dt][:, cols[cR]]
                    ctx.count("R_harness_order_checked")
                    upper_triangular(ctx, "qr", blk, tol, f"sector {t} (harness column order)", w)
    ctx.count("op:qr")
    ctx.case(("qr", operand.sig(), left, right, sQ, Qaxis, Raxis), bool(ht.blocks), E.sample("qr", ht, operand, params))


# ------------------------------------------------------------------ eigh / eig

def square_tensor(E, kind, k=None, scale=True):
    """Tensor over legs (L, conj L) of charge 0 with symmetric block support; 'herm' = b + b^H, 'psd' = b b^H, 'gen' = general."""
    rng = E.rng
    k = k or rng.choice((1, 1, 2, 2, 3) if E.thorough else (1, 1, 2, 2))
    small = k >= 3
    L = [D.gen_leg(rng, E.sym, nsec=(1, 2) if small else (1, 3), dmax=2 if small else 3) for _ in range(k)]
    if k >= 2 and rng.random() < 0.15:
        L = [D.HLeg(E.sym, rng.choice((1, -1)), L[0].sectors) for _ in range(k)]     # identical sector structure on all pairs
        E.uniform_legs = True
    legs = L + [l.conj() for l in L]
    dt = rng.choice(("float64", "complex128"))
    dens = rng.choice((1.0, 1.0, 0.7, 0.5))
    b = D.gen_tensor(rng, E.nprng, E.sym, legs=legs, n=G.zero(E.sym), dtype=dt, density=dens)
    sw = list(range(k, 2 * k)) + list(range(k))
    # herm: b + b^H (exactly Hermitian in floating point);  gen: b + c^H with c an independent tensor of the same support
    other = b if kind == "herm" else b.map_values(lambda v: D.rand_block(E.nprng, v.shape, dt), dt)
    oH = other.permute(sw).conj()
    blocks = {}
    for key in set(b.blocks) | set(oH.blocks):
        x, y = b.blocks.get(key), oH.blocks.get(key)
        blocks[key] = (x + y) if (x is not None and y is not None) else (x if x is not None else y).copy()
    h = D.HTensor(E.sym, legs, G.zero(E.sym), blocks, dt)
    c = F.draw_scale(rng) if scale else 1.0
    if c != 1.0 and blocks:
        h = F.scaled(h, c)
        E.ctx.count("scaled_operands")
    return h, k


def natural_matrix(operand, left, right):
    """Rank-2 operand brought (by a lazy transpose if needed) to leg order (row, column), so that the default axes=(0, 1) apply."""
    if (left, right) != ((0,), (1,)):
        operand.y, operand.tops, operand.info["post"] = operand.y.transpose((1, 0)), operand.tops[::-1], "lazy"
    return operand, (0,), (1,)


def hide_pairs(E, h, k):
    """Random permutation of the 2k legs; returns the permuted tensor and the native positions of (L_i) and (conj L_i)."""
    q = list(range(2 * k))
    E.rng.shuffle(q)
    hp = h.permute(q)
    order = list(range(k))
    E.rng.shuffle(order)
    posL = [q.index(i) for i in order]
    posR = [q.index(k + i) for i in order]
    return hp, posL, posR


def _to_hard(tree):
    return tree if isinstance(tree, int) else ("h", tuple(_to_hard(c) for c in tree[1]))


def _hard_structure(trees):
    """Native (hard) leg structure of one side: meta nodes are only syntax and are flattened away."""
    out = []
    for t in trees:
        if isinstance(t, int) or t[0] == "h":
            out.append(t)
        else:
            out.extend(_hard_structure(t[1]))
    return tuple(out)


def asym_fusion(rng, y, posL, posR):
    """Row and column legs fused DIFFERENTLY.  Optional prelude: the same hard fusion on both sides; then 1-3 steps, each
    regrouping the (current) legs of ONE side, meta or hard, possibly nested.  The flattened native order of the two sides stays
    (L_i), (conj L_i), so sector matrices stay square.  A hard step turns all earlier meta fusions into (nested) hard ones.
    returns (y, tops, number of row legs, levels, hard_symmetric) - hard_symmetric: the native hard-fused legs of the two sides
    have the same fusion trees, i.e. the column legs are the conjugates of the row legs as yastn legs."""
    k = len(posL)
    tops = [(p,) for p in posL] + [(p,) for p in posR]
    trees = list(range(k)) + list(range(k))
    nL = k
    cur = [t[0] for t in tops]            # leg indices of y for the first call (also permutes the native legs)
    levels = []

    def fuse(groups, mode, tag):
        nonlocal y, tops, trees, cur
        arg = tuple(tuple(cur[i] for i in g) if len(g) > 1 else cur[g[0]] for g in groups)
        y = y.fuse_legs(axes=arg, mode=mode)
        tops = [sum((tops[i] for i in g), ()) for g in groups]
        trees = [trees[g[0]] if len(g) == 1 else (mode[0], tuple(trees[i] for i in g)) for g in groups]
        if mode == "hard":
            trees = [_to_hard(t) for t in trees]
        cur = list(range(len(tops)))
        levels.append((mode, tag, tuple(tops)))

    if k >= 2 and rng.random() < 0.4:
        ng = rng.randint(1, k - 1)
        gs = F._split(rng, list(range(k)), ng) if ng > 1 else [tuple(range(k))]
        fuse(list(gs) + [tuple(i + k for i in g) for g in gs], "hard", "both")
        nL = len(gs)
    for _ in range(rng.randint(1, 3)):
        side = rng.choice("LR")
        lo, hi = (0, nL) if side == "L" else (nL, len(tops))
        if hi - lo < 2:
            continue
        ng = rng.randint(1, hi - lo - 1)
        gs = F._split(rng, list(range(lo, hi)), ng) if ng > 1 else [tuple(range(lo, hi))]
        fuse([(i,) for i in range(lo)] + list(gs) + [(i,) for i in range(hi, len(tops))], rng.choice(("meta", "meta", "meta", "hard")), side)
        if side == "L":
            nL = len(gs)
    sym = _hard_structure(trees[:nL]) == _hard_structure(trees[nL:])
    return y, tops, nL, levels, sym


def paired_operand(E, hp, posL, posR, count=True, asym=False):
    """Operand over legs (L_i), (conj L_i): fused the same way on both sides, or (asym) differently on the two sides."""
    rng = E.rng
    y, st = F.realize(hp, rng, E.cfg)
    k = len(posL)
    levels = []
    fusion = rng.choice(("none", "none", "meta", "hard")) if k >= 2 else "none"
    if asym and k >= 2 and rng.random() < 0.6:
        y, tops, nL, levels, hard_sym = asym_fusion(rng, y, posL, posR)
        fusion = "asym" if levels else "none"
        left, right = tuple(range(nL)), tuple(range(nL, len(tops)))
    if fusion == "asym":
        pass
    elif fusion != "none":
        # fuse matching groups of the left and of the right legs: y legs become (gL1, gL2, ..., gR1, gR2, ...)
        m = rng.randint(1, k - 1) if k > 2 else 1
        groups = F._split(rng, list(range(k)), m) if m > 1 else [tuple(range(k))]
        gl = [tuple(posL[i] for i in g) for g in groups]
        gr = [tuple(posR[i] for i in g) for g in groups]
        arg = tuple(g if len(g) > 1 else g[0] for g in gl + gr)
        y = y.fuse_legs(axes=arg, mode=fusion)
        tops = gl + gr
        left, right = tuple(range(len(gl))), tuple(range(len(gl), 2 * len(gl)))
        levels.append((fusion, tuple(gl + gr)))
    else:
        tops = [(i,) for i in range(2 * k)]
        left, right = tuple(posL), tuple(posR)
    post = "none"
    if rng.random() < 0.4:
        q = list(range(len(tops)))
        rng.shuffle(q)
        y = y.transpose(tuple(q))
        tops = [tops[i] for i in q]
        left, right = tuple(q.index(i) for i in left), tuple(q.index(i) for i in right)
        post = rng.choice(("lazy", "lazy", "consumed", "copy"))
        y = y.consume_transpose() if post == "consumed" else (y.copy() if post == "copy" else y)
    op = F.Operand(hp, y, tops, {"state": st, "fusion": levels, "post": post})
    op.info["asym"] = fusion == "asym"
    op.info["hard_symmetric"] = hard_sym if fusion == "asym" else True
    if count:
        count_paired(E, hp, op)
    return op, left, right


def call_square(ctx, operand, fn):
    """eig / eigh on an operand whose two sides may be fused differently.

    Verdict-bearing: the native (hard-fused) legs of the column side are the conjugates of those of the row side, fusion trees
    included; meta fusion on top may differ freely.  When the HARD fusion trees differ (e.g. ((a,b),c) against (a*,b*,c*)) the
    column legs are not the conjugate legs in yastn's sense, a = U S U^+ cannot even be written with matching legs, and the
    docstrings promise nothing: the library sometimes refuses ('Legs of effective square blocks do not match'), sometimes
    decomposes the matrix taken in two differently ordered bases.  Those inputs are exercised, the outcome counted, not judged."""
    if operand.info.get("hard_symmetric", True):
        return fn()
    try:
        fn()
        ctx.count("unjudged:hard_fusion_trees_differ:accepted")
    except Exception as e:
        if type(e).__name__ != "YastnError" or "square blocks do not match" not in str(e):
            raise
        ctx.count("unjudged:hard_fusion_trees_differ:refused")
    return None


def count_paired(E, hp, op):
    c = E.ctx
    if op.info["state"] != "plain" or op.info["post"] != "none":
        c.count("lazy_operands")
    if op.info["fusion"]:
        c.count("fused_operands")
        for lv in op.info["fusion"]:
            c.count("fused_" + lv[0])
        if op.info.get("asym") and op.info["hard_symmetric"] and any(lv[1] in ("L", "R") for lv in op.info["fusion"]):
            c.count("sides_fused_differently")
            c.count("sides_fused_differently:" + "+".join(sorted({lv[0] for lv in op.info["fusion"]})))
    if "complex" in hp.dtype:
        c.count("complex_operands")


def op_eigh(E):
    import yastn
    ctx, rng = E.ctx, E.rng
    import random
    kind = rng.choice(("herm", "herm", "herm", "designed", "psd"))
    h, k = square_tensor(E, "herm", scale=False)
    hp, posL, posR = hide_pairs(E, h, k)
    state = rng.getstate()
    operand, left, right = paired_operand(E, hp, posL, posR, count=False, asym=True)
    c = F.draw_scale(rng)
    if (kind != "herm" or c != 1.0) and hp.blocks:
        flatL, flatR = F.flat_axes(operand, left), F.flat_axes(operand, right)
        if kind != "herm":
            hp = F.square_psd(hp, flatL, flatR) if kind == "psd" else F.redesign_eigh(rng, hp, flatL, flatR, False)
        if c != 1.0:
            hp = F.scaled(hp, c)          # after squaring / designing: the harness itself must not overflow
            ctx.count("scaled_operands")
        E.rng = random.Random()
        E.rng.setstate(state)
        operand, left, right = paired_operand(E, hp, posL, posR, count=False, asym=True)
        E.rng = rng
        ctx.count("designed_spectrum", int(kind == "designed"))
    count_paired(E, hp, operand)
    axes = F.axes_arg(rng, left, right)
    sU, which = rng.choice((1, -1)), rng.choice(("SR", "LR", "LM", "SM"))
    Uaxis = F.rand_axis(rng, len(left) + 1)
    kw = {"axes": axes, "sU": sU, "Uaxis": Uaxis, "which": which}
    if rng.random() < 0.1:
        sU, Uaxis = 1, -1
        kw = {"axes": axes, "which": which}
    if rng.random() < 0.08:
        # eigh(a, axes): every optional argument omitted.  The order of S is not judged then: the signature default is which='LR'
        # while the docstring marks 'SR' as the default
        sU, Uaxis, which = 1, -1, None
        kw = {"axes": axes}
        ctx.count("pure_defaults:eigh")
    params = {kk: (v if kk != "axes" else [list(left), list(right)]) for kk, v in kw.items()}
    E.count_axis((Uaxis, -1))
    ctx.count("sU_minus", int(sU == -1))
    ctx.count("which:" + str(which))
    method = rng.random() < 0.3
    res = call_square(ctx, operand, lambda: operand.y.eigh(**kw) if method else yastn.eigh(operand.y, **kw))
    if res is None:
        ctx.count("op:eigh")
        ctx.case(("eigh-refused", operand.sig()), False)
        return
    S, U = res
    E.count_call("eigh", operand, ((U, Uaxis),))
    w = wit(E, "eigh", hp, operand, params)
    flatL, flatR = F.flat_axes(operand, left), F.flat_axes(operand, right)
    n0 = G.zero(E.sym)
    sec = F.Sectors(hp, flatL, flatR, sU, n0)
    anorm = F.fro(sec.M)
    check_charge(ctx, "eigh", "U", U, n0, w)
    check_charge(ctx, "eigh", "S", S, n0, w)
    s = svals_dense(ctx, "eigh", S, sU, w)
    if s is not None:
        lu = check_new_leg(ctx, "eigh", "U", U, Uaxis, sU, F.leg_tuple(S.get_legs(1)), w)
        extra = [t for t in F.leg_tuple(S.get_legs(1))[1] if t not in sec.sec]
        if extra:
            ctx.violation("eigh:new-leg-charges", f"eigh: connecting leg carries charges {extra}; allowed {sorted(sec.sec)}", w)
            lu = None
        if lu is not None:
            bad, Ud, _ = F.observe_factor(U, Uaxis, [operand.tops[i] for i in left], [hp.legs[i] for i in flatL], lu)
            if bad:
                ctx.violation("eigh:factor-legs:U", f"eigh: U: {bad}", w)
            else:
                Um = F.mat_last(Ud)
                ctx.count("reconstructions_compared")
                err = F.fro((Um * s[None, :]) @ Um.conj().T - sec.M)
                if not ctx.margin("eigh:reconstruction", err, TOL_REC_EIGH * anorm):
                    ctx.violation("eigh:reconstruction", f"eigh: ||U S U^+ - a|| = {err:.3e} (allowed {TOL_REC_EIGH * anorm:.2e}), connecting leg at "
                                  f"Uaxis={Uaxis}", w)
                check_identity(ctx, "eigh", "U^+U", Um.conj().T @ Um, w, TOL_ISO_EIGH)
                compare_spectra(ctx, "eigh", S, sec, "eigh", which, anorm, w)
    ctx.count("op:eigh")
    ctx.case(("eigh", operand.sig(), left, right, sU, Uaxis, which), bool(hp.blocks), E.sample("eigh", hp, operand, params))


def op_eig(E):
    import yastn
    ctx, rng = E.ctx, E.rng
    pure = rng.random() < 0.08
    h, k = square_tensor(E, "gen", k=1 if pure else None)
    if rng.random() < 0.2 and h.blocks:
        # non-normal input: diagonal similarity with factors 1/32, 1, 32 (eigenvector condition number up to ~1e3)
        h = F.similarity_scale(rng, h, k)
        ctx.count("eig_nonnormal_scaled_inputs")
    hp, posL, posR = hide_pairs(E, h, k)
    operand, left, right = paired_operand(E, hp, posL, posR, asym=True)
    axes = F.axes_arg(rng, left, right)
    sU, nU, which = rng.choice((1, -1)), rng.choice((True, False)), rng.choice(("SR", "LR", "LM", "SM"))
    Uaxis, Vaxis = F.rand_axis(rng, len(left) + 1), F.rand_axis(rng, len(right) + 1)
    kw = {"axes": axes, "sU": sU, "nU": nU, "Uaxis": Uaxis, "Vaxis": Vaxis, "which": which}
    if pure:
        # eig(a) on a matrix: axes=(0, 1), sU=1, nU=True, Uaxis=-1, Vaxis=0, which='LM' are the documented defaults
        operand, left, right = natural_matrix(operand, left, right)
        sU, nU, Uaxis, Vaxis, which = 1, True, -1, 0, "LM"
        kw = {}
        ctx.count("pure_defaults:eig")
    params = {kk: (v if kk != "axes" else [list(left), list(right)]) for kk, v in kw.items()}
    E.count_axis((Uaxis, -1), (Vaxis, 0))
    ctx.count("sU_minus", int(sU == -1))
    ctx.count("nU_false", int(not nU))
    ctx.count("which:" + which)
    method = rng.random() < 0.3
    sec0 = F.Sectors(hp, F.flat_axes(operand, left), F.flat_axes(operand, right), sU, G.zero(E.sym))
    if eig_degenerate(sec0, F.fro(sec0.M)):
        # repeated eigenvalues of a non-Hermitian sector: LAPACK may return dependent eigenvectors and the library then gives
        # up with ValueError; not in the verdict-bearing domain (see ASSUMPTIONS), the outcome is counted
        try:
            res = call_square(ctx, operand, lambda: operand.y.eig(**kw) if method else yastn.eig(operand.y, **kw))
        except ValueError as e:
            if "Biorthonormalization" not in str(e):
                raise
            ctx.count("eig_degenerate_raised_ValueError")
            ctx.count("op:eig")
            ctx.case(("eig-degenerate-rejected", operand.sig()), False)
            return
    else:
        try:
            res = call_square(ctx, operand, lambda: operand.y.eig(**kw) if method else yastn.eig(operand.y, **kw))
        except ValueError as e:
            if "Biorthonormalization" not in str(e):
                raise
            # valid, non-degenerate input rejected by the backend's own self-check (absolute 1e-14 / 1e-12 on a quantity whose
            # rounding error grows like eps / |v_j^H u_j|)
            import scipy.linalg
            worst = {}
            for t in sec0.sec:
                ev, vl, vr = scipy.linalg.eig(sec0.matrix(t), left=True, right=True)
                d = np.abs(np.sum(vl.conj() * vr, axis=0))
                if not worst or d.min() < worst["min_overlap"]:
                    worst = {"sector": t, "min_overlap": float(d.min()), "cond_eigvec": float(np.linalg.cond(vr)), "matrix": sec0.matrix(t)}
            ctx.violation("eig:raises-ValueError:biorthonormalization-self-check",
                          f"eig raised ValueError({e}) on a non-degenerate input (smallest left/right overlap {worst.get('min_overlap'):.2e}, "
                          f"eigenvector condition number {worst.get('cond_eigvec'):.1f})", wit(E, "eig", hp, operand, params, worst=worst))
            ctx.count("op:eig")
            ctx.case(("eig-rejected", operand.sig()), False)
            return
    if res is None:
        ctx.count("op:eig")
        ctx.case(("eig-refused", operand.sig()), False)
        return
    U, S, V = res
    E.count_call("eig", operand, ((U, Uaxis), (V, Vaxis)))
    check_usv(E, "eig", hp, operand, left, right, U, S, V, sU, nU, Uaxis, Vaxis, "eig", which, params)
    if rng.random() < 0.3:
        w = wit(E, "eig", hp, operand, params)
        S2 = yastn.eig(operand.y, compute_uv=False, **kw)
        ctx.count("compute_uv_false")
        flatL, flatR = F.flat_axes(operand, left), F.flat_axes(operand, right)
        sec = F.Sectors(hp, flatL, flatR, sU, G.zero(E.sym))
        if isinstance(S2, yastn.Tensor) and svals_dense(ctx, "eig:compute_uv_false", S2, sU, w) is not None:
            w["kappa"] = 1e3
            compare_spectra(ctx, "eig:compute_uv_false", S2, sec, "eig", which, F.fro(sec.M), w)
        elif not isinstance(S2, yastn.Tensor):
            ctx.violation("eig:compute_uv_false:type", f"eig(compute_uv=False) returned {type(S2).__name__}", w)
    ctx.count("op:eig")
    ctx.case(("eig", operand.sig(), left, right, sU, nU, Uaxis, Vaxis, which), bool(hp.blocks), E.sample("eig", hp, operand, params))


# A non-degenerate real 3x3 matrix (eigenvalues 2.51, -1.4346 +- 0.00286j; eigenvector condition number 6e2) found by the
# thorough tier (seed 0): kept as a directed witness so that the mechanism 'eig:raises-ValueError:biorthonormalization-self-check'
# is exercised deterministically in every run (random generation hits it about once in 3e4 eig cases).
ILL_CONDITIONED_3x3 = [[1.9618496316644225, -0.5183904134915305, -1.8301511393252996],
                       [1.1370133248433514, -0.7544725759266235, -0.08253371956116685],
                       [-1.245938469862127, -1.0996626101845752, -1.564222419944967]]


def probe_eig_ill_conditioned(ctx, idx):
    import yastn
    E = Env(ctx, idx, "dense")
    leg = D.HLeg("dense", 1, [((), 3)])
    ht = D.HTensor("dense", (leg, leg.conj()), (), {((), ()): np.array(ILL_CONDITIONED_3x3)}, "float64")
    operand = F.Operand(ht, ht.to_yastn(E.cfg), [(0,), (1,)], {"state": "plain", "fusion": [], "post": "none"})
    params = {"axes": [[0], [1]], "sU": 1, "nU": True, "Uaxis": -1, "Vaxis": 0, "which": "LM", "directed": True}
    ctx.count("eig_directed_ill_conditioned")
    try:
        U, S, V = yastn.eig(operand.y, axes=(0, 1))
    except ValueError as e:
        if "Biorthonormalization" not in str(e):
            raise
        ctx.violation("eig:raises-ValueError:biorthonormalization-self-check",
                      f"eig raised ValueError({e}) on the directed non-degenerate 3x3 witness (eigenvalues 2.51, -1.4346+-0.00286j; smallest "
                      "left/right overlap 3.4e-3, eigenvector condition number 592)", wit(E, "eig", ht, operand, params))
        return
    check_usv(E, "eig", ht, operand, (0,), (1,), U, S, V, 1, True, -1, 0, "eig", "LM", params)


OPS = [op_svd, op_qr, op_eigh, op_svd, op_eig, op_svd, op_qr, op_eigh]


def run_case(ctx, idx):
    sym = G.ALL_SYMS[idx % len(G.ALL_SYMS)]
    op = OPS[(idx // len(G.ALL_SYMS)) % len(OPS)]
    op(Env(ctx, idx, sym))
    if idx == 0:
        probe_eig_ill_conditioned(ctx, idx)


# ------------------------------------------------------------------ canaries

def canaries(ctx):
    """Corrupted observations of a correct svd / qr must fire the corresponding clause."""
    import random
    import yastn
    sub = type(ctx)(ctx.prop, ctx.tier, ctx.seed)
    sub.idx = "canary"
    E = Env(sub, "canary", "U1")
    rng, nprng = random.Random(5), np.random.default_rng(5)
    legs = [D.HLeg("U1", 1, [((0,), 2), ((1,), 3)]), D.HLeg("U1", 1, [((-1,), 2), ((0,), 2)]), D.HLeg("U1", -1, [((0,), 3), ((1,), 2), ((2,), 1)])]
    ht = D.gen_tensor(rng, nprng, "U1", legs=legs, n=(1,), dtype="float64", density=1.0)
    operand = F.make_operand(rng, ht, E.cfg, fusion="none", state="plain")
    operand.y, operand.tops, operand.info["post"] = ht.to_yastn(E.cfg), [(0,), (1,), (2,)], "none"
    left, right = (0, 1), (2,)
    U, S, V = yastn.svd(operand.y, axes=(left, right), sU=1, nU=True, Uaxis=1, Vaxis=0)

    def fired(prefix):
        r = any(v["key"].startswith(prefix) for v in sub.violations)
        sub.violations.clear()
        return r
    ok = check_usv(E, "svd", ht, operand, left, right, U, S, V, 1, True, 1, 0, "svd", None, {})
    ctx.canary("clean-svd-passes", ok and not sub.violations)
    U2 = U.copy()
    U2._data[0] *= 1.0 + 1e-8
    check_usv(E, "svd", ht, operand, left, right, U2, S, V, 1, True, 1, 0, "svd", None, {})
    ctx.canary("corrupted-U-element", fired("svd:reconstruction") or fired("svd:not-isometric"))
    check_usv(E, "svd", ht, operand, left, right, U, S, V, 1, True, 2, 0, "svd", None, {})           # wrong claimed Uaxis
    ctx.canary("wrong-claimed-axis", len(sub.violations) > 0)
    sub.violations.clear()
    check_usv(E, "svd", ht, operand, left, right, U, S, V, 1, False, 1, 0, "svd", None, {})          # charge claimed on V
    ctx.canary("wrong-charge-owner", fired("svd:charge"))
    check_usv(E, "svd", ht, operand, left, right, U, S, V, -1, True, 1, 0, "svd", None, {})          # wrong signature
    ctx.canary("wrong-signature", fired("svd:new-leg-signature"))
    S3 = S.copy()
    S3._data[:] = S3._data[::-1].copy()
    check_usv(E, "svd", ht, operand, left, right, U, S3, V, 1, True, 1, 0, "svd", None, {})
    ctx.canary("S-disordered", len(sub.violations) > 0)
    sub.violations.clear()
    w = {}
    blk = np.triu(np.ones((3, 4)))
    ctx.canary("triangular-clean", upper_triangular(sub, "qr", blk, 1e-12, "canary", w))
    blk2 = blk.copy(); blk2[2, 1] = 1e-9
    upper_triangular(sub, "qr", blk2, 1e-12, "canary", w)
    ctx.canary("R-lower-element", fired("qr:R-not-upper-triangular"))
    blk3 = blk.copy(); blk3[1, 1] = -1.0
    upper_triangular(sub, "qr", blk3, 1e-12, "canary", w)
    ctx.canary("R-negative-diagonal", fired("qr:R-diagonal-sign"))
    # grouping of the outer legs: a meta-fused factor observed against the wrong grouping must be refused
    yf = operand.y.fuse_legs(axes=((0, 1), 2), mode="meta")
    Uf, Sf_, Vf = yastn.svd(yf, axes=(0, 1))
    good, _, _ = F.observe_factor(Uf, -1, [(0, 1)], [ht.legs[0], ht.legs[1]], Uf.get_legs(1))
    bad, _, _ = F.observe_factor(Uf.unfuse_legs(axes=0), -1, [(0, 1)], [ht.legs[0], ht.legs[1]], Uf.get_legs(1))
    bad2, _, _ = F.observe_factor(Uf.unfuse_legs(axes=0).fuse_legs(axes=(0, (1, 2)), mode="meta"), 0, [(0,), (1,)], [ht.legs[0], ht.legs[1]], Uf.get_legs(1))
    ctx.canary("leg-grouping", good is None and bad is not None and bad2 is not None)
    ctx.canary("order-oracle", (not order_ok(np.array([1.0, 2.0]), "LM", 1.0)) and order_ok(np.array([1.0, 2.0]), "SR", 1.0)
               and (not order_ok(np.array([-3.0, 1.0]), "SM", 1.0)) and order_ok(np.array([2.0, -3.0]), "LR", 1.0))
    ctx.canary("multiset-oracle", match_multiset([1, 2, 3], [3, 1, 2]) == 0 and match_multiset([1, 2], [1, 2.5]) == 0.5
               and match_multiset([1], [1, 0.25]) == 0.25)


def finalize(cov, merged):
    c = merged["counters"]
    cov["ops"] = {k: int(v) for k, v in c.items() if k.startswith(("op:", "svd:", "which:"))}
    cov["eig_inputs_with_degenerate_sector_spectrum"] = int(c.get("eig_degenerate_sector_inputs", 0))
