"""C20  Lattice geometry is a consistent indexing of the square lattice.

EXHAUSTIVE enumeration (run_shard override; work units are case indices so --one / --replay work) of
SquareLattice dims 1..5 x 1..5 x ('obc','cylinder','infinite'), CheckerboardLattice, TriangularLattice (both
infinite variants and the documented finite full-patch variant), every RectangularUnitcell pattern up to 3x3 over
<= 3 labels (thorough: also every 2x4 / 4x2 pattern over 4 labels), plus seeded samples of 2x4 / 4x2 / 4x4
patterns over 4 labels (random and single-momentum constructions).

Oracle: a brute-force model of Z^2 (or of the finite patch / cylinder) with the class's labelling function written
here from the documentation; periodic reduction is done by stepping, not by '%'.  Every geometry that the library
accepts gets the full battery: site2index partition == oracle labelling on a window of two unit cells around the
origin and invariance under exactly the oracle's periods, nn_site for the 8 named directions and all shifts
|d|<=3 (mutually inverse wherever defined), bonds (nearest neighbours, lattice order, fermionic order except the
cylinder seam, every unique bond exactly once, reverse listing), nn_bond_dirn on all nearby pairs, f_ordered as
a total order listing sites() increasingly (SquareLattice family), Lattice / Peps get / set / patch / apply_patch
histories against a dictionary model.  RectangularUnitcell patterns are accepted iff the oracle's recomputed
four-neighbourhoods are unique per label.
"""
from __future__ import annotations

import itertools

from vmon import harness as H

PROP = "C20"
RULE = ("exhaustive over the geometry families listed in coverage.enumerated_vs_closed_form (+ seeded samples of larger "
        "patterns); one evaluation = one constructed (or must-reject) geometry with its full battery; distinct = (class, dims, "
        "boundary / pattern); non-trivial = the library accepted the geometry and every clause was evaluated, or the pattern "
        "was a must-reject decided by the oracle")
ASSUMPTIONS = ["the labelling functions of the oracle are the documented ones: SquareLattice (x mod Nx, y mod Ny) with the boundary "
               "rule per direction, checkerboard (x+y) mod 2, triangular (y-x) mod 3 resp. 3x3 full patch, RectangularUnitcell "
               "pattern[x mod Nx][y mod Ny]",
               "bond orientation: resolved reading asserted by tests/peps/test_geometry.py::test_SquareLattice_cylinder -- every "
               "bond in lattice order ('lr'/'tb'); fermionically ordered except cylinder seam bonds, which are reversed",
               "fermionic order = column-major order of sites (the order SquareLattice.sites() lists them, asserted by the repository "
               "tests for SquareLattice / Checkerboard); demanded of sites() only for the SquareLattice, Checkerboard and Triangular "
               "classes -- RectangularUnitcell lists its representatives row-major, which is counted, not judged",
               "patch semantics (docstrings of move_to_patch / apply_patch): a patch overrides exactly the listed coordinates with "
               "shallow copies; apply_patch writes them back for all periodic images; patch sites with distinct labels only"]

DIRS = {'tl': (-1, -1), 't': (-1, 0), 'tr': (-1, 1), 'l': (0, -1), 'r': (0, 1), 'bl': (1, -1), 'b': (1, 0), 'br': (1, 1)}
SHIFTS = [(dx, dy) for dx in range(-3, 4) for dy in range(-3, 4)]
RUC_CHUNK = 1024


# ------------------------------------------------------------------ enumeration plan

def ruc_families(tier):
    fam = [(a, b, 3) for a in (1, 2, 3) for b in (1, 2, 3)]
    if tier == "thorough":
        fam += [(2, 4, 4), (4, 2, 4)]
    return fam


def sample_plan(tier):
    """[(Nx, Ny, nlabels, number of batches)], batch = 256 patterns."""
    if tier == "thorough":
        return [(4, 4, 4, 160), (3, 4, 4, 24), (4, 3, 4, 24)]
    return [(2, 4, 4, 3), (4, 2, 4, 3), (4, 4, 4, 6)]


SAMPLE_BATCH = 256


def units(tier):
    out = []
    for Nx in range(1, 6):
        for Ny in range(1, 6):
            for b in ("obc", "cylinder", "infinite"):
                out.append(("square", Nx, Ny, b))
    out.append(("checkerboard",))
    out.append(("triangular", (3, 3), "infinite", False))
    out.append(("triangular", (3, 3), "infinite", True))
    # full_patch triangular lattices: every size up to 5x5 with each boundary (the (3, 3) infinite one is listed above)
    for Nx in range(1, 6):
        for Ny in range(1, 6):
            for b in ("obc", "cylinder", "infinite"):
                if not (b == "infinite" and (Nx, Ny) == (3, 3)):
                    out.append(("triangular", (Nx, Ny), b, True))
    for a, b, n in ruc_families(tier):
        total = n ** (a * b)
        for lo in range(0, total, RUC_CHUNK):
            out.append(("ruc", a, b, n, lo, min(total, lo + RUC_CHUNK)))
    for a, b, n, nb in sample_plan(tier):
        for k in range(nb):
            out.append(("ruc-sample", a, b, n, k))
    return out


def closed_form(tier):
    exp = {"geom:SquareLattice": 75, "geom:CheckerboardLattice": 1, "geom:TriangularLattice": 76}
    for a, b, n in ruc_families(tier):
        exp[f"patterns:{a}x{b}/{n}"] = n ** (a * b)
    for a, b, n, nb in sample_plan(tier):
        exp[f"sampled:{a}x{b}/{n}"] = nb * SAMPLE_BATCH
    return exp


def plan(tier):
    n = len(units(tier))
    if tier == "thorough":
        return {"cases": n, "shards": 16, "budget_s": 800}
    return {"cases": n, "shards": 8, "budget_s": 100}


def floors(tier):
    k = 5 if tier == "thorough" else 1
    return {"evaluations": 20000 * k, "geometries_accepted": 300, "ruc_rejected": 100 * 50 * k, "ruc_accepted": 150,
            "site2index_checks": 50000, "period_shift_checks": 5000, "nn_site_checks": 500000, "nn_site_inverse_checks": 300000,
            "bonds_checked": 3000, "seam_bonds_checked": 50, "nn_bond_dirn_checks": 50000, "nn_bond_dirn_rejections": 30000,
            "f_ordered_pair_checks": 50000, "f_ordered_triple_checks": 50000, "sites_listing_checked": 80,
            "container_ops": 10000, "container_patch_ops": 1500, "container_patch_remove_of_patched_site": 150, "container_copy_steps": 5000, "container_copy_steps_while_other_patch_open": 1000, "container_init_forms": 500, "container_init_rejected": 50,
            "dict_form_checked": 200, "units_done": len(units(tier)),
            "class:SquareLattice": 75, "class:CheckerboardLattice": 1, "class:TriangularLattice": 76, "class:RectangularUnitcell": 150}


# ------------------------------------------------------------------ oracle: brute-force model of the lattice

def red(x, n):
    """x reduced into [0, n) by stepping."""
    while x < 0:
        x += n
    while x >= n:
        x -= n
    return x


class Model:
    def __init__(self, cls, Nx, Ny, kind, labfun=None, pattern=None, diag=False):
        self.cls, self.Nx, self.Ny, self.kind, self.pattern, self.diag = cls, Nx, Ny, kind, pattern, diag
        self.labfun = labfun if labfun is not None else (lambda x, y: (red(x, Nx), red(y, Ny)))

    def exists(self, s):
        x, y = s
        if self.kind == "obc":
            return 0 <= x < self.Nx and 0 <= y < self.Ny
        if self.kind == "cylinder":
            return 0 <= y < self.Ny
        return True

    def canon(self, s):
        """The name nn_site uses for an existing site."""
        if self.kind == "cylinder":
            return (red(s[0], self.Nx), s[1])
        return (s[0], s[1])

    def label(self, s):
        if self.kind == "obc":
            return (s[0], s[1])
        if self.kind == "cylinder":
            return (red(s[0], self.Nx), s[1])
        return self.labfun(s[0], s[1])

    def cell(self):
        return [(x, y) for x in range(self.Nx) for y in range(self.Ny)]

    def window(self):
        if self.kind == "obc":
            return self.cell()
        xs = range(-2 * self.Nx, 2 * self.Nx)
        ys = range(self.Ny) if self.kind == "cylinder" else range(-2 * self.Ny, 2 * self.Ny)
        return [(x, y) for x in xs for y in ys]

    def labels(self):
        return {self.label(s) for s in self.cell()}

    def target(self, s, d):
        """Oracle for nn_site(s, d) with d = (dx, dy)."""
        t = (s[0] + d[0], s[1] + d[1])
        return self.canon(t) if self.exists(t) else None

    def is_period(self, a, b):
        if self.kind == "obc":
            return (a, b) == (0, 0)
        if self.kind == "cylinder":
            return b == 0 and red(a, self.Nx) == 0
        return all(self.label((x + a, y + b)) == self.label((x, y)) for x, y in self.cell())

    def desc(self):
        return {"class": self.cls, "dims": [self.Nx, self.Ny], "boundary": self.kind, "pattern": self.pattern}


def neighbourhoods(pattern):
    """label -> set of (top, left, bottom, right) label quadruples, recomputed on the tiling."""
    Nx, Ny = len(pattern), len(pattern[0])
    lab = lambda x, y: pattern[red(x, Nx)][red(y, Ny)]
    env = {}
    for x in range(Nx):
        for y in range(Ny):
            env.setdefault(lab(x, y), set()).add((lab(x - 1, y), lab(x, y - 1), lab(x + 1, y), lab(x, y + 1)))
    return env


def pattern_consistent(pattern):
    return all(len(v) == 1 for v in neighbourhoods(pattern).values())


# ------------------------------------------------------------------ the battery

class Obj:
    """Stand-in for a tensor: identity matters, shallow_copy() makes a distinguishable child."""
    __slots__ = ("tag", "parent")

    def __init__(self, tag, parent=None):
        self.tag, self.parent = tag, parent

    def shallow_copy(self):
        return Obj(self.tag + "'", parent=self)

    def copy(self):
        return Obj(self.tag + "c", parent=self)

    clone = detach = copy

    def __repr__(self):
        return f"Obj({self.tag})"


def V(ctx, M, key, what, extra=None):
    w = M.desc()
    if extra is not None:
        w["detail"] = extra
    ctx.violation(key, f"{M.cls}{(M.Nx, M.Ny)} {M.kind}" + (f" pattern={M.pattern}" if M.pattern else "") + ": " + what, w)


def check_geometry(ctx, g, M, rng, full=True):
    from yastn import YastnError
    from yastn.tn.fpeps import Bond, Site
    cls, fin = M.cls, M.kind in ("obc", "cylinder")
    bkey = f"{cls}:{M.kind}"
    ctx.count("class:" + cls)
    ctx.count("geometries_accepted")
    if tuple(g.dims) != (M.Nx, M.Ny) or g.Nx != M.Nx or g.Ny != M.Ny:
        V(ctx, M, f"dims:{cls}", f"dims={g.dims} Nx={g.Nx} Ny={g.Ny}")
    # ---- unique sites: each label exactly once
    sites = g.sites()
    labs = [M.label(s) for s in sites]
    if sorted(map(repr, labs)) != sorted(map(repr, M.labels())) or not all(isinstance(s, tuple) and len(s) == 2 for s in sites):
        V(ctx, M, f"sites:unique:{cls}", f"sites() = {sites} carry labels {labs}; every unique label {sorted(map(repr, M.labels()))} must appear exactly once")
    if tuple(g.sites(reverse=True)) != tuple(sites)[::-1]:
        V(ctx, M, f"sites:reverse:{cls}", "sites(reverse=True) is not the reversed sites()")
    if fin and sorted(sites) != sorted(M.cell()):
        V(ctx, M, f"sites:unique:{cls}", f"finite lattice: sites() = {sites} is not the set of lattice sites")
    # ---- site2index: same partition of the window as the oracle labelling; exact labels for RectangularUnitcell
    win = M.window()
    fwd, bwd = {}, {}
    bad = None
    for s in win:
        if not M.exists(s):
            continue
        i, l = g.site2index(s), M.label(s)
        if fwd.setdefault(i, l) != l or bwd.setdefault(l, i) != i:
            bad = bad or (s, i, l)
        if cls == "RectangularUnitcell" and i != l:
            bad = bad or (s, i, l)
    ctx.count("site2index_checks", sum(1 for s in win if M.exists(s)))
    if bad:
        V(ctx, M, f"site2index:partition:{bkey}", f"site2index{bad[0]} = {bad[1]!r} while the lattice label is {bad[2]!r}: indexing does not "
          f"identify exactly the sites that are translates of each other", bad)
    if full:
        xs = range(-2 * M.Nx, 2 * M.Nx + 1)
        ys = range(-2 * M.Ny, 2 * M.Ny + 1)
        for a in xs:
            for b in ys:
                if fin and b != 0 and M.kind == "cylinder":
                    # a shift along the open direction leaves the lattice for some site: nothing to compare
                    continue
                if M.kind == "obc" and (a, b) != (0, 0):
                    continue
                ctx.count("period_shift_checks")
                inv = all(g.site2index((x + a, y + b)) == g.site2index((x, y)) for x, y in M.cell())
                if inv != M.is_period(a, b):
                    V(ctx, M, f"site2index:periods:{bkey}", f"shift {(a, b)}: site2index invariant = {inv}, lattice period = {M.is_period(a, b)}")
                    break
    if g.site2index(None) is not None if cls == "SquareLattice" else False:
        V(ctx, M, "site2index:None", "site2index(None) is not None")
    # ---- nn_site: named directions and shifts; mutual inverse
    start = [s for s in win if M.exists(s)]
    if not full:
        start = [s for s in start if -1 <= s[0] <= M.Nx and -1 <= s[1] <= M.Ny]
    reported = set()
    n_nn = n_inv = 0
    moves = list(DIRS.items()) + [(v, v) for v in SHIFTS]
    for s in start:
        for d, vec in moves:
            n_nn += 1
            got = g.nn_site(Site(*s), d)
            want = M.target(s, vec)
            if got != want or (got is not None and not isinstance(got, Site)):
                k = f"nn_site:value:{bkey}" + (":negative-x" if s[0] + vec[0] < 0 else "")
                if k not in reported:
                    reported.add(k)
                    V(ctx, M, k, f"nn_site({s}, {d!r}) = {got!r}, expected {want!r}", {"site": s, "d": d})
                continue
            if got is not None:
                n_inv += 1
                back = g.nn_site(got, (-vec[0], -vec[1]))
                if back != M.canon(s) and "inv" not in reported:
                    reported.add("inv")
                    V(ctx, M, f"nn_site:not-inverse:{bkey}", f"nn_site(nn_site({s}, {d!r}), opposite) = {back!r}, expected {M.canon(s)!r}")
    ctx.count("nn_site_checks", n_nn)
    ctx.count("nn_site_inverse_checks", n_inv)
    if g.nn_site(None, 'r') is not None:
        V(ctx, M, "nn_site:None", "nn_site(None, 'r') is not None")
    # ---- bonds
    check_bonds(ctx, g, M)
    # ---- nn_bond_dirn on nearby pairs
    E = {'lr': (0, 1), 'tb': (1, 0), 'rl': (0, -1), 'bt': (-1, 0)}
    if fin:
        pairs = [(s0, s1) for s0 in M.cell() for s1 in M.cell()]
    else:
        base = [(x, y) for x in range(-1, M.Nx + 1) for y in range(-1, M.Ny + 1)] if full else M.cell()
        pairs = [(s0, (s0[0] + dx, s0[1] + dy)) for s0 in base for dx in (-2, -1, 0, 1, 2) for dy in (-2, -1, 0, 1, 2)]
    rep = False
    n_rej = 0
    for n, (s0, s1) in enumerate(pairs):
        ok = {k for k, e in E.items() if M.target(s0, e) == s1 and M.target(s1, (-e[0], -e[1])) == s0}
        try:
            got = g.nn_bond_dirn(Site(*s0), Site(*s1)) if n % 2 else g.nn_bond_dirn(Bond(Site(*s0), Site(*s1)))
        except YastnError:
            got = None
            n_rej += 1
        if ((got is None) != (not ok) or (got is not None and got not in ok)) and not rep:
            rep = True
            V(ctx, M, f"nn_bond_dirn:{'accepted-non-nn' if not ok else 'value'}:{bkey}",
              f"nn_bond_dirn({s0}, {s1}) = {got!r}; the lattice says {sorted(ok) or 'not nearest neighbours (YastnError)'}")
    ctx.count("nn_bond_dirn_checks", len(pairs))
    ctx.count("nn_bond_dirn_rejections", n_rej)
    # ---- fermionic order
    check_f_order(ctx, g, M, full)
    # ---- containers
    check_container(ctx, g, M, rng)
    check_container_copies(ctx, g, M, rng)


def check_bonds(ctx, g, M):
    from yastn import YastnError
    from yastn.tn.fpeps import Bond
    cls, bkey = M.cls, f"{M.cls}:{M.kind}"
    dirs = [('h', (0, 1), 'lr'), ('v', (1, 0), 'tb')]
    lists = {}
    for dn, _, _ in dirs + ([('d', None, None)] if M.diag else []):
        lists[dn] = tuple(g.bonds(dirn=dn))
        if tuple(g.bonds(dirn=dn, reverse=True)) != lists[dn][::-1]:
            V(ctx, M, f"bonds:reverse:{cls}", f"bonds('{dn}', reverse=True) is not the reversed list")
    want_all = sum((lists[k] for k in ('h', 'v') + (('d',) if M.diag else ())), ())
    try:
        allb = tuple(g.bonds())
        allr = tuple(g.bonds(reverse=True))
        if allb != want_all or allr != want_all[::-1]:
            V(ctx, M, f"bonds:all:{cls}", "bonds() is not horizontal + vertical (+ diagonal) bonds / reverse is not its reversal")
    except TypeError as e:
        # demonstrated mechanism: TriangularLattice(full_patch=True) keeps _bonds_d as a list and adds it to tuples
        V(ctx, M, f"bonds:all-raises-TypeError:{cls}:full_patch", f"bonds() raised TypeError: {e}")
    for dn, e, lo in dirs:
        seen = {}
        for b in lists[dn]:
            ctx.count("bonds_checked")
            if not (isinstance(b, Bond) and all(isinstance(s, tuple) and len(s) == 2 for s in b)):
                V(ctx, M, f"bonds:type:{cls}", f"{b!r} is not a Bond of two sites")
                continue
            s0, s1 = tuple(b[0]), tuple(b[1])
            if not M.exists(s0) or M.target(s0, e) != s1:
                V(ctx, M, f"bonds:not-nn-in-lattice-order:{bkey}", f"'{dn}' bond {b}: second site is not the {lo[1]} neighbour of the first")
                continue
            try:
                dgot = g.nn_bond_dirn(b)
            except YastnError:
                dgot = None
            if dgot != lo:
                V(ctx, M, f"bonds:nn_bond_dirn:{bkey}", f"'{dn}' bond {b}: nn_bond_dirn = {dgot!r}, expected {lo!r}")
            seam = M.kind == "cylinder" and dn == 'v' and s0[0] == M.Nx - 1 and M.Nx > 1
            fo = g.f_ordered(b[0], b[1])
            if seam:
                ctx.count("seam_bonds_checked")
            if fo != (not seam):
                V(ctx, M, f"bonds:f-order:{bkey}" + (":seam" if seam else ""), f"'{dn}' bond {b}: f_ordered = {fo}; expected {not seam}"
                  + (" (cylinder seam bond is listed in lattice order, fermionically reversed)" if seam else ""))
            k = (M.label(s0), M.label(s1))
            seen[k] = seen.get(k, 0) + 1
        # every unique bond exactly once
        if M.kind in ("obc", "cylinder"):
            want = {}
            for s in M.cell():
                t = M.target(s, e)
                if t is not None:
                    k = (M.label(s), M.label(t))
                    want[k] = want.get(k, 0) + 1
        else:
            want = {}
            for s in M.window():
                k = (M.label(s), M.label((s[0] + e[0], s[1] + e[1])))
                want[k] = 1
        if seen != want:
            miss = [k for k in want if seen.get(k, 0) < want[k]]
            dup = [k for k in seen if seen[k] > want.get(k, 0)]
            V(ctx, M, f"bonds:unique:{bkey}", f"'{dn}' bonds: missing classes {miss[:4]}, duplicated / foreign classes {dup[:4]}")
    if M.diag:
        seen = {}
        for b in lists['d']:
            ctx.count("bonds_checked")
            if b[0] is None or b[1] is None:
                V(ctx, M, f"bonds:missing-site:{cls}:diagonal:{M.kind}", f"diagonal bond {b!r} has no site on one end")
                continue
            s0, s1 = tuple(b[0]), tuple(b[1])
            if M.kind == "cylinder":
                # periodic rows: the bond joins (x+1, y), named inside the cell as nn_site does, and (x, y+1)
                is_diag = s1[1] - s0[1] == 1 and 0 <= s1[0] < M.Nx and s0 == M.canon((s1[0] + 1, s0[1]))
            else:
                is_diag = (s1[0] - s0[0], s1[1] - s0[1]) == (-1, 1)
            if not (M.exists(s0) and M.exists(s1) and is_diag):
                V(ctx, M, f"bonds:not-nn-in-lattice-order:{bkey}", f"diagonal bond {b}: sites are not (x+1, y) and (x, y+1)")
            if not g.f_ordered(b[0], b[1]):
                V(ctx, M, f"bonds:f-order:{bkey}", f"diagonal bond {b} is not fermionically ordered")
            k = (M.label(s0), M.label(s1))
            seen[k] = seen.get(k, 0) + 1
        if M.kind == "obc":
            want = {((x + 1, y), (x, y + 1)): 1 for x in range(M.Nx - 1) for y in range(M.Ny - 1)}
        elif M.kind == "cylinder":
            want = {(M.label((x + 1, y)), M.label((x, y + 1))): 1 for x in range(M.Nx) for y in range(M.Ny - 1)}
        else:
            want = {(M.label((x + 1, y)), M.label((x, y + 1))): 1 for x, y in M.window()}
        if seen != want and not any(b[0] is None or b[1] is None for b in lists['d']):
            V(ctx, M, f"bonds:unique:{bkey}", f"diagonal bonds: classes {sorted(map(repr, seen))} expected {sorted(map(repr, want))}")


def check_f_order(ctx, g, M, full):
    cls = M.cls
    f = g.f_ordered
    pts = [(x, y) for x in range(-2, 4) for y in range(-2, 4)] if full else M.cell() + [(-1, 0), (0, -1)]
    bad = None
    ctx.count("f_ordered_pair_checks", len(pts) ** 2)
    for a in pts:
        for b in pts:
            ab, ba = bool(f(a, b)), bool(f(b, a))
            if (a == b and not ab) or (a != b and ab == ba):
                bad = bad or ("pair", a, b, ab, ba)
    if full:
        tri = [(x, y) for x in range(-1, 3) for y in range(-1, 3)]
        rel = {(a, b): bool(f(a, b)) for a in tri for b in tri}
        ntri = 0
        for a in tri:
            for b in tri:
                if rel[a, b]:
                    ntri += len(tri)
                    for c in tri:
                        if rel[b, c] and not rel[a, c]:
                            bad = bad or ("triple", a, b, c)
    if full:
        ctx.count("f_ordered_triple_checks", ntri)
    if bad:
        V(ctx, M, "f_ordered:not-total-order", f"f_ordered is not a reflexive total order: {bad}")
    sites = list(g.sites())
    inc = all(f(s0, s1) and not f(s1, s0) for s0, s1 in zip(sites, sites[1:]))
    if cls in ("SquareLattice", "CheckerboardLattice", "TriangularLattice"):
        ctx.count("sites_listing_checked")
        if not inc:
            V(ctx, M, f"f_ordered:sites-listing:{cls}", f"sites() = {sites} is not listed in increasing fermionic order")
    else:
        ctx.count("ruc_sites_listed_in_f_order" if inc else "ruc_sites_not_listed_in_f_order(unjudged)")


def check_container(ctx, g, M, rng):
    import yastn.tn.fpeps as fpeps
    from yastn import YastnError
    cls = M.cls
    psi = fpeps.Peps(g) if rng.random() < 0.5 else fpeps.Lattice(g)
    data, patch = {l: None for l in M.labels()}, {}
    if M.kind == "obc":
        anysite = M.cell()
    elif M.kind == "cylinder":
        anysite = [(x, y) for x in range(-M.Nx, 2 * M.Nx) for y in range(M.Ny)]
    else:
        anysite = [(x, y) for x in range(-M.Nx, 2 * M.Nx) for y in range(-M.Ny, 2 * M.Ny)]
    counter = [0]

    def new():
        counter[0] += 1
        return Obj(f"o{counter[0]}")

    def expect(s):
        return patch[s] if s in patch else data[M.label(s)]

    def verify(op):
        probe = rng.sample(anysite, min(len(anysite), 6)) + list(patch)[:3]
        for s in probe:
            ctx.count("container_ops")
            got, want = psi[s], expect(s)
            if got is not want:
                V(ctx, M, f"container:{op}:{cls}", f"after {op}: psi[{s}] is {got!r}, the model says {want!r}", {"patch": sorted(patch), "site": s})
                return False
        return True

    if any(psi[s] is not None for s in g.sites()):
        V(ctx, M, f"container:init:{cls}", "fresh container does not return None on its unique sites")
    ok = True
    # fill every unique tensor through an arbitrary image of its site
    for l in sorted(M.labels(), key=repr):
        imgs = [s for s in anysite if M.label(s) == l]
        s = rng.choice(imgs)
        o = new()
        psi[s] = o
        data[l] = o
        ctx.count("container_ops")
    ok = verify("set")
    for step in range(10):
        if not ok:
            break
        op = rng.choice(("set", "set", "patch", "patch", "apply", "get", "items"))
        if op == "set":
            s = rng.choice(list(patch) + anysite if patch and rng.random() < 0.4 else anysite)
            o = new()
            psi[s] = o
            if s in patch:
                patch[s] = o
            else:
                data[M.label(s)] = o
            ok = verify("set")
        elif op == "patch":
            k = rng.randint(1, 3)
            cand, used = [], {M.label(p) for p in patch}
            for s in rng.sample(anysite, len(anysite)):
                if M.label(s) not in used and s not in patch:
                    cand.append(s)
                    used.add(M.label(s))
                if len(cand) == k:
                    break
            # a site that is already in the patch may be moved again: the patch then holds a shallow copy of what the
            # container returned for it just before (a tensor set through the patch is not dropped)
            if patch and rng.random() < 0.4:
                cand.append(rng.choice(sorted(patch)))
                ctx.count("container_patch_remove_of_patched_site")
            if not cand:
                continue
            before = {s: expect(s) for s in cand}
            psi.move_to_patch(cand[0] if (len(cand) == 1 and rng.random() < 0.5) else cand)
            ctx.count("container_patch_ops")
            for s in cand:
                got = psi[s]
                if not (isinstance(got, Obj) and got.parent is before[s] and got is not before[s]):
                    V(ctx, M, f"container:move_to_patch:{cls}", f"psi[{s}] after move_to_patch is {got!r}, expected a shallow copy of {before[s]!r}")
                    ok = False
                patch[s] = got
            ok = ok and verify("move_to_patch")
        elif op == "apply":
            psi.apply_patch()
            ctx.count("container_patch_ops")
            for s, o in patch.items():
                data[M.label(s)] = o
            patch.clear()
            ok = verify("apply_patch")
        elif op == "items":
            it = list(psi.items())
            ctx.count("container_ops")
            if [s for s, _ in it] != list(g.sites()) or any(o is not expect(tuple(s)) for s, o in it):
                V(ctx, M, f"container:items:{cls}", "items() does not pair sites() with the stored objects")
                ok = False
        else:
            ok = verify("get")
    # construction from objects: dict over sites(), nested list over the unit cell, single object; inconsistent list rejected
    objs = {l: new() for l in M.labels()}
    forms = [("dict", {tuple(s): objs[M.label(s)] for s in g.sites()}),
             ("nested", [[objs[M.label((x, y))] for y in range(M.Ny)] for x in range(M.Nx)])]
    for name, arg in forms:
        ctx.count("container_init_forms")
        try:
            phi = fpeps.Lattice(g, objects=arg)
        except YastnError as e:
            V(ctx, M, f"container:init-rejected-consistent:{cls}", f"Lattice(geometry, objects=<{name} consistent with the labelling>) raised {e}")
            continue
        if any(phi[s] is not objs[M.label(s)] for s in anysite):
            V(ctx, M, f"container:init:{cls}", f"Lattice(geometry, objects=<{name}>) returns wrong objects")
    single = new()
    phi = fpeps.Lattice(g, objects=single)
    ctx.count("container_init_forms")
    if any(phi[s] is not single for s in anysite):
        V(ctx, M, f"container:init:{cls}", "Lattice(geometry, objects=obj) does not distribute obj over the lattice")
    cell = M.cell()
    if len(M.labels()) < len(cell):
        # two cells carry the same label: give them different objects -> must be rejected
        nested = [[objs[M.label((x, y))] for y in range(M.Ny)] for x in range(M.Nx)]
        first = {}
        for (x, y) in cell:
            l = M.label((x, y))
            if l in first:
                nested[x][y] = new()
                break
            first[l] = (x, y)
        try:
            fpeps.Lattice(g, objects=nested)
            V(ctx, M, f"container:init-accepted-inconsistent:{cls}", "Lattice accepted two different objects for one unique site")
        except YastnError:
            ctx.count("container_init_rejected")


def check_container_copies(ctx, g, M, rng):
    """Two containers related by shallow_copy / copy / clone / detach, driven alternately: a write, an open patch or
    apply_patch on one of them never changes what the other one returns."""
    import yastn.tn.fpeps as fpeps
    cls = M.cls
    if M.kind == "obc":
        anysite = M.cell()
    elif M.kind == "cylinder":
        anysite = [(x, y) for x in range(-M.Nx, 2 * M.Nx) for y in range(M.Ny)]
    else:
        anysite = [(x, y) for x in range(-M.Nx, 2 * M.Nx) for y in range(-M.Ny, 2 * M.Ny)]
    counter = [0]

    def new():
        counter[0] += 1
        return Obj(f"q{counter[0]}")

    psi = (fpeps.Peps if rng.random() < 0.5 else fpeps.Lattice)(g)
    data = {}
    for l in sorted(M.labels(), key=repr):
        s = rng.choice([t for t in anysite if M.label(t) == l])
        data[l] = new()
        psi[s] = data[l]
    how = rng.choice(("shallow_copy", "shallow_copy", "shallow_copy", "copy", "clone", "detach"))
    phi = getattr(psi, how)()
    ctx.count(f"container_copy:{how}")
    nets = [[psi, data, {}], [phi, dict(data), {}]]
    if how == "shallow_copy":
        if any(phi[s] is not data[M.label(s)] for s in anysite):
            V(ctx, M, f"container:shallow_copy:{cls}", "shallow_copy() does not point to the same objects")
            return
    else:
        for l in data:
            s = next(t for t in anysite if M.label(t) == l)
            got = phi[s]
            if not (isinstance(got, Obj) and got.parent is data[l]):
                V(ctx, M, f"container:{how}:{cls}", f"{how}() at {s}: {got!r} is not a {how} of {data[l]!r}")
                return
            nets[1][1][l] = got

    def verify(op, who):
        for k, (net, dat, pat) in enumerate(nets):
            for s in rng.sample(anysite, min(len(anysite), 6)) + list(pat)[:3] + list(nets[1 - k][2])[:3]:
                ctx.count("container_ops")
                want = pat[s] if s in pat else dat[M.label(s)]
                got = net[s]
                if got is not want:
                    V(ctx, M, f"container:copies-not-independent:{how}:{cls}",
                      f"after {op} on container {who} ({'original' if who == 0 else how}): container {k}[{s}] is {got!r}, the model says {want!r}",
                      {"patches": [sorted(n[2]) for n in nets]})
                    return False
        return True

    for step in range(10):
        who = rng.randrange(2)
        net, dat, pat = nets[who]
        op = rng.choice(("set", "patch", "patch", "apply", "setpatch"))
        if op == "set":
            s = rng.choice(anysite)
            o = new()
            net[s] = o
            if s in pat:
                pat[s] = o
            else:
                dat[M.label(s)] = o
        elif op == "patch":
            used = {M.label(p) for p in pat}
            cand = [s for s in rng.sample(anysite, len(anysite)) if M.label(s) not in used][:1]
            if not cand:
                continue
            net.move_to_patch(cand[0])
            ctx.count("container_patch_ops")
            got = net[cand[0]]
            if not (isinstance(got, Obj) and got.parent is dat[M.label(cand[0])]):
                V(ctx, M, f"container:move_to_patch:{cls}", f"after {how}: move_to_patch({cand[0]}) gave {got!r}")
                return
            pat[cand[0]] = got
        elif op == "setpatch":
            if not pat:
                continue
            s = rng.choice(sorted(pat))
            o = new()
            net[s] = o
            pat[s] = o
        else:
            net.apply_patch()
            ctx.count("container_patch_ops")
            for s, o in pat.items():
                dat[M.label(s)] = o
            pat.clear()
        ctx.count("container_copy_steps")
        if nets[1 - who][2]:
            ctx.count("container_copy_steps_while_other_patch_open")
        if not verify(op, who):
            return


# ------------------------------------------------------------------ units

def unit_square(ctx, Nx, Ny, boundary, rng):
    import yastn.tn.fpeps as fpeps
    g = fpeps.SquareLattice(dims=(Nx, Ny), boundary=boundary)
    M = Model("SquareLattice", Nx, Ny, boundary)
    check_geometry(ctx, g, M, rng)
    if g.boundary != boundary:
        V(ctx, M, "boundary-attr", f"boundary attribute {g.boundary!r}")
    ctx.count("geom:SquareLattice")
    ctx.case(("SquareLattice", Nx, Ny, boundary), True,
             {"class": "SquareLattice", "dims": [Nx, Ny], "boundary": boundary, "sites": len(g.sites()), "bonds": len(g.bonds())})


def unit_checkerboard(ctx, rng):
    import yastn.tn.fpeps as fpeps
    g = fpeps.CheckerboardLattice()
    M = Model("CheckerboardLattice", 2, 2, "infinite", labfun=lambda x, y: red(x + y, 2))
    check_geometry(ctx, g, M, rng)
    ctx.count("geom:CheckerboardLattice")
    ctx.case(("CheckerboardLattice",), True, {"class": "CheckerboardLattice", "sites": list(map(tuple, g.sites()))})


def unit_triangular(ctx, dims, boundary, full_patch, rng):
    import yastn.tn.fpeps as fpeps
    if boundary == "infinite" and tuple(dims) == (3, 3):
        g = fpeps.TriangularLattice(full_patch=full_patch) if full_patch else fpeps.TriangularLattice()
    else:
        g = fpeps.TriangularLattice(dims=dims, boundary=boundary, full_patch=full_patch)
    Nx, Ny = dims
    if full_patch:
        M = Model("TriangularLattice", Nx, Ny, boundary, diag=True)
    else:
        M = Model("TriangularLattice", Nx, Ny, boundary, labfun=lambda x, y: red(y - x, 3), diag=True)
    M.pattern = f"full_patch={full_patch}"
    check_geometry(ctx, g, M, rng)
    ctx.count("geom:TriangularLattice")
    ctx.case(("TriangularLattice", dims, boundary, full_patch), True,
             {"class": "TriangularLattice", "dims": list(dims), "boundary": boundary, "full_patch": full_patch})


def decode(i, a, b, n):
    flat = []
    for _ in range(a * b):
        flat.append(i % n)
        i //= n
    return [flat[r * b:(r + 1) * b] for r in range(a)]


def ruc_one(ctx, pattern, rng, full, as_dict=False):
    """One RectangularUnitcell construction attempt + oracle decision (+ battery when accepted)."""
    import yastn.tn.fpeps as fpeps
    from yastn import YastnError
    a, b = len(pattern), len(pattern[0])
    cons = pattern_consistent(pattern)
    arg = {(r, c): pattern[r][c] for r in range(a) for c in range(b)} if as_dict else [list(row) for row in pattern]
    keep = repr(arg)
    try:
        g = fpeps.RectangularUnitcell(pattern=arg)
        acc = True
    except YastnError:
        acc = False
    if repr(arg) != keep:
        ctx.violation("ruc:pattern-argument-mutated", f"RectangularUnitcell changed its pattern argument {keep}")
    M = Model("RectangularUnitcell", a, b, "infinite", labfun=lambda x, y: pattern[red(x, a)][red(y, b)], pattern=[list(r) for r in pattern])
    if acc != cons:
        env = {k: sorted(v) for k, v in neighbourhoods(pattern).items()}
        if acc:
            V(ctx, M, "ruc:accepted-inconsistent", f"pattern accepted although a label has two neighbourhoods (t,l,b,r): {env}", env)
        else:
            V(ctx, M, "ruc:rejected-consistent", f"pattern rejected although every label has a single neighbourhood: {env}", env)
        ctx.case(("ruc", a, b, tuple(map(tuple, pattern))), True)
        return
    if not acc:
        ctx.count("ruc_rejected")
        ctx.case(("ruc-rej", a, b, tuple(map(tuple, pattern))), True)
        return
    ctx.count("ruc_accepted")
    ctx.count(f"ruc_accepted:{a}x{b}")
    check_geometry(ctx, g, M, rng, full=full)
    ctx.case(("ruc", a, b, tuple(map(tuple, pattern))), True,
             {"class": "RectangularUnitcell", "pattern": pattern, "unique_sites": list(map(tuple, g.sites())),
              "labels": sorted(M.labels())} if len(M.labels()) > 1 and a * b >= 6 else None)
    if not as_dict:
        # the dict form must be the same geometry
        ctx.count("dict_form_checked")
        g2 = fpeps.RectangularUnitcell(pattern={(r, c): pattern[r][c] for r in range(a) for c in range(b)})
        if not (g2 == g and g2.sites() == g.sites() and g2.bonds() == g.bonds()
                and all(g2.site2index(s) == g.site2index(s) for s in M.cell())):
            V(ctx, M, "ruc:dict-vs-list", "dict and nested-list forms of the same pattern give different geometries")


def unit_ruc(ctx, a, b, n, lo, hi, rng):
    for i in range(lo, hi):
        ruc_one(ctx, decode(i, a, b, n), rng, full=(a * b <= 9), as_dict=(i % 7 == 3))
        ctx.count(f"patterns:{a}x{b}/{n}")


def momentum_pattern(rng, a, b, n):
    """Single-momentum construction label = perm[(p*x + q*y) mod k] whenever it tiles the a x b cell."""
    k = rng.randint(1, n)
    opts = [(p, q) for p in range(k) for q in range(k) if (p * a) % k == 0 and (q * b) % k == 0]
    p, q = rng.choice(opts)
    perm = rng.sample(range(n), k)
    return [[perm[(p * x + q * y) % k] for y in range(b)] for x in range(a)]


def unit_ruc_sample(ctx, a, b, n, k, rng):
    for j in range(SAMPLE_BATCH):
        r = rng.random()
        if r < 0.45:
            pat = momentum_pattern(rng, a, b, n)
        elif r < 0.6:
            pat = momentum_pattern(rng, a, b, n)     # one cell of a consistent pattern perturbed: almost always must-reject
            x, y = rng.randrange(a), rng.randrange(b)
            pat[x][y] = rng.randrange(n)
        else:
            pat = [[rng.randrange(n) for _ in range(b)] for _ in range(a)]
        ruc_one(ctx, pat, rng, full=False, as_dict=(j % 5 == 0))
        ctx.count(f"sampled:{a}x{b}/{n}")


def run_case(ctx, idx):
    u = units(ctx.tier)[idx]
    rng = ctx.rng(idx)
    if u[0] == "square":
        unit_square(ctx, u[1], u[2], u[3], rng)
    elif u[0] == "checkerboard":
        unit_checkerboard(ctx, rng)
    elif u[0] == "triangular":
        unit_triangular(ctx, u[1], u[2], u[3], rng)
    elif u[0] == "ruc":
        unit_ruc(ctx, u[1], u[2], u[3], u[4], u[5], rng)
    else:
        unit_ruc_sample(ctx, u[1], u[2], u[3], u[4], rng)
    ctx.count("units_done")


def run_shard(ctx):
    import time
    import traceback
    us = units(ctx.tier)
    budget = plan(ctx.tier)["budget_s"]
    t0 = time.time()
    for idx in range(ctx.shard, len(us), ctx.nshards):
        if time.time() - t0 > budget:
            ctx.count("units_skipped_by_deadline")
            continue
        ctx.idx = idx
        try:
            run_case(ctx, idx)
        except Exception as e:
            ctx.violation(H.exc_key(e), f"exception escaped unit {us[idx]}: {e!r}", {"traceback": traceback.format_exc()[-3000:]})


# ------------------------------------------------------------------ canaries: the oracle must fire on corrupted geometries

def canaries(ctx):
    import random
    import yastn.tn.fpeps as fpeps
    from yastn.tn.fpeps import Bond, Site

    def fired(g, M, prefix):
        sub = type(ctx)(ctx.prop, ctx.tier, ctx.seed)
        try:
            check_geometry(sub, g, M, random.Random(3))
        except (KeyError, TypeError):     # a corrupted geometry may crash later clauses; the earlier ones have decided already
            pass
        return any(v["key"].startswith(prefix) for v in sub.violations)

    class NoWrap(fpeps.SquareLattice):        # cylinder that forgets to wrap negative x
        def nn_site(self, site, d):
            r = super().nn_site(site, d)
            if site is None:
                return r
            x, y = site
            dx, dy = self._dir[d] if isinstance(d, str) else d
            return None if (r is not None and x + dx < 0) else r
    ctx.canary("cylinder-no-wrap", fired(NoWrap((3, 2), 'cylinder'), Model("SquareLattice", 3, 2, "cylinder"), "nn_site:value"))

    class RowFirst(fpeps.SquareLattice):
        def f_ordered(self, s0, s1):
            return s0[0] < s1[0] or (s0[0] == s1[0] and s0[1] <= s1[1])
    ctx.canary("f_ordered-rows-first", fired(RowFirst((2, 3), 'obc'), Model("SquareLattice", 2, 3, "obc"), "f_ordered:sites-listing"))

    g = fpeps.SquareLattice((3, 3), 'obc')
    g._bonds_h = g._bonds_h[:-1] + (Bond(Site(2, 2), Site(2, 1)),)
    ctx.canary("bond-reversed", fired(g, Model("SquareLattice", 3, 3, "obc"), "bonds:"))
    g = fpeps.SquareLattice((3, 3), 'infinite')
    g._bonds_v = g._bonds_v[1:]
    ctx.canary("bond-missing", fired(g, Model("SquareLattice", 3, 3, "infinite"), "bonds:unique"))

    class BadIndex(fpeps.SquareLattice):
        def site2index(self, site):
            return None if site is None else (site[0] % self.Nx, site[1] % (2 * self.Ny))
    ctx.canary("site2index-wrong-period", fired(BadIndex((2, 2), 'infinite'), Model("SquareLattice", 2, 2, "infinite"), "site2index:"))
    ctx.canary("pattern-oracle", (not pattern_consistent([[0, 1], [1, 1]])) and pattern_consistent([[0, 1, 2], [1, 2, 0], [2, 0, 1]])
               and not pattern_consistent([[0, 1, 0], [1, 0, 1], [0, 1, 2]]))

    class BadStore(fpeps.Lattice):
        def __setitem__(self, site, obj):
            super().__setitem__((site[0], 0), obj)
    sub = type(ctx)(ctx.prop, ctx.tier, ctx.seed)
    M = Model("SquareLattice", 2, 2, "infinite")
    orig = fpeps.Lattice
    try:
        fpeps.Lattice = BadStore
        fpeps.Peps.__bases__ = (BadStore,)
        check_container(sub, fpeps.SquareLattice((2, 2), 'infinite'), M, random.Random(1))
    except Exception:      # the corrupted container may also crash a later clause
        pass
    finally:
        fpeps.Lattice = orig
        fpeps.Peps.__bases__ = (orig,)
    ctx.canary("container-wrong-slot", any(v["key"].startswith("container:") for v in sub.violations))


def finalize(cov, merged):
    tier = "thorough" if cov["reach_floors"].get("units_done") == len(units("thorough")) != len(units("quick")) else "quick"
    c = merged["counters"]
    exp = closed_form(tier)
    got = {k: int(c.get(k, 0)) for k in exp}
    mism = {k: (got[k], exp[k]) for k in exp if got[k] != exp[k]}
    cov["enumerated_vs_closed_form"] = {k: [got[k], exp[k]] for k in sorted(exp)}
    cov["geometries_enumerated"] = int(sum(got.values()))
    cov["accepted_patterns_by_size"] = {k[13:]: int(v) for k, v in sorted(c.items()) if k.startswith("ruc_accepted:")}
    skipped = int(c.get("units_skipped_by_deadline", 0))
    if mism:
        cov["inconclusive_reasons"].append("enumerated count != closed form: " + str(mism)[:400])
    if skipped:
        cov["inconclusive_reasons"].append(f"{skipped} units skipped by deadline")
    cov["exhaustive"] = not mism and not skipped
    cov["exhaustive_domain"] = ("SquareLattice 1..5 x 1..5 x 3 boundaries; Checkerboard; Triangular variants; every RectangularUnitcell "
                                "pattern of the families 'patterns:*' (sampled families 'sampled:*' are not exhaustive)")
