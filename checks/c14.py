"""C14  Results do not depend on contraction policy, fusion mode or lazy state.

Differential monitor.  (A) One generated program (tensordot, ncon, fuse/unfuse, transpose, add, trace, svd, qr,
masks, swap gates, ...) is executed under the reference configuration and under every other combination of
tensordot_policy x default_fusion (x force_fusion) and with lazy perturbations (consume_transpose()/copy()
inserted on operands at random points); after every step the observation (legs, total charge, dense values -
taken after unfusing all fused legs so that hard and meta fusion are comparable; svd/qr enter only through the
gauge-invariant products U S V, S, Q R) must agree: bit-exact for pure data movement, within eps-scaled
tolerance where arithmetic order may differ between policies.  A step accepted under one configuration and
rejected under another is a violation too.
(B) contract_with_unroll: one network, every pairwise contraction path (all for <= 4 tensors) x unroll
specifications (none, make_sliced_legs on a contracted / an output / several labels, integer sizes,
slice_leg_uniform) must equal np.einsum of the harness dense images.
(D) high-volume family over a tiny universe of legs (1-3 sectors of dimension 1-3, contracted legs already in place,
blocks without a partner in the other operand): the same tensordot under the three policies, from plain and from
hard-/meta-fused contracted legs, must agree with each other and with NumPy - layout coincidences that decide whether
a no-copy fast path of one policy is taken occur only at this density.
"""
from __future__ import annotations

import itertools
import string

import numpy as np

from vmon import dense as D
from vmon import gen_program as GP
from vmon import groups as G
from vmon import workloads as W
from vmon.harness import CaseSkip

PROP = "C14"
RULE = ("case = (A) one random program (8-24 steps) x all 6 policy/fusion configurations (+ force_fusion) x lazy perturbation, compared step "
        "by step with the reference run, or (B) one 2-4 tensor network x all pairwise paths x 4-6 unroll specifications vs np.einsum; "
        "distinct = hash of program / network structure; non-trivial = at least one alternative configuration produced a compared tensor")
ASSUMPTIONS = ["equality of observations between runs is the oracle for (A); NumPy einsum on harness dense images for (B)",
               "tolerance for arithmetic steps 1e-11 * (1 + max|x|) per accumulated step, bit-exact for data movement"]
POLICIES = ("fuse_contracted", "fuse_to_matrix", "no_fusion")
DATA_MOVE = {"transpose", "conj", "conj_blocks", "flip_signature", "consume_transpose", "copy", "fuse", "unfuse", "add_leg",
             "remove_leg", "swap_gate", "diag", "flip_charges", "to_dict", "zero_block", "remove_zero_blocks", "mask"}


MAIN_CASES = {"quick": 1400, "thorough": 12000}
TINY_CASES = {"quick": 16000, "thorough": 300000}


def plan(tier):
    if tier == "thorough":
        return {"cases": MAIN_CASES[tier] + TINY_CASES[tier], "shards": 16, "budget_s": 1500}
    return {"cases": MAIN_CASES[tier] + TINY_CASES[tier], "shards": 8, "budget_s": 300}


def floors(tier):
    k = 15 if tier == "thorough" else 1
    return {"programs": 120 * k, "config_runs": 900 * k, "hard_vs_meta_pairs": 120 * k, "lazy_perturbations": 300 * k,
            "unroll_variants": 250 * k, "paths_tried": 150 * k, "steps_compared": 6000 * k, "family_adds": 1500 * k,
            "tiny_policy_triples": 8000 * k, "tiny_operand_with_unpartnered_blocks": 2000 * k}


# ------------------------------------------------------------------ (A) programs under configurations

def compare_obs(ctx, prog, k, step, ref, got, label, exact_chain):
    """ref/got: lists of observations for the entries produced by step k."""
    if len(ref) != len(got):
        ctx.violation(f"config-dependence:count:{step[0]}", f"step {k} {step[0]} produced {len(got)} results under {label}")
        return False
    ok = True
    for r, g in zip(ref, got):
        ctx.count("steps_compared")
        if r[0] != g[0]:
            ctx.violation(f"config-dependence:kind:{step[0]}", f"step {k} {step[0]}: {r[0]} vs {g[0]} under {label}")
            return False
        if r[0] == "scalar":
            tol = 1e-10 * (1 + abs(r[1]))
            if not ctx.margin("scalar", abs(r[1] - g[1]), tol):
                ctx.violation(f"config-dependence:value:{step[0]}", f"step {k} {step[0]}: scalar {r[1]} vs {g[1]} under {label}",
                              {"program": prog.desc(), "step": k, "config": label})
                ok = False
            continue
        _, lr, nr, xr, ur = r
        _, lg, ng, xg, ug = g
        if lr != lg:
            # Which sectors are *stored* may differ (explicit zero blocks appear when hard-fused legs are unfused or when a
            # policy pads blocks): legs must agree in rank, signature and in the dimension of every common charge, and the
            # dense arrays must agree over the union of the legs (absent sectors are zeros).
            un = union_legs(lr, lg)
            if un is None:
                ctx.violation(f"config-dependence:legs:{step[0]}", f"step {k} {step[0]}: legs differ under {label}: {lr} vs {lg}",
                              {"program": prog.desc(), "step": k, "config": label})
                return False
            ctx.count("compared_over_union_legs")
            import yastn
            lg_y = {i: yastn.Leg(ur.config, s=s_, t=t_, D=D_) for i, (s_, t_, D_) in enumerate(un)}
            xr, xg = ur.to_numpy(legs=lg_y), ug.to_numpy(legs=lg_y)
        if nr != ng:
            ctx.violation(f"config-dependence:charge:{step[0]}", f"step {k} {step[0]}: charge {nr} vs {ng} under {label}",
                          {"program": prog.desc(), "step": k, "config": label})
            return False
        if xr.shape != xg.shape:
            ctx.violation(f"config-dependence:shape:{step[0]}", f"step {k} {step[0]}: dense shape {xr.shape} vs {xg.shape} under {label}")
            return False
        if exact_chain:
            if not np.array_equal(xr, xg):
                ctx.violation(f"config-dependence:value-exact:{step[0]}",
                              f"step {k} {step[0]} (pure data movement so far): dense values differ bitwise under {label}",
                              {"program": prog.desc(), "step": k, "config": label})
                ok = False
        else:
            scale = 1.0 + (float(np.max(np.abs(xr))) if xr.size else 0.0)
            err = float(np.max(np.abs(xr - xg))) if xr.size else 0.0
            if not ctx.margin("arith", err, 1e-10 * scale * (1 + k)):
                ctx.violation(f"config-dependence:value:{step[0]}", f"step {k} {step[0]}: dense values differ by {err:.2e} under {label}",
                              {"program": prog.desc(), "step": k, "config": label})
                ok = False
    return ok


def union_legs(la, lb):
    if len(la) != len(lb):
        return None
    out = []
    for (sa, ta, Da), (sb, tb, Db) in zip(la, lb):
        if sa != sb:
            return None
        d = dict(zip(ta, Da))
        for t, x in zip(tb, Db):
            if d.setdefault(t, x) != x:
                return None
        ts = sorted(d)
        out.append((sa, tuple(ts), tuple(d[t] for t in ts)))
    return out


def run_under(ctx, prog, cfg, label, ref_obs, perturb_rng=None):
    import yastn
    pool = GP.initial_pool(prog, cfg)
    # which pool entries were produced by pure data movement only (bit-exact expected)
    exact = [True] * len(pool)
    nper = 0
    for k, step in enumerate(prog.steps):
        idxs = [x for x in step[1:3] if isinstance(x, int) and not isinstance(x, bool)] if step[0] != "ncon" else list(step[1])
        idxs = [i for i in idxs if 0 <= i < len(pool)]
        if perturb_rng is not None:
            for i in idxs:
                if isinstance(pool[i], yastn.Tensor) and perturb_rng.random() < 0.5:
                    pool[i] = pool[i].consume_transpose() if perturb_rng.random() < 0.6 else pool[i].copy()
                    nper += 1
        try:
            new = GP.apply_step(pool, step, cfg)
        except Exception as e:
            ctx.violation(f"config-dependence:rejected:{step[0]}:{type(e).__name__}",
                          f"step {k} {step!r:.200} ran under the reference configuration but raised {type(e).__name__}: {e} under {label}",
                          {"program": prog.desc(), "step": k, "config": label})
            return nper
        ex = step[0] in DATA_MOVE and all(exact[i] for i in idxs if i < len(exact))
        got = [GP.observe(x) for x in new]
        if not compare_obs(ctx, prog, k, step, ref_obs[k], got, label, ex):
            return nper
        pool.extend(new)
        exact.extend([ex] * len(new))
    return nper


def program_case(ctx, idx):
    rng, nprng = ctx.rng(idx), ctx.nprng(idx)
    sym = G.ALL_SYMS[idx % len(G.ALL_SYMS)]
    ferm = False
    if W.FERM[sym] and rng.random() < 0.4:
        ferm = rng.choice(W.FERM[sym])
    ref_kw = {"tensordot_policy": "fuse_contracted", "default_fusion": "hard"}
    cfg0 = D.make_cfg(sym, ferm, **ref_kw)
    # programs that only use the configuration's default fusion can be compared across default_fusion;
    # programs that name fusion modes explicitly mix hard- and meta-fused legs under the other default, which the
    # library rejects by design - they are compared across policies, force_fusion and lazy states only
    explicit = rng.random() < 0.3
    prog, _ = GP.generate(rng, nprng, sym, ferm, length=rng.randint(8, 24), cfg=cfg0,
                          fuse_modes=(None, None, "hard", "meta") if explicit else (None,))
    if not prog.steps:
        raise CaseSkip
    ctx.count("programs_explicit_modes" if explicit else "programs_default_modes")
    _, ref_obs = GP.execute(prog, cfg0)
    ctx.count("programs")
    nalt = 0
    for pol in POLICIES:
        for fus in ("hard", "meta"):
            if (pol, fus) == ("fuse_contracted", "hard") or (explicit and fus == "meta"):
                continue
            cfg = D.make_cfg(sym, ferm, tensordot_policy=pol, default_fusion=fus)
            run_under(ctx, prog, cfg, f"{pol}/{fus}", ref_obs)
            ctx.count("config_runs")
            ctx.count("policy:" + pol)
            if fus == "meta":
                ctx.count("hard_vs_meta_pairs")
            nalt += 1
    ff = rng.choice(("hard", "meta"))
    cfg = D.make_cfg(sym, ferm, tensordot_policy=rng.choice(POLICIES), default_fusion=rng.choice(("hard", "meta")), force_fusion=ff)
    run_under(ctx, prog, cfg, f"force_fusion={ff}", ref_obs)
    ctx.count("config_runs")
    ctx.count("force_fusion_runs")
    # lazy perturbations under the reference and one other configuration
    for pol in ("fuse_contracted", rng.choice(POLICIES)):
        cfg = D.make_cfg(sym, ferm, tensordot_policy=pol, default_fusion="hard" if explicit else rng.choice(("hard", "meta")))
        n = run_under(ctx, prog, cfg, f"lazy-perturbed/{pol}", ref_obs, perturb_rng=ctx.rng(idx, "perturb" + pol))
        ctx.count("lazy_perturbations", n)
        ctx.count("config_runs")
    for s in prog.steps:
        ctx.count("step:" + s[0])
    ctx.case(prog.sig(), nalt > 0, {"kind": "program", **prog.desc()} if idx < 16 and idx % 8 == 0 else None)


# ------------------------------------------------------------------ (B) contract_with_unroll

def all_pairwise_paths(n, limit=None, rng=None):
    """Every sequence of pairwise contractions of n tensors in opt_einsum position convention."""
    out = []

    def rec(m, path):
        if m == 1:
            out.append(tuple(path))
            return
        for i in range(m):
            for j in range(i + 1, m):
                rec(m - 1, path + [(i, j)])
    rec(n, [])
    if limit and len(out) > limit:
        out = rng.sample(out, limit)
    return out


def unroll_case(ctx, idx):
    import yastn
    rng, nprng = ctx.rng(idx), ctx.nprng(idx)
    sym = rng.choice(G.ALL_SYMS) if rng.random() < 0.5 else rng.choice(("Z2xU1", "U1xU1", "U1xU1xZ2"))   # several charges per leg
    cfg = D.make_cfg(sym, False, tensordot_policy=rng.choice(POLICIES))
    nt = rng.randint(2, 4)
    ranks = [rng.randint(2, 3) for _ in range(nt)]
    slots = [(i, j) for i in range(nt) for j in range(ranks[i])]
    rng.shuffle(slots)
    labels, legs = {}, {}
    lab = 0
    # make the network connected: chain first, then random extra bonds
    chain = list(range(nt)); rng.shuffle(chain)
    free = {i: [s for s in slots if s[0] == i] for i in range(nt)}
    def bond(a, b):
        nonlocal lab
        if not free[a] or not free[b]:
            return
        sa, sb = free[a].pop(), free[b].pop()
        L = D.gen_leg(rng, sym, dmax=3, nsec=(1, 3))
        legs[sa], legs[sb] = L, L.conj()
        labels[sa] = labels[sb] = al[lab]
        lab += 1
    al = string.ascii_lowercase
    for a, b in zip(chain, chain[1:]):
        bond(a, b)
    for _ in range(rng.randint(0, 2)):
        a, b = rng.sample(range(nt), 2)
        bond(a, b)
    opens = [s for i in range(nt) for s in free[i]]
    rng.shuffle(opens)
    out_labels = []
    for s in opens:
        legs[s] = D.gen_leg(rng, sym, dmax=3, nsec=(1, 3))
        labels[s] = al[lab]
        out_labels.append(al[lab])
        lab += 1
    dt = rng.choice(("float64", "complex128"))
    hts = [D.gen_tensor(rng, nprng, sym, legs=[legs[(i, j)] for j in range(ranks[i])], dtype=dt, density=rng.choice((1.0, 0.7)))
           for i in range(nt)]
    ys = [h.to_yastn(cfg) for h in hts]
    igs = [[labels[(i, j)] for j in range(ranks[i])] for i in range(nt)]
    # optionally fuse two open legs of one tensor (hard or meta) into one output label: its history must survive unrolling
    out_unf = list(out_labels)
    fused_info = None
    cands = [i for i in range(nt) if sum(1 for g in igs[i] if g in out_labels) >= 2]
    if cands and rng.random() < 0.45:
        i = rng.choice(cands)
        ja, jb = sorted(rng.sample([j for j, g in enumerate(igs[i]) if g in out_labels], 2))
        la, lb = igs[i][ja], igs[i][jb]
        mode = rng.choice(("hard", "meta"))
        groups = tuple((ja, jb) if j == ja else j for j in range(ranks[i]) if j != jb)
        ys[i] = ys[i].fuse_legs(axes=groups, mode=mode)
        F = "F"
        igs_y = [list(g) for g in igs]
        igs_y[i] = [F if j == ja else igs[i][j] for j in range(ranks[i]) if j != jb]
        out_y = [F if g == la else g for g in out_labels if g != lb]
        out_unf = []
        for g in out_labels:
            if g == la:
                out_unf += [la, lb]
            elif g != lb:
                out_unf.append(g)
        fused_info = (out_y.index(F), mode)
        ctx.count("unroll_networks_with_fused_output_leg:" + mode)
    else:
        igs_y, out_y = [list(g) for g in igs], list(out_labels)
    expected = np.einsum(",".join("".join(g) for g in igs) + "->" + "".join(out_unf), *[h.dense() for h in hts])
    lab2leg = {labels[s]: legs[s] for s in opens}
    out_legs = [lab2leg[g] for g in out_unf]
    nexp = G.add(sym, [h.n for h in hts])
    scale = 1.0
    for h in hts:
        scale *= max(float(np.linalg.norm(h.dense().ravel())), 1e-300)
    tol = 1e-12 * 64 * scale + 1e-300
    args = []
    for y, g in zip(ys, igs_y):
        args += [y, list(g)]
    args.append(list(out_y))
    contracted = sorted({l for g in igs for l in g} - set(out_labels))
    out_labels = [g for g in out_y if g != "F"]      # labels that may be unrolled (a fused leg cannot be masked)

    def leg_of(label):
        for y, g in zip(ys, igs_y):
            if label in g:
                return y.get_legs(g.index(label))
    specs = [("none", None)]
    if contracted:
        c = rng.choice(contracted)
        specs.append(("sliced-contracted", {c: yastn.make_sliced_legs(leg_of(c))}))
        specs.append(("int-contracted", {c: rng.randint(1, max(1, sum(leg_of(c).D)))}))
    if out_labels:
        o = rng.choice(out_labels[1:] or out_labels)      # mostly not the first output axis
        specs.append(("sliced-output", {o: yastn.make_sliced_legs(leg_of(o))}))
        from yastn.tensor.oe_blocksparse import slice_leg_uniform
        specs.append(("uniform-output", {o: slice_leg_uniform(leg_of(o), rng.randint(1, max(1, sum(leg_of(o).D))))}))
        o2 = rng.choice(out_labels)
        specs.append(("int-output", {o2: rng.randint(1, max(1, max(leg_of(o2).D or (1,))))}))   # slices inside charge sectors
    if contracted and out_labels:
        specs.append(("several", {rng.choice(contracted): rng.randint(1, 3), rng.choice(out_labels): yastn.make_sliced_legs(leg_of(out_labels[0])) if False else rng.randint(1, 3)}))
    specs = [(n, u) for n, u in specs if u is None or all((not isinstance(v, list)) or len(v) > 0 for v in u.values())]
    paths = all_pairwise_paths(nt, limit=12 if ctx.tier == "quick" else 40, rng=rng)
    compared = 0
    for path in paths:
        ctx.count("paths_tried")
        for name, unroll in specs:
            u = None if unroll is None else {k: (list(v) if isinstance(v, list) else v) for k, v in unroll.items()}
            try:
                r = yastn.contract_with_unroll(*args, optimize=list(path), unroll=u)
            except Exception as e:
                if type(e).__name__ == "YastnError" and "inefficient order" in str(e):
                    ctx.count("paths_rejected_inefficient_order")
                    continue
                ctx.violation(f"unroll:exception:{type(e).__name__}:{name}",
                              f"contract_with_unroll raised {type(e).__name__}: {e} for path {path} unroll {name}",
                              {"igs": igs, "out": out_labels, "path": path, "unroll": name, "tensors": [h.desc() for h in hts]})
                continue
            ctx.count("unroll_variants")
            ctx.count("unroll:" + name)
            bad = None
            if fused_info is not None:
                posF, fmode = fused_info
                hist = r.get_legs(posF).history() if r.ndim == len(out_y) else "?"
                if r.ndim != len(out_y) or hist != ("p(oo)" if fmode == "hard" else "m(oo)"):
                    ctx.violation(f"unroll:result:fused-output-leg:{name}",
                                  f"contract_with_unroll path {path} unroll {name}: result rank {r.ndim} (expected {len(out_y)}), history of the {fmode}-fused output leg {hist!r}",
                                  {"igs": igs_y, "out": out_y, "path": path, "unroll": name})
                    continue
                r = r.unfuse_legs(axes=posF)
            if r.ndim != len(out_legs):
                bad = f"rank {r.ndim}"
            elif tuple(r.n) != tuple(nexp):
                bad = f"charge {r.n} expected {nexp}"
            else:
                for i, (yl, hl) in enumerate(zip(r.get_legs(), out_legs)):
                    m = D.sub_leg_ok(yl, hl)
                    if m:
                        bad = f"leg {i}: {m}"
                        break
            if bad is None:
                got = D.obs_dense(r, out_legs)
                err = float(np.max(np.abs(got - expected))) if expected.size else 0.0
                if got.shape != expected.shape or not ctx.margin("unroll", err, tol):
                    bad = f"dense values differ from einsum by {err:.2e} (allowed {tol:.2e})"
            if bad:
                ctx.violation(f"unroll:result:{name}", f"contract_with_unroll path {path} unroll {name}: {bad}",
                              {"igs": igs, "out": out_labels, "path": path, "unroll": name, "tensors": [h.desc(values=True) for h in hts]})
            compared += 1
    ctx.case(("unroll", sym, tuple(h.sig() for h in hts), tuple(map(tuple, igs))), compared > 0,
             {"kind": "unroll-network", "sym": sym, "igs": igs, "out": out_labels, "tensors": [h.desc() for h in hts]} if idx < 20 and idx % 10 == 3 else None)


# ------------------------------------------------------------------ (C) families of tensors fused alike, stored sectors differing

def fused_family_case(ctx, idx):
    """3-4 tensors over the same legs and charge but with different stored sectors, fused by one recipe with the
    configuration's default mode (and lazily transposed alike); n-ary add in every operand order, tensordot and vdot
    over the fused legs.  Every configuration must reproduce the dense truth (known from the harness) after unfusing."""
    import yastn
    rng, nprng = ctx.rng(idx), ctx.nprng(idx)
    sym = rng.choice(G.ALL_SYMS)
    rank = rng.randint(3, 4)
    legs = [D.gen_leg(rng, sym, dmax=2, nsec=(2, 3)) for _ in range(rank)]
    n = D.gen_n(rng, sym, legs, "fit")
    dt = rng.choice(("float64", "complex128"))
    k = rng.randint(3, 4)
    hs = [D.gen_tensor(rng, nprng, sym, legs=legs, n=n, dtype=dt, density=rng.choice((1.0, 0.7, 0.45))) for _ in range(k)]
    if len({tuple(sorted(h.blocks)) for h in hs}) < 2:
        hs[0] = hs[0].with_present(sorted(hs[0].blocks)[::2])
    perm = list(range(rank)); rng.shuffle(perm)
    cut = rng.randint(1, rank - 1)
    g1, g2 = tuple(perm[:cut]), tuple(perm[cut:])
    groups = (g1 if len(g1) > 1 else g1[0], g2 if len(g2) > 1 else g2[0])
    lazy = rng.random() < 0.5
    amps = [rng.choice((1, -1.5, 0.5, 2, None)) for _ in range(k)]
    orders = list(itertools.permutations(range(k)))
    rng.shuffle(orders)
    orders = orders[:6]
    flat = list(g1) + list(g2)
    dense = [np.transpose(h.dense(), flat) for h in hs]
    ulegs = [legs[i] for i in flat]
    scale = sum(float(np.linalg.norm(x.ravel())) for x in dense) + 1e-300
    compared = 0
    for pol in POLICIES:
        for fus in ("hard", "meta"):
            cfg = D.make_cfg(sym, False, tensordot_policy=pol, default_fusion=fus)
            label = f"{pol}/{fus}"
            fs = []
            for h in hs:
                f = h.to_yastn(cfg).fuse_legs(axes=groups, mode=None)
                if lazy:
                    f = f.transpose((1, 0))
                fs.append(f)
            ctx.count("config_runs")
            for order in orders:
                try:
                    r = yastn.add(*[fs[i] for i in order], amplitudes=[amps[i] for i in order])
                    if lazy:
                        r = r.transpose((1, 0))
                    u = GP.unfuse_all(r)
                    e = sum((1 if amps[i] is None else amps[i]) * dense[i] for i in order)
                    bad = None
                    if u.ndim != rank or tuple(u.n) != tuple(n):
                        bad = f"rank {u.ndim} / charge {u.n}"
                    else:
                        for j, (yl, hl) in enumerate(zip(u.get_legs(), ulegs)):
                            m = D.sub_leg_ok(yl, hl)
                            if m:
                                bad = f"leg {j}: {m}"
                                break
                    if bad is None:
                        got = D.obs_dense(u, ulegs)
                        err = float(np.max(np.abs(got - e))) if e.size else 0.0
                        if not ctx.margin("family-add", err, 1e-12 * scale * 8):
                            bad = f"values differ from the dense sum by {err:.2e}"
                except Exception as ex:
                    bad = f"raised {type(ex).__name__}: {ex}"
                ctx.count("family_adds")
                compared += 1
                if bad:
                    ctx.violation("family:add-n-ary", f"add of {k} alike-fused tensors in operand order {order} under {label} (lazy={lazy}): {bad}",
                                  {"sym": sym, "groups": groups, "order": order, "config": label, "lazy": lazy, "tensors": [h.desc() for h in hs]})
                    break
            # pairwise contraction and overlap over the fused legs
            try:
                a, b = fs[0], fs[1]
                v = yastn.vdot(a, b)
                ev = np.sum(np.conj(dense[0]) * dense[1])
                if not ctx.margin("family-vdot", abs(complex(v) - complex(ev)), 1e-12 * scale * scale * 8):
                    ctx.violation("family:vdot", f"vdot over fused legs {v} vs dense {ev} under {label} (lazy={lazy})")
                r = yastn.tensordot(a, b, axes=((0, 1), (0, 1)), conj=(1, 0))
                if not ctx.margin("family-dot", abs(complex(r.to_number()) - complex(ev)), 1e-12 * scale * scale * 8):
                    ctx.violation("family:tensordot", f"full contraction over fused legs {r.to_number()} vs dense {ev} under {label}")
                ctx.count("family_contractions", 2)
            except Exception as ex:
                ctx.violation("family:contraction-raised", f"vdot/tensordot over alike-fused legs raised {type(ex).__name__}: {ex} under {label} (lazy={lazy})",
                              {"sym": sym, "groups": groups, "config": label, "lazy": lazy, "tensors": [h.desc() for h in hs]})
    ctx.case(("family", sym, tuple(h.sig() for h in hs), groups, lazy), compared > 0,
             {"kind": "fused-family", "sym": sym, "groups": groups, "lazy": lazy, "tensors": [h.desc() for h in hs]} if idx < 30 and idx % 12 == 7 else None)


def tiny_policy_case(ctx, idx):
    """(D) one tiny contraction under the three policies x (plain | contracted legs fused hard | fused meta)."""
    import yastn
    from checks.c01 import tiny_operands
    sym, a, b, k, open_a, open_b = tiny_operands(ctx.rng(idx), ctx.nprng(idx), idx)
    rng = ctx.rng(idx, salt=7)
    ax = (tuple(range(1, k + 1)), tuple(range(k)))
    e = np.tensordot(a.dense(), b.dense(), axes=ax)
    tol = 8 * 2.3e-16 * 40 * max(float(np.linalg.norm(a.dense())) * float(np.linalg.norm(b.dense())), 1e-300)
    keys_a = {tuple(kk[1:]) for kk in a.blocks}
    keys_b = {tuple(kk[:k]) for kk in b.blocks}
    if keys_a != keys_b:
        ctx.count("tiny_operand_with_unpartnered_blocks")
    variant = rng.choice(("plain", "plain", "hard", "meta"))
    got = {}
    for pol in POLICIES:
        cfg = D.make_cfg(sym, False, tensordot_policy=pol)
        ya, yb = a.to_yastn(cfg), b.to_yastn(cfg)
        try:
            if variant == "plain":
                r = yastn.tensordot(ya, yb, axes=ax)
            else:
                fa = ya.fuse_legs(axes=(0, tuple(range(1, k + 1))), mode=variant)
                fb = yb.fuse_legs(axes=(tuple(range(k)), k), mode=variant)
                r = yastn.tensordot(fa, fb, axes=(1, 0))
        except Exception as ex:       # noqa: BLE001
            got[pol] = ("exception", type(ex).__name__, str(ex)[:120])
            continue
        if r.ndim != 2 or tuple(r.n) != tuple(G.add(sym, (a.n, b.n))) or any(D.sub_leg_ok(yl, hl) for yl, hl in zip(r.get_legs(), (open_a, open_b))):
            got[pol] = ("structure", r.ndim, tuple(r.n), repr(r.get_legs())[:200])
            continue
        got[pol] = ("tensor", D.obs_dense(r, [open_a, open_b]))
    ctx.count("tiny_policy_triples")
    ctx.count(f"tiny:{variant}")
    sample = {"sym": sym, "variant": variant, "operands": [a.desc(values=True), b.desc(values=True)]}
    for pol, g in got.items():
        if g[0] != "tensor":
            ctx.violation(f"tiny:{g[0]}:{pol}:{variant}", f"tiny tensordot under {pol} ({variant}): {g[1:]}", sample)
        else:
            err = float(np.max(np.abs(g[1] - e))) if e.size else 0.0
            if not ctx.margin("arith:tiny-tensordot", err, tol):
                others = {q: (float(np.max(np.abs(h[1] - e))) if h[0] == "tensor" and e.size else None) for q, h in got.items() if q != pol}
                ctx.violation(f"config-dependence:value:tiny-tensordot:{pol}:{variant}",
                              f"tensordot under {pol} ({variant}) differs from NumPy by {err:.3e} (allowed {tol:.3e}); other policies: {others}",
                              {**sample, "got": g[1], "expected": e})
    if idx % 50 == 0:
        ctx.case(("tiny", sym, variant, a.sig(), b.sig()), True)
    else:
        ctx.counters["evaluations"] += 1


def run_case(ctx, idx):
    if idx >= MAIN_CASES[ctx.tier]:
        return tiny_policy_case(ctx, idx)
    if idx % 4 == 2:
        unroll_case(ctx, idx)
    elif idx % 4 == 3:
        fused_family_case(ctx, idx)
    else:
        program_case(ctx, idx)


def canaries(ctx):
    """A one-ulp change in a data-movement chain and a wrong charge must be seen by the comparator."""
    import random
    sub = type(ctx)(ctx.prop, ctx.tier, ctx.seed)
    rng, nprng = random.Random(3), np.random.default_rng(3)
    cfg = D.make_cfg("U1")
    h = D.gen_tensor(rng, nprng, "U1", rank=3, density=1.0, nmode="fit", dtype="float64")
    prog = GP.Program("U1", False, [h], [("transpose", 0, [2, 0, 1]), ("conj", 1)], "float64")
    _, obs = GP.execute(prog, cfg)
    k = 0
    o = obs[k][0]
    x = o[3].copy()
    x.ravel()[np.flatnonzero(x.ravel())[0] if np.any(x) else 0] += 1e-6
    compare_obs(sub, prog, k, prog.steps[k], obs[k], [("tensor", o[1], o[2], x, o[4])] + obs[k][1:], "canary", False)
    ctx.canary("value-difference", any(v["key"].startswith("config-dependence:value") for v in sub.violations))
    sub.violations.clear()
    compare_obs(sub, prog, k, prog.steps[k], obs[k], [("tensor", o[1], (o[2][0] + 1,), o[3], o[4])] + obs[k][1:], "canary", False)
    ctx.canary("charge-difference", any(v["key"].startswith("config-dependence:charge") for v in sub.violations))
    sub.violations.clear()
    y = o[3].copy()
    if y.size:
        j = np.flatnonzero(y.ravel())[0] if np.any(y) else 0
        y.ravel()[j] = y.ravel()[j] * (1 + 4.5e-16) if y.ravel()[j] != 0 else 1e-300
    compare_obs(sub, prog, k, prog.steps[k], obs[k], [("tensor", o[1], o[2], y, o[4])] + obs[k][1:], "canary", True)
    ctx.canary("bit-exact-chain", any(v["key"].startswith("config-dependence:value-exact") for v in sub.violations))
