"""C19  Symmetry rules are abelian groups and legs hold canonical charges.

EXHAUSTIVE enumeration (run_shard override; work units are case indices so --one / --replay work):

level A  every tuple (t_1..t_m) of charges in the box (all charges of finite factors, |t| <= B for U(1) factors),
         every signature vector s in {-1,+1}^m and new_signature in {-1,+1}: the real ``sym.fuse`` (one vectorised
         call on a read-only int64 array, as fusion calls it) against the independent group law of vmon.groups
         (python ints; evaluated per factor as a table and gathered -- self-checked against the direct call);
level B  on a (smaller) box the axioms are demonstrated by composing real calls: commutativity (all permutations),
         identity (appended zero charges, idempotent canonical form), inverse (signature flip == new_signature
         flip == inverse element), every set partition of the summands with every choice of group signatures
         (includes both associativity bracketings and the groupings fuse_legs uses, S_g = s of the first member)
         == fusing at once, batch call == element-wise calls, the add_charges wrapper;
edge     per symmetry: empty batches (0, m, NSYM), inputs outside the canonical range of finite factors, int32 arrays and
         list / numpy containers in add_charges, U(1) charges up to 2^63-1 (judged while every partial sum fits int64);
         legs_union (any order / bracketing = set union of (t, D); incompatible operands rejected), leg_product /
         undo_leg_product against the group law for every order of 1-3 legs, gaussian_leg basics;
Leg      the full product of an argument grid in and just outside the valid domain against a declarative validity
         predicate; accepted legs: canonical sorted storage, python-int types, conj involution / dual, hash / equality.
The enumerated counts are compared with the closed forms in finalize; coverage.exhaustive is set only then.
"""
from __future__ import annotations

import itertools
import math

import numpy as np

from vmon import groups as G
from vmon import harness as H

PROP = "C19"
SYMS = G.ALL_SYMS          # dense, Z2, Z3, U1, Z2xU1, U1xU1, U1xU1xZ2
RULE = ("exhaustive: for every shipped symmetry, all m-tuples of charges in the box (complete finite factors, |t|<=B for "
        "U(1) factors; B and m per tier in coverage.boxes), all 2^m signature vectors and both new_signature values [level A: "
        "fuse vs independent group law]; on a smaller box all permutations, set partitions x group signatures, identity, "
        "inverse, batch-vs-single and add_charges [level B]; the full Leg argument grid (sym|config x signatures "
        "1,-1,0,2,1.0,-1.0,np.int64 x charge specs x dimension specs).  One evaluation = one (tuple, s, new_signature) or one "
        "Leg grid point; distinct = (level, symmetry, m, signature vector, new_signature) resp. (symmetry, spec names); "
        "every evaluation is non-trivial (a decision of the oracle)")
ASSUMPTIONS = ["vmon.groups (python ints, moduli table) is the group law of the shipped symmetries",
               "the per-factor table + numpy gather used to vectorise the oracle equals vmon.groups.add (self-checked on a "
               "stride of rows in every call)",
               "Leg arguments: charges/dimensions may be nested or flat, only the flattened sequence counts (the library flattens; "
               "tests use both forms); integer-valued floats (1.0, 2.0) are accepted and stored as int; bool is not in the grid"]


# ------------------------------------------------------------------ domain description (shared by shards and finalize)

def two_u1(sym):
    return sum(1 for m in G.MODULI[sym] if m == 0)


def bound(tier, level, sym, m):
    """U(1) bound B for (level, symmetry, number of summands); None = not enumerated."""
    nu = two_u1(sym)
    th = tier == "thorough"
    if level == "A":
        if m <= 3:
            return 6 if th else 3
        if m == 4:
            if nu <= 1:
                return 6 if th else 3
            if sym == "U1xU1":
                return 2
            return 2 if th else 1
        return None
    # level B (axioms by composition)
    if m <= 3:
        if nu <= 1:
            return 6 if th else 3
        if sym == "U1xU1":
            return 3 if th else 2
        return 2 if th else 1
    if m == 4:
        if nu <= 1:
            return 2
        if sym == "U1xU1":
            return 1
        return 1 if th else None
    return None


def ms(tier):
    return (1, 2, 3, 4)


def box(sym, B):
    comps = [tuple(range(mod)) if mod else tuple(range(-B, B + 1)) for mod in G.MODULI[sym]]
    return list(itertools.product(*comps))


def box_size(sym, B):
    return int(np.prod([mod if mod else 2 * B + 1 for mod in G.MODULI[sym]])) if G.MODULI[sym] else 1


CHUNK_ROWS = 150000


def units(tier):
    """Deterministic list of work units."""
    out = []
    for level in ("A", "B"):
        for sym in SYMS:
            for m in ms(tier):
                B = bound(tier, level, sym, m)
                if B is None:
                    continue
                nb = box_size(sym, B)
                K = nb ** m
                limit = CHUNK_ROWS if level == "A" else CHUNK_ROWS // 12
                if K > limit and m >= 2:
                    for c in range(nb):
                        out.append(("fuse" + level, sym, m, B, c))
                else:
                    out.append(("fuse" + level, sym, m, B, None))
    for sym in SYMS:
        out.append(("leg", sym, 0, 0, None))
    for sym in SYMS:
        out.append(("fuse-edge", sym, 0, 0, None))
        out.append(("legops", sym, 0, 0, None))
    return out


def closed_form(tier):
    """Expected number of enumerated (tuple, s, new_signature) triples per (level, sym, m)."""
    exp = {}
    for level in ("A", "B"):
        for sym in SYMS:
            for m in ms(tier):
                B = bound(tier, level, sym, m)
                if B is not None:
                    exp[f"{level}:{sym}:m{m}"] = box_size(sym, B) ** m * 2 ** m * 2
    return exp


def plan(tier):
    n = len(units(tier))
    if tier == "thorough":
        return {"cases": n, "shards": 16, "budget_s": 800}
    return {"cases": n, "shards": 8, "budget_s": 100}


def per_symmetry_floors():
    """Every symmetry class, also the rarely used ones, must have been through every axiom and every edge family."""
    f = {}
    base = {"perm_checks": 20, "identity_checks": 20, "inverse_checks": 20, "grouping_checks": 100, "grouping_as_fusion": 25,
            "assoc_checks": 8, "single_row_checks": 15, "add_charges_checks": 15, "fuse_empty_batch_checks": 28,
            "legs_union_must_reject": 4, "gaussian_leg_checks": 6, "undo_leg_product_must_reject": 1}
    for sym in SYMS:
        mods = G.MODULI[sym]
        for k, v in base.items():
            f[f"{k}:{sym}"] = v
        f[f"legs_union_checks:{sym}"] = 10 if mods else 1
        f[f"legs_union_assoc_checks:{sym}"] = 8 if mods else 1
        f[f"leg_product_checks:{sym}"] = 20 if mods else 2
        if mods:
            f[f"fuse_int32_rows:{sym}"] = 6
            f[f"add_charges_container_checks:{sym}"] = 6
        if any(mods):
            f[f"fuse_noncanonical_input_rows:{sym}"] = 300
        if 0 in mods:
            f[f"fuse_large_u1_checks:{sym}"] = 1000
    f["leg_default_history_checks"] = 300
    return f


def floors(tier):
    k = 10 if tier == "thorough" else 1
    return {"evaluations": 10_000_000 * (30 if tier == "thorough" else 1), "fuse_calls": 2000 * k, "oracle_selfchecks": 2000, "perm_checks": 500,
            "grouping_checks": 2000, "grouping_as_fusion": 300, "assoc_checks": 100, "identity_checks": 500, "inverse_checks": 500,
            "single_row_checks": 2000, "add_charges_checks": 2000, "leg_grid_points": 3000, "leg_accepted": 300,
            "leg_rejected": 1000, "leg_conj_checks": 300, "leg_hash_eq_checks": 300, "leg_dual_tensor_checks": 100,
            "units_done": len(units(tier)), **per_symmetry_floors()}


# ------------------------------------------------------------------ vectorised oracle built from vmon.groups

_TABLES = {}


def factor_table(mod, B, m, s, ns):
    """Result of the single-factor group law for every m-tuple of that factor's values (python ints, vmon.groups)."""
    key = (mod, B, m, s, ns)
    tab = _TABLES.get(key)
    if tab is None:
        name = {0: "U1", 2: "Z2", 3: "Z3"}[mod]
        vals = range(mod) if mod else range(-B, B + 1)
        tab = np.array([G.add(name, [(x,) for x in tup], s, ns)[0] for tup in itertools.product(vals, repeat=m)], dtype=np.int64)
        _TABLES[key] = tab
    return tab


def oracle(sym, B, T, s, ns):
    """Expected fuse result for the int64 array T (K, m, nsym): gather from per-factor tables."""
    K, m, nsym = T.shape
    out = np.zeros((K, nsym), dtype=np.int64)
    for k, mod in enumerate(G.MODULI[sym]):
        lo, n = (0, mod) if mod else (-B, 2 * B + 1)
        flat = np.zeros(K, dtype=np.int64)
        for i in range(m):
            flat = flat * n + (T[:, i, k] - lo)
        out[:, k] = factor_table(mod, B, m, s, ns)[flat]
    return out


def charges_array(sym, B, m, first):
    """All m-tuples over the box (optionally with the first charge fixed to box[first]) as (K, m, nsym) int64."""
    bl = box(sym, B)
    bx = np.array(bl, dtype=np.int64).reshape(len(bl), len(G.MODULI[sym]))
    nb = len(bx)
    free = m if first is None else m - 1
    if free:
        idx = np.indices((nb,) * free).reshape(free, -1).T
    else:
        idx = np.zeros((1, 0), dtype=np.int64)
    K = idx.shape[0]
    T = np.zeros((K, m, bx.shape[1]), dtype=np.int64)
    off = 0
    if first is not None:
        T[:, 0, :] = bx[first]
        off = 1
    for j in range(free):
        T[:, off + j, :] = bx[idx[:, j]]
    return T


def set_partitions(items):
    items = list(items)
    if not items:
        yield []
        return
    first, rest = items[0], items[1:]
    for part in set_partitions(rest):
        for i in range(len(part)):
            yield part[:i] + [[first] + part[i]] + part[i + 1:]
        yield [[first]] + part


# ------------------------------------------------------------------ the real call, guarded for input mutation

def call_fuse(ctx, sym, T, s, ns, variant=0):
    """sym.fuse on a read-only array; signatures as tuple / ndarray / list (rotating)."""
    cls = G.sym_module(sym)
    sig = (tuple(s), np.array(s, dtype=np.int64), list(s))[variant % 3]
    if isinstance(sig, np.ndarray):
        sig.flags.writeable = False
    ctx.count("fuse_calls")
    try:
        r = cls.fuse(T, sig, ns)
    except ValueError as e:
        if "read-only" in str(e):
            ctx.violation(f"fuse-mutates-input:{sym}", f"{sym}.fuse tried to write into its (read-only) input: {e}")
            Tc = np.array(T)
            r = cls.fuse(Tc, tuple(s), ns)
        else:
            raise
    return r


def check_result(ctx, sym, B, T, s, ns, r, exp, what="fuse"):
    """Decide one vectorised observation against the oracle.  Returns True when it agrees."""
    K, m, nsym = T.shape
    if not isinstance(r, np.ndarray) or r.shape != (K, nsym) or "int" not in r.dtype.name:
        ctx.violation(f"fuse-shape-dtype:{sym}", f"{sym}.{what}: returned {type(r).__name__} shape {getattr(r, 'shape', None)} dtype "
                      f"{getattr(r, 'dtype', None)}; expected int array of shape {(K, nsym)}", {"m": m, "s": s, "ns": ns})
        return False
    if np.array_equal(r, exp):
        return True
    bad = np.flatnonzero(np.any(r != exp, axis=1))
    i = int(bad[0])
    rng_ok = all((mod == 0) or (0 <= int(x) < mod) for x, mod in zip(r[i], G.MODULI[sym]))
    key = f"fuse-value:{sym}:m={'1' if m == 1 else 'n'}:new_signature={ns}" if rng_ok else f"fuse-range:{sym}:new_signature={ns}"
    ctx.violation(key, f"{sym}.{what}(charges={T[i].tolist()}, signatures={list(s)}, new_signature={ns}) = {r[i].tolist()} "
                  f"expected {exp[i].tolist()} ({len(bad)} of {K} rows differ)"
                  + ("" if rng_ok else " -- result outside the canonical range"),
                  {"sym": sym, "charges": T[i].tolist(), "signatures": list(s), "new_signature": ns, "got": r[i].tolist(),
                   "expected": exp[i].tolist(), "rows_differing": int(len(bad)), "rows": int(K)})
    return False


def oracle_selfcheck(ctx, sym, T, s, ns, exp):
    K = T.shape[0]
    for i in range(0, K, max(1, K // 8)):
        ctx.count("oracle_selfchecks")
        direct = G.add(sym, [tuple(int(x) for x in t) for t in T[i]], s, ns)
        if tuple(int(x) for x in exp[i]) != direct:
            raise RuntimeError(f"harness: vectorised oracle {exp[i].tolist()} != vmon.groups.add {direct} for {sym} {T[i].tolist()} {s} {ns}")


# ------------------------------------------------------------------ level A

def unit_fuse_A(ctx, sym, m, B, first):
    T = charges_array(sym, B, m, first)
    T.flags.writeable = False
    K = T.shape[0]
    snap = T.tobytes() if K <= 4096 else None
    n = 0
    for s in itertools.product((1, -1), repeat=m):
        for ns in (1, -1):
            exp = oracle(sym, B, T, s, ns)
            oracle_selfcheck(ctx, sym, T, s, ns, exp)
            r = call_fuse(ctx, sym, T, s, ns, n)
            check_result(ctx, sym, B, T, s, ns, r, exp)
            n += 1
            ctx.count(f"A:{sym}:m{m}", K)
            ctx.counters["evaluations"] += K
            ctx.case(("A", sym, m, s, ns), True, {"level": "A", "sym": sym, "m": m, "B": B, "signatures": s, "new_signature": ns,
                                                  "tuples": K, "example": T[K // 2].tolist(), "expected": exp[K // 2].tolist()}
                     if (m == 3 and s == (1, -1, -1) and ns == -1 and first in (None, 0)) else None)
            ctx.counters["evaluations"] -= 1     # ctx.case counted one
    if snap is not None and T.tobytes() != snap:
        ctx.violation(f"fuse-mutates-input:{sym}", "input array changed")


# ------------------------------------------------------------------ level B

def unit_fuse_B(ctx, sym, m, B, first):
    cls = G.sym_module(sym)
    T = charges_array(sym, B, m, first)
    T.flags.writeable = False
    K, _, nsym = T.shape
    zero = np.zeros((K, 1, nsym), dtype=np.int64)
    perms = list(itertools.permutations(range(m)))
    parts = [p for p in set_partitions(range(m))]
    n = 0
    for s in itertools.product((1, -1), repeat=m):
        sa = np.array(s)
        for ns in (1, -1):
            n += 1
            exp = oracle(sym, B, T, s, ns)
            flat = call_fuse(ctx, sym, T, s, ns, n)
            if not check_result(ctx, sym, B, T, s, ns, flat, exp):
                flat = exp          # go on with the truth so that one defect is reported once per relation
            wit = {"sym": sym, "m": m, "B": B, "signatures": s, "new_signature": ns}

            def same(r, ref, key, text, extra=None):
                if not (isinstance(r, np.ndarray) and r.shape == ref.shape and np.array_equal(r, ref)):
                    i = int(np.flatnonzero(np.any(np.asarray(r).reshape(ref.shape) != ref, axis=1))[0]) if getattr(r, "shape", None) == ref.shape else 0
                    ctx.violation(key, f"{sym}: {text}; row {T[i].tolist()} s={list(s)} ns={ns}: {np.asarray(r)[i].tolist() if getattr(r, 'shape', None) == ref.shape else r!r} vs {ref[i].tolist()}",
                                  dict(wit, row=T[i].tolist(), extra=extra))
                    return False
                return True
            # commutativity: every permutation of (charge, signature) pairs
            for p in perms[1:]:
                ctx.count("perm_checks"); ctx.count("perm_checks:" + sym)
                r = call_fuse(ctx, sym, np.ascontiguousarray(T[:, p, :]), tuple(sa[list(p)].tolist()), ns, n)
                same(r, flat, f"axiom:commutativity:{sym}", f"permuting summands by {p} changes the result", p)
            # identity: appended zero charge with either signature; canonical form is idempotent
            for e in (1, -1):
                ctx.count("identity_checks"); ctx.count("identity_checks:" + sym)
                r = call_fuse(ctx, sym, np.concatenate([T, zero], axis=1), s + (e,), ns, n)
                same(r, flat, f"axiom:identity:{sym}", f"adding the zero charge (signature {e}) changes the result")
            ctx.count("identity_checks"); ctx.count("identity_checks:" + sym)
            r = call_fuse(ctx, sym, flat.reshape(K, 1, nsym), (1,), 1, n)
            same(r, flat, f"axiom:identity:{sym}", "re-fusing a fused charge alone with signature +1 changes it (result not canonical)")
            # inverse: flipping all signatures == flipping new_signature == group inverse
            ctx.count("inverse_checks", 3); ctx.count("inverse_checks:" + sym, 3)
            neg = call_fuse(ctx, sym, T, tuple(-x for x in s), ns, n)
            neg2 = call_fuse(ctx, sym, T, s, -ns, n)
            same(neg2, neg, f"axiom:inverse:{sym}", "flipping new_signature differs from flipping every signature")
            neg3 = call_fuse(ctx, sym, flat.reshape(K, 1, nsym), (1,), -1, n)
            same(neg3, neg, f"axiom:inverse:{sym}", "fuse(x, (1,), -1) differs from the result with flipped signatures")
            r = call_fuse(ctx, sym, np.stack([flat, neg], axis=1), (1, 1), 1, n)
            same(r, np.zeros((K, nsym), dtype=np.int64), f"axiom:inverse:{sym}", "x + (result with flipped signatures) is not the zero charge")
            r = call_fuse(ctx, sym, np.stack([flat, flat], axis=1), (1, -1), 1, n)
            same(r, np.zeros((K, nsym), dtype=np.int64), f"axiom:inverse:{sym}", "x - x is not the zero charge")
            # groupings: every set partition, every choice of group signatures; fuse the groups, then the effective charges
            for part in parts:
                if len(part) == 1 and m > 1:
                    gsigs = [(1,), (-1,)]
                else:
                    gsigs = list(itertools.product((1, -1), repeat=len(part)))
                for S in gsigs:
                    ctx.count("grouping_checks"); ctx.count("grouping_checks:" + sym)
                    as_fusion = all(S[g] == s[grp[0]] for g, grp in enumerate(part))
                    effs = [call_fuse(ctx, sym, np.ascontiguousarray(T[:, grp, :]), tuple(s[i] for i in grp), S[g], n)
                            for g, grp in enumerate(part)]
                    top = call_fuse(ctx, sym, np.stack(effs, axis=1), S, ns, n)
                    if as_fusion:
                        ctx.count("grouping_as_fusion"); ctx.count("grouping_as_fusion:" + sym)
                    if m == 3 and all(x == 1 for x in S) and sorted(map(sorted, part)) in ([[0, 1], [2]], [[0], [1, 2]]):
                        ctx.count("assoc_checks"); ctx.count("assoc_checks:" + sym)
                    same(top, flat, f"axiom:grouping:{sym}", f"fusing in groups {part} with group signatures {S} differs from fusing at once",
                         {"partition": part, "group_signatures": S})
            # batch vs element-wise and the add_charges wrapper, on a stride of rows (all rows of small boxes)
            stride = 1 if K <= 64 else max(1, K // 24)
            for i in range(0, K, stride):
                ctx.count("single_row_checks"); ctx.count("single_row_checks:" + sym)
                one = call_fuse(ctx, sym, T[i:i + 1], s, ns, n)
                if not (isinstance(one, np.ndarray) and one.shape == (1, nsym) and np.array_equal(one[0], flat[i])):
                    ctx.violation(f"batch-vs-single:{sym}", f"{sym}.fuse on the single row {T[i].tolist()} gives {np.asarray(one).tolist()} "
                                  f"but row {i} of the batch call is {flat[i].tolist()}", wit)
                ctx.count("add_charges_checks"); ctx.count("add_charges_checks:" + sym)
                charges = [tuple(int(x) for x in t) for t in T[i]]
                keep = [tuple(c) for c in charges]
                want = G.add(sym, charges, s, ns)
                got = cls.add_charges(*charges, signatures=(s if n % 2 else list(s)), new_signature=ns)
                ok = isinstance(got, tuple) and got == want and all(type(x) is int for x in got)
                if ok and all(x == 1 for x in s) and ns == 1:
                    got2 = cls.add_charges(*charges)
                    ok = got2 == want
                if not ok:
                    ctx.violation(f"add_charges:{sym}", f"{sym}.add_charges{tuple(charges)} signatures={s} new_signature={ns} = {got!r}, "
                                  f"expected {want!r} (tuple of python ints)", wit)
                if charges != keep:
                    ctx.violation(f"add_charges-mutates-input:{sym}", "add_charges changed its argument tuples")
            ctx.count(f"B:{sym}:m{m}", K)
            ctx.counters["evaluations"] += K - 1
            ctx.case(("B", sym, m, s, ns), True)
    if first in (None, 0) and m == 1:
        ctx.count("add_charges_checks"); ctx.count("add_charges_checks:" + sym)
        if cls.add_charges() != G.zero(sym) or cls.zero() != G.zero(sym):
            ctx.violation(f"add_charges:{sym}", f"add_charges() = {cls.add_charges()!r}, zero() = {cls.zero()!r}; expected {G.zero(sym)}")
        if cls.NSYM != len(G.MODULI[sym]):
            ctx.violation(f"nsym:{sym}", f"NSYM={cls.NSYM}")


# ------------------------------------------------------------------ Leg grid

S_VALUES = [("1", 1), ("-1", -1), ("0", 0), ("2", 2), ("1.0", 1.0), ("-1.0", -1.0), ("np.int64(-1)", np.int64(-1))]


def leg_specs(sym):
    """[(tname, t_argument, n_intended_charges)], {n: [(dname, D_argument)]} for a symmetry."""
    mods = G.MODULI[sym]
    nsym = len(mods)
    if nsym == 0:
        tspecs = [("empty", (), 0), ("one-empty-tuple", ((),), 1), ("two-empty-tuples", ((), ()), 2), ("arity+1", ((0,),), 1),
                  ("flat-int", (0,), 1)]
    else:
        C = box(sym, 1)                     # canonical charges: all of finite factors, -1..1 for U(1)
        c0, c1 = C[0], C[-1]
        c2 = C[len(C) // 2] if len(C) > 2 else None
        flat = lambda cs: tuple(x for c in cs for x in c)
        tspecs = [("empty", (), 0), ("one", (c0,), 1), ("two-sorted", (c0, c1), 2), ("two-unsorted", (c1, c0), 2),
                  ("two-flat", flat((c1, c0)), 2), ("two-as-lists", [list(c1), list(c0)], 2),
                  ("repeated", (c0, c0), 2), ("repeated-apart", (c1, c0, c1), 3),
                  ("float-int", (tuple(float(x) for x in c1), c0), 2),
                  ("fractional", (tuple(x + 0.5 for x in c0),), 1),
                  ("arity+1", (c0 + (0,), c1 + (0,)), 2)]
        if nsym >= 2:
            tspecs.append(("arity-1", (c0[:-1], c1[:-1]), 2))
        else:
            tspecs.append(("arity-1", ((), ()), 2))
        if c2 is not None:
            tspecs.append(("three-shuffled", (c2, c1, c0), 3))
        for k, mod in enumerate(mods):
            if mod:
                hi = tuple(mod if j == k else x for j, x in enumerate(c0))
                lo = tuple(-1 if j == k else x for j, x in enumerate(c0))
                tspecs += [(f"outside-high[{k}]", (hi,), 1), (f"outside-low[{k}]", (c1, lo), 2),
                           (f"outside-multiple[{k}]", (tuple(2 * mod + x if j == k else x for j, x in enumerate(c1)),), 1)]
            else:
                big = tuple(10 ** 6 if j == k else x for j, x in enumerate(c0))
                tspecs.append((f"u1-large[{k}]", (big, c0), 2))
        # one non-canonical charge among three canonical ones, from several base charges and at every argument position, so
        # that for product groups it also lands strictly inside the sorted sector list (seeded C19_A3: only the extremal
        # sectors were passed through the fusion rule)
        if len(C) >= 4:
            bases = C[::max(1, len(C) // 4)][:4]
            for k, mod in enumerate(mods):
                if not mod:
                    continue
                for b in bases:
                    rest = [c for c in C if c != b]
                    others = [rest[0], rest[len(rest) // 2], rest[-1]]
                    for bad_v in (mod, -1):
                        bad = tuple(bad_v if j == k else x for j, x in enumerate(b))
                        for pos in range(4):
                            targ = tuple(others[:pos]) + (bad,) + tuple(others[pos:])
                            tspecs.append((f"outside-among[{k}]:{b}:{bad_v}@{pos}", targ, 4))
    dims = (2, 3, 4, 5)
    dspecs = {}
    for _, _, n in tspecs:
        if n in dspecs:
            continue
        ok = dims[:n]
        L = [("ok", ok), ("ok-list", list(ok)), ("len+1", ok + (7,))]
        if n >= 1:
            L += [("len-1", ok[:-1]), ("zero", ok[:-1] + (0,)), ("negative", (-1,) + ok[1:]), ("fractional", ok[:-1] + (1.5,)),
                  ("float-int", (2.0,) + ok[1:]), ("ones", (1,) * n)]
        dspecs[n] = L
    return tspecs, dspecs


def leg_grid_size(sym):
    tspecs, dspecs = leg_specs(sym)
    return 2 * len(S_VALUES) * sum(len(dspecs[n]) for _, _, n in tspecs)


def flatten(x):
    if isinstance(x, (str, bytes)):
        raise TypeError
    try:
        it = iter(x)
    except TypeError:
        return [x]
    out = []
    for y in it:
        out += flatten(y)
    return out


def leg_predicate(sym, s, t_arg, D_arg):
    """Declarative validity of Leg(sym, s, t, D).  Returns (valid, reason, expected (t, D) storage)."""
    nsym = len(G.MODULI[sym])
    tflat, Dflat = flatten(t_arg), flatten(D_arg)
    if not (s == 1 or s == -1):
        return False, "signature", None
    if not all(x == int(x) and x > 0 for x in Dflat):
        return False, "dimension", None
    if not all(x == int(x) for x in tflat):
        return False, "charge-not-integer", None
    if len(tflat) != len(Dflat) * nsym or (nsym == 0 and len(Dflat) > 1):
        return False, "length-mismatch", None
    tflat = [int(x) for x in tflat]
    charges = [tuple(tflat[i * nsym:(i + 1) * nsym]) for i in range(len(Dflat))]
    if not all(G.is_canon(sym, c) for c in charges):
        return False, "charge-not-canonical", None
    if len(set(charges)) != len(charges):
        return False, "charge-repeated", None
    pairs = sorted(zip(charges, (int(x) for x in Dflat)))
    return True, "valid", (tuple(c for c, _ in pairs), tuple(d for _, d in pairs))


def judge_leg(ctx, sym, names, s, outcome, leg, valid, reason, store, symcls):
    """outcome in {'accepted','rejected'}; leg: the object when accepted."""
    if outcome == "rejected":
        if valid:
            ctx.violation(f"leg:rejected-valid:{sym}", f"Leg{names} was rejected although the arguments are valid", {"names": names})
            return False
        ctx.count("leg_rejected")
        ctx.count("leg_rejected:" + reason)
        return True
    if not valid:
        ctx.violation(f"leg:accepted-invalid:{reason}", f"Leg{names} was accepted (t={getattr(leg, 't', None)}, D={getattr(leg, 'D', None)}) although: {reason}",
                      {"names": names, "sym": sym})
        return False
    ctx.count("leg_accepted")
    t, D = store
    ok = True
    if tuple(leg.t) != t or tuple(leg.D) != D:
        srt = list(leg.t) == sorted(leg.t)
        ctx.violation("leg:unsorted-storage" if not srt else "leg:stored-values",
                      f"Leg{names}: stored t={leg.t} D={leg.D}; expected sorted t={t} D={D}", {"names": names, "sym": sym})
        ok = False
    if list(leg.t) != sorted(set(leg.t)):
        ctx.violation("leg:unsorted-storage", f"Leg{names}: stored charges {leg.t} are not strictly ascending")
        ok = False
    typed = type(leg.s) is int and leg.s == int(s) and type(leg.t) is tuple and type(leg.D) is tuple and \
        all(type(c) is tuple and all(type(x) is int for x in c) for c in leg.t) and all(type(x) is int for x in leg.D)
    if not typed:
        ctx.violation("leg:stored-types", f"Leg{names}: s={leg.s!r} t={leg.t!r} D={leg.D!r} are not python ints / tuples", {"names": names})
        ok = False
    if leg.sym is not symcls:
        ctx.violation("leg:sym-not-class", f"Leg{names}: .sym is {leg.sym!r}, expected the symmetry class")
        ok = False
    return ok


def leg_followups(ctx, sym, names, leg, cfg, symcls):
    import yastn
    t, D, s = leg.t, leg.D, leg.s
    # fusion-history arguments left to their defaults: an elementary ('o') leg
    ctx.count("leg_default_history_checks")
    hf = leg.hf
    if not (tuple(hf.tree) == (1,) and hf.op == 'o' and tuple(hf.s) == (s,) and tuple(hf.t) == () and tuple(hf.D) == ()
            and leg.is_fused() is False and leg.history() == 'o' and leg.drop_history() == leg):
        ctx.violation("leg:default-history", f"Leg{names}: default fusion history is {hf!r}, history()={leg.history()!r}")
    # conj: involution, dual space
    ctx.count("leg_conj_checks")
    c = leg.conj()
    fresh = yastn.Leg(symcls, s=-s, t=t, D=D)
    if c.s != -s or c.t != t or c.D != D or c.sym is not symcls:
        ctx.violation("leg:conj-not-dual", f"Leg{names}.conj(): s={c.s} t={c.t} D={c.D}; expected s={-s} and unchanged sectors")
    if tuple(c.hf.s) != (-s,) or c != fresh or hash(c) != hash(fresh):
        ctx.violation("leg:conj-not-dual", f"Leg{names}.conj() differs from the freshly built dual leg Leg(s={-s}, t, D): "
                      f"hf.s={c.hf.s}, equal={c == fresh}")
    cc = c.conj()
    if cc != leg or hash(cc) != hash(leg) or cc.s != s or tuple(cc.hf.s) != (s,):
        ctx.violation("leg:conj-not-involution", f"Leg{names}.conj().conj() != leg")
    if c == leg:
        ctx.violation("leg:conj-not-dual", f"Leg{names}.conj() == leg")
    # hashing / equality
    ctx.count("leg_hash_eq_checks")
    rev = yastn.Leg(cfg, s=s, t=t[::-1], D=D[::-1])
    if rev != leg or hash(rev) != hash(leg) or len({leg, rev}) != 1:
        ctx.violation("leg:hash-eq", f"Leg{names}: the leg built from the reversed (t, D) lists is not equal / hashes differently")
    if len(t) >= 1:
        others = [yastn.Leg(symcls, s=s, t=t, D=(D[0] + 1,) + D[1:]), yastn.Leg(symcls, s=s, t=t[1:], D=D[1:])]
        if any(o == leg for o in others):
            ctx.violation("leg:hash-eq", f"Leg{names}: equal to a leg with another dimension / a missing sector")
        if leg.tD != dict(zip(t, D)) or any(leg[x] != d for x, d in zip(t, D)):
            ctx.violation("leg:stored-values", f"Leg{names}: tD / __getitem__ inconsistent with t, D")
        # dual space in a tensor: a charge-0 tensor over (leg, leg.conj()) has exactly the diagonal blocks (t, t)
        ctx.count("leg_dual_tensor_checks")
        a = yastn.ones(config=cfg, legs=[leg, c])
        keys = sorted(tuple(k) for k in a.get_blocks_charge())
        want = sorted(tuple(x) + tuple(x) for x in t)
        if keys != want or a.get_legs() != (leg, c):
            ctx.violation("leg:conj-not-dual", f"Leg{names}: ones(legs=[leg, leg.conj()]) has blocks {keys}, expected the diagonal {want}")


def unit_leg(ctx, sym):
    import yastn
    symcls = G.sym_module(sym)
    cfg = yastn.make_config(sym=symcls)
    tspecs, dspecs = leg_specs(sym)
    for symname, symarg in (("sym", symcls), ("config", cfg)):
        for sname, s in S_VALUES:
            for tname, targ, n in tspecs:
                for dname, darg in dspecs[n]:
                    names = (sym, symname, "s=" + sname, "t:" + tname + "=" + repr(targ), "D:" + dname + "=" + repr(darg))
                    valid, reason, store = leg_predicate(sym, s, targ, darg)
                    ctx.count("leg_grid_points")
                    ctx.count("leg_grid:" + sym)
                    leg = None
                    try:
                        leg = yastn.Leg(symarg, s=s, t=targ, D=darg)
                        outcome = "accepted"
                    except yastn.YastnError:
                        outcome = "rejected"
                    except Exception as e:   # a foreign exception is a violation, classified by the invalidity class
                        ctx.violation(f"leg:foreign-exception:{type(e).__name__}:{reason}",
                                      f"Leg{names} raised {type(e).__name__}: {e} (expected {'acceptance' if valid else 'YastnError'})",
                                      {"names": names})
                        ctx.case(("leg", sym, symname, sname, tname, dname), True)
                        continue
                    ok = judge_leg(ctx, sym, names, s, outcome, leg, valid, reason, store, symcls)
                    if ok and outcome == "accepted":
                        leg_followups(ctx, sym, names, leg, cfg, symcls)
                    ctx.case(("leg", sym, symname, sname, tname, dname), True,
                             {"level": "Leg", "args": names, "valid": valid, "reason": reason, "outcome": outcome}
                             if (tname, dname, sname) in (("two-unsorted", "ok", "1"), ("outside-high[0]", "ok", "-1")) else None)



# ------------------------------------------------------------------ fuse edge cases (per symmetry)

INT64_MAX = 2 ** 63 - 1


def unit_fuse_edge(ctx, sym):
    """Empty batches, non-canonical Zn inputs, other integer containers, U(1) charges near the int64 range."""
    cls = G.sym_module(sym)
    mods = G.MODULI[sym]
    nsym = len(mods)
    # (a) empty batches: shape (0, m, NSYM) -> (0, NSYM), integer dtype, for every signature vector
    for m in (1, 2, 3):
        T = np.zeros((0, m, nsym), dtype=np.int64)
        for s_ in itertools.product((1, -1), repeat=m):
            for ns in (1, -1):
                ctx.count("fuse_empty_batch_checks"); ctx.count("fuse_empty_batch_checks:" + sym)
                r = call_fuse(ctx, sym, T, s_, ns, m)
                if not (isinstance(r, np.ndarray) and r.shape == (0, nsym) and "int" in r.dtype.name):
                    ctx.violation(f"fuse-empty-batch:{sym}", f"{sym}.fuse on an empty batch (0, {m}, {nsym}) returned "
                                  f"{type(r).__name__} shape {getattr(r, 'shape', None)} dtype {getattr(r, 'dtype', None)}")
    ctx.case(("edge", sym, "empty"), True)
    if nsym == 0:
        return
    # (b) inputs outside the canonical range of the finite factors (fuse canonicalises; Leg validation relies on it):
    #     finite components in [-2n-1, 3n], U(1) components in [-1, 1]; m = 1, 2; all signatures
    comps = [tuple(range(-2 * mod - 1, 3 * mod + 1)) if mod else (-1, 0, 1) for mod in mods]
    vals = list(itertools.product(*comps))
    if any(mods):
        for m in (1, 2):
            rows = list(itertools.product(vals, repeat=m))
            if len(rows) > 40000:
                rows = rows[::len(rows) // 40000 + 1]
            T = np.array(rows, dtype=np.int64).reshape(len(rows), m, nsym)
            T.flags.writeable = False
            for s_ in itertools.product((1, -1), repeat=m):
                for ns in (1, -1):
                    exp = np.array([G.add(sym, r_, s_, ns) for r_ in rows], dtype=np.int64).reshape(len(rows), nsym)
                    r = call_fuse(ctx, sym, T, s_, ns, m)
                    ctx.count("fuse_noncanonical_input_rows", len(rows)); ctx.count("fuse_noncanonical_input_rows:" + sym, len(rows))
                    ok = isinstance(r, np.ndarray) and r.shape == exp.shape and np.array_equal(r, exp)
                    if not ok:
                        i = int(np.flatnonzero(np.any(np.asarray(r).reshape(exp.shape) != exp, axis=1))[0]) if getattr(r, "shape", None) == exp.shape else 0
                        ctx.violation(f"fuse-noncanonical-input:{sym}", f"{sym}.fuse(charges={list(rows[i])}, signatures={list(s_)}, "
                                      f"new_signature={ns}) = {np.asarray(r)[i].tolist() if getattr(r, 'shape', None) == exp.shape else r!r}, "
                                      f"expected the canonical {exp[i].tolist()}", {"sym": sym, "row": list(map(list, rows[i])), "s": s_, "ns": ns})
        ctx.case(("edge", sym, "noncanonical"), True)
    # (c) other integer containers: int32 arrays; add_charges with lists / numpy ints / numpy rows / mixed
    bx = box(sym, 1)
    rows = list(itertools.product(bx, repeat=2))[:200]
    T32 = np.array(rows, dtype=np.int32).reshape(len(rows), 2, nsym)
    for s_ in ((1, 1), (1, -1), (-1, -1)):
        for ns in (1, -1):
            exp = np.array([G.add(sym, r_, s_, ns) for r_ in rows], dtype=np.int64).reshape(len(rows), nsym)
            r = cls.fuse(T32, s_, ns)
            ctx.count("fuse_calls"); ctx.count("fuse_int32_rows", len(rows)); ctx.count("fuse_int32_rows:" + sym, len(rows))
            if not (isinstance(r, np.ndarray) and "int" in r.dtype.name and r.shape == exp.shape and np.array_equal(r, exp)):
                ctx.violation(f"fuse-int32-input:{sym}", f"{sym}.fuse on an int32 array with signatures {s_}, new_signature {ns} differs from the group law")
            for j, r_ in enumerate(rows[::7]):
                want = G.add(sym, r_, s_, ns)
                forms = {"lists": [list(c) for c in r_], "numpy-ints": [tuple(np.int64(x) for x in c) for c in r_],
                         "numpy-rows": [np.array(c, dtype=np.int64) for c in r_], "mixed": [list(r_[0]), np.array(r_[1])]}
                for fname, arg in forms.items():
                    ctx.count("add_charges_container_checks"); ctx.count("add_charges_container_checks:" + sym)
                    got = cls.add_charges(*arg, signatures=np.array(s_) if j % 2 else s_, new_signature=ns)
                    if not (isinstance(got, tuple) and got == want and all(type(x) is int for x in got)):
                        ctx.violation(f"add_charges:{sym}:container", f"{sym}.add_charges with charges given as {fname} {arg!r}, signatures {s_}, "
                                      f"new_signature {ns} = {got!r}; expected {want!r} as python ints")
    ctx.case(("edge", sym, "containers"), True)
    # (d) U(1) components near the int64 range: judged while every partial sum of the signed charges fits into int64
    #     (no range is documented; outside, the silent wrap-around is counted, not judged)
    if 0 in mods:
        big = [2 ** 62, -(2 ** 62), 2 ** 62 - 1, 2 ** 61, -(2 ** 61), 2 ** 63 - 1, -(2 ** 63) + 1, 1, -1, 0]
        u = [k for k, mod in enumerate(mods) if mod == 0]
        for m in (1, 2, 3):
            for tup in itertools.product(big, repeat=m):
                for s_ in itertools.product((1, -1), repeat=m):
                    signed = [a * b for a, b in zip(tup, s_)]
                    subs = [sum(c) for r_ in range(1, m + 1) for c in itertools.combinations(signed, r_)]
                    charges = [tuple(t_ if k in u else 0 for k in range(nsym)) for t_ in tup]
                    T = np.array(charges, dtype=np.int64).reshape(1, m, nsym)
                    for ns in (1, -1):
                        if all(abs(x) <= INT64_MAX for x in subs):
                            want = G.add(sym, charges, s_, ns)
                            r = cls.fuse(T, s_, ns)
                            ctx.count("fuse_calls"); ctx.count("fuse_large_u1_checks"); ctx.count("fuse_large_u1_checks:" + sym)
                            if tuple(int(x) for x in r.reshape(-1)) != want:
                                ctx.violation(f"fuse-large-u1:{sym}", f"{sym}.fuse(charges={charges}, signatures={list(s_)}, new_signature={ns}) = "
                                              f"{r.reshape(-1).tolist()} expected {list(want)} (all partial sums fit into int64)")
                        else:
                            ctx.count("fuse_int64_overflow_unjudged")
        ctx.case(("edge", sym, "large-u1"), True)


# ------------------------------------------------------------------ public leg operations (per symmetry)

def _leg_family(sym, symcls):
    """Small family of legs over up to three canonical charges with charge-determined dimensions (so unions are consistent)."""
    import yastn
    nsym = len(G.MODULI[sym])
    if nsym == 0:
        return [yastn.Leg(symcls, s=1, D=(3,))], {(): 3}
    C = box(sym, 1)
    base = [C[0], C[len(C) // 2], C[-1]] if len(C) > 2 else list(C)
    base = sorted(set(base))
    dim = {c: 2 + i for i, c in enumerate(base)}
    fam = []
    for r in range(1, len(base) + 1):
        for sub in itertools.combinations(base, r):
            fam.append(yastn.Leg(symcls, s=1, t=sub, D=tuple(dim[c] for c in sub)))
    return fam, dim


def unit_legops(ctx, sym):
    import yastn
    symcls = G.sym_module(sym)
    cfg = yastn.make_config(sym=symcls)
    nsym = len(G.MODULI[sym])
    fam, dim = _leg_family(sym, symcls)
    tD = lambda l: tuple(zip(l.t, l.D))
    # ---- legs_union: set union of (t, D), any order, any bracketing; single operand is returned as is
    for a in fam:
        ctx.count("legs_union_checks"); ctx.count("legs_union_checks:" + sym)
        if yastn.legs_union(a) != a:
            ctx.violation("legs_union:single", f"{sym}: legs_union(a) != a")
    for n_ in (2, 3):
        for ops in itertools.product(fam, repeat=n_):
            if n_ == 3 and len(fam) > 4 and (hash(tuple(map(tD, ops))) % 3):      # all pairs, a third of the ordered triples
                continue
            want = tuple(sorted(set().union(*(set(tD(l)) for l in ops))))
            ctx.count("legs_union_checks"); ctx.count("legs_union_checks:" + sym)
            results = [yastn.legs_union(*p_) for p_ in itertools.permutations(ops)]
            if n_ == 3:
                a, b, c = ops
                results += [yastn.legs_union(yastn.legs_union(a, b), c), yastn.legs_union(a, yastn.legs_union(b, c))]
                ctx.count("legs_union_assoc_checks"); ctx.count("legs_union_assoc_checks:" + sym)
            bad = [r for r in results if not (isinstance(r, yastn.Leg) and tD(r) == want and r.s == 1 and r.sym is symcls and r == results[0])]
            if bad:
                ctx.violation(f"legs_union:not-set-union", f"{sym}: legs_union of {[tD(l) for l in ops]} in some order / bracketing gives "
                              f"{tD(bad[0])}, expected {want}", {"sym": sym, "operands": [list(map(list, tD(l))) for l in ops]})
    # incompatible operands are rejected with YastnError
    a = fam[-1]
    rejects = [("signature", (a, a.conj()))]
    if nsym:
        other = yastn.Leg(symcls, s=1, t=a.t, D=tuple(d + 1 for d in a.D))
        rejects.append(("dimension", (a, other)))
        rejects.append(("dimension", (other, fam[0], a)))
        rejects.append(("dimension", (fam[0], fam[0], a, other)))     # the clash may sit anywhere in a longer argument list
    osym = G.sym_module("Z2" if sym != "Z2" else "Z3")
    rejects.append(("symmetry", (a, yastn.Leg(osym, s=1, t=((0,),), D=(a.D[0],)))))
    for why, ops in rejects:
        for p_ in itertools.permutations(ops):
            ctx.count("legs_union_must_reject"); ctx.count("legs_union_must_reject:" + sym)
            try:
                r = yastn.legs_union(*p_)
                ctx.violation(f"legs_union:accepted-incompatible:{why}", f"{sym}: legs_union accepted legs with different {why}: {p_} -> {r}")
            except yastn.YastnError:
                pass
    # ---- leg_product / undo_leg_product against the group law, every order of 1-3 legs with mixed signatures
    pool = fam[:4] + [l.conj() for l in fam[:3]]
    for n_ in (1, 2, 3):
        for ops in itertools.product(pool, repeat=n_):
            if n_ == 3 and (hash(tuple((l.s, tD(l)) for l in ops)) % 4):
                continue
            ctx.count("leg_product_checks"); ctx.count("leg_product_checks:" + sym)
            seff = ops[0].s
            acc = {}
            for combo in itertools.product(*(tuple(zip(l.t, l.D)) for l in ops)):
                te = G.add(sym, [c for c, _ in combo], [l.s for l in ops], seff)
                acc[te] = acc.get(te, 0) + int(np.prod([d for _, d in combo]))
            want = tuple(sorted(acc.items()))
            lp = yastn.leg_product(*ops)
            if not (isinstance(lp, yastn.Leg) and lp.s == seff and tD(lp) == want and lp.sym is symcls and (n_ == 1 or lp.is_fused())):
                ctx.violation(f"leg_product:value:{sym}", f"leg_product of {[(l.s, tD(l)) for l in ops]} = s={lp.s} {tD(lp)}, expected s={seff} {want}")
                continue
            back = yastn.undo_leg_product(lp)
            if tuple(back) != tuple(ops):
                ctx.violation(f"leg_product:undo:{sym}", f"undo_leg_product(leg_product(*legs)) != legs for {[(l.s, tD(l)) for l in ops]}: {back}")
            if lp.conj().conj() != lp or lp.conj().s != -seff or tuple(yastn.undo_leg_product(lp.conj())) != tuple(l.conj() for l in ops):
                ctx.violation(f"leg_product:conj:{sym}", f"conj of a product leg is not the product of the conjugate legs for {[(l.s, tD(l)) for l in ops]}")
            if want:
                keep = (want[0][0],)
                lq = yastn.leg_product(*ops, t_allowed=keep)
                if tD(lq) != (want[0],):
                    ctx.violation(f"leg_product:t_allowed:{sym}", f"leg_product(..., t_allowed={keep}) = {tD(lq)}, expected {(want[0],)}")
    for l in fam[:2]:
        ctx.count("undo_leg_product_must_reject"); ctx.count("undo_leg_product_must_reject:" + sym)
        try:
            r = yastn.undo_leg_product(l)
            ctx.violation("undo_leg_product:accepted-elementary-leg", f"{sym}: undo_leg_product of an elementary leg returned {r}")
        except yastn.YastnError:
            pass
    # ---- gaussian_leg: a Leg with the requested signature, total dimension and (optionally) admissible charges
    for D_total in (1, 5, 16):
        for s_ in (1, -1):
            for kw in ({}, {"nonnegative": True}, {"sigma": 2}, {"method": "rand"}):
                ctx.count("gaussian_leg_checks"); ctx.count("gaussian_leg_checks:" + sym)
                cfg.backend.random_seed(seed=D_total)
                g = yastn.gaussian_leg(cfg, s=s_, D_total=D_total, **kw)
                ok = isinstance(g, yastn.Leg) and g.s == s_ and sum(g.D) == D_total and all(d > 0 for d in g.D) and g.sym is symcls \
                    and list(g.t) == sorted(set(g.t)) and all(G.is_canon(sym, c) for c in g.t)
                if ok and kw.get("nonnegative"):
                    ok = all(x >= 0 for c in g.t for x in c)
                if ok and "method" not in kw:
                    ok = yastn.gaussian_leg(cfg, s=s_, D_total=D_total, **kw) == g      # 'round' is documented as repeatable
                if not ok:
                    ctx.violation(f"gaussian_leg:{sym}", f"gaussian_leg(s={s_}, D_total={D_total}, {kw}) = {g}")
    if nsym:
        l0 = fam[min(2, len(fam) - 1)]
        for s_ in (1, -1):
            ctx.count("gaussian_leg_checks"); ctx.count("gaussian_leg_checks:" + sym)
            g = yastn.gaussian_leg(cfg, s=s_, D_total=12, legs=[l0, l0.conj()])
            allowed = {G.add(sym, (a_, b_), (l0.s, -l0.s), -s_) for a_ in l0.t for b_ in l0.t}
            if not (sum(g.D) == 12 and set(g.t) <= allowed and g.s == s_):
                ctx.violation(f"gaussian_leg:{sym}", f"gaussian_leg(legs=[l, l.conj()], s={s_}) has charges {g.t}, admissible {sorted(allowed)}")
        ctx.count("gaussian_leg_must_reject")
        try:
            yastn.gaussian_leg(cfg, n=(0,) * (nsym + 1), D_total=4)
            ctx.violation("gaussian_leg:accepted-wrong-n", f"{sym}: gaussian_leg accepted a mean charge of wrong length")
        except yastn.YastnError:
            pass
    ctx.case(("legops", sym), True, {"level": "leg operations", "sym": sym, "family": [list(map(list, tD(l))) for l in fam][:4]})


# ------------------------------------------------------------------ driver

def run_case(ctx, idx):
    kind, sym, m, B, first = units(ctx.tier)[idx]
    if kind == "fuseA":
        unit_fuse_A(ctx, sym, m, B, first)
    elif kind == "fuseB":
        unit_fuse_B(ctx, sym, m, B, first)
    elif kind == "leg":
        unit_leg(ctx, sym)
    elif kind == "fuse-edge":
        unit_fuse_edge(ctx, sym)
    else:
        unit_legops(ctx, sym)
    ctx.count("units_done")


def run_shard(ctx):
    import time
    import traceback
    us = units(ctx.tier)
    budget = plan(ctx.tier)["budget_s"]
    t0 = time.time()
    # heaviest units first inside a shard does not matter; interleave by index for balance
    for idx in range(ctx.shard, len(us), ctx.nshards):
        if time.time() - t0 > budget:
            ctx.count("units_skipped_by_deadline")
            continue
        ctx.idx = idx
        try:
            run_case(ctx, idx)
        except Exception as e:
            ctx.violation(H.exc_key(e), f"exception escaped unit {us[idx]}: {e!r}", {"traceback": traceback.format_exc()[-3000:]})


class _FakeLeg:
    def __init__(self, **kw):
        self.__dict__.update(kw)


def canaries(ctx):
    sub = type(ctx)(ctx.prop, ctx.tier, ctx.seed)
    T = charges_array("Z3", 0, 2, None)
    exp = oracle("Z3", 0, T, (1, -1), -1)
    bad = exp.copy()
    bad[4, 0] = (bad[4, 0] + 1) % 3
    check_result(sub, "Z3", 0, T, (1, -1), -1, bad, exp)
    ctx.canary("fuse-one-wrong-row", any(v["key"].startswith("fuse-value:Z3") for v in sub.violations))
    sub.violations.clear()
    bad = exp.copy()
    bad[2, 0] -= 3
    check_result(sub, "Z3", 0, T, (1, -1), -1, bad, exp)
    ctx.canary("fuse-out-of-range", any(v["key"].startswith("fuse-range:Z3") for v in sub.violations))
    sub.violations.clear()
    check_result(sub, "Z3", 0, T, (1, -1), -1, exp.astype(float), exp)
    ctx.canary("fuse-float-dtype", any(v["key"].startswith("fuse-shape-dtype") for v in sub.violations))
    sub.violations.clear()
    check_result(sub, "Z3", 0, T, (1, -1), -1, exp, exp)
    ctx.canary("fuse-correct-accepted", not sub.violations)
    # Leg oracle
    symcls = G.sym_module("U1")
    v, reason, store = leg_predicate("U1", 1, ((1,), (0,)), (2, 3))
    fake = _FakeLeg(s=1, t=((1,), (0,)), D=(2, 3), sym=symcls)
    judge_leg(sub, "U1", ("canary",), 1, "accepted", fake, v, reason, store, symcls)
    ctx.canary("leg-unsorted", any(x["key"] == "leg:unsorted-storage" for x in sub.violations))
    sub.violations.clear()
    v, reason, store = leg_predicate("Z3", 1, ((3,),), (2,))
    judge_leg(sub, "Z3", ("canary",), 1, "accepted", _FakeLeg(s=1, t=((3,),), D=(2,), sym=G.sym_module("Z3")), v, reason, store, G.sym_module("Z3"))
    ctx.canary("leg-noncanonical-accepted", any(x["key"] == "leg:accepted-invalid:charge-not-canonical" for x in sub.violations))
    sub.violations.clear()
    v, reason, store = leg_predicate("U1", -1, (0, 1), (2, 3))
    judge_leg(sub, "U1", ("canary",), -1, "rejected", None, v, reason, store, symcls)
    ctx.canary("leg-valid-rejected", any(x["key"].startswith("leg:rejected-valid") for x in sub.violations))


def finalize(cov, merged):
    tier = "thorough" if cov["reach_floors"].get("units_done") == len(units("thorough")) != len(units("quick")) else "quick"
    c = merged["counters"]
    exp = closed_form(tier)
    got = {k: int(c.get(k, 0)) for k in exp}
    mism = {k: (got[k], exp[k]) for k in exp if got[k] != exp[k]}
    grid_exp = {s: leg_grid_size(s) for s in SYMS}
    grid_got = {s: int(c.get("leg_grid:" + s, 0)) for s in SYMS}
    gm = {s: (grid_got[s], grid_exp[s]) for s in SYMS if grid_got[s] != grid_exp[s]}
    cov["enumerated_vs_closed_form"] = {k: [got[k], exp[k]] for k in sorted(exp)}
    cov["leg_grid_vs_closed_form"] = {s: [grid_got[s], grid_exp[s]] for s in SYMS}
    cov["boxes"] = {f"{lvl}:{sym}:m{m}": bound(tier, lvl, sym, m) for lvl in ("A", "B") for sym in SYMS for m in ms(tier)
                    if bound(tier, lvl, sym, m) is not None}
    cov["tuples_total"] = int(sum(got.values()))
    skipped = int(c.get("units_skipped_by_deadline", 0))
    if mism:
        cov["inconclusive_reasons"].append("enumerated count != closed form: " + str(mism)[:400])
    if gm:
        cov["inconclusive_reasons"].append("Leg grid not fully visited: " + str(gm)[:300])
    if skipped:
        cov["inconclusive_reasons"].append(f"{skipped} units skipped by deadline")
    cov["exhaustive"] = not mism and not gm and not skipped
    cov["exhaustive_domain"] = "charge boxes per coverage.boxes x all signature vectors x both new_signature; full Leg argument grid"
