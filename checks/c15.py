"""C15  Operations never modify their operands; copies are independent.

History monitor at the API boundary: before every interposed *public* call (functions re-exported by the
yastn packages, public methods of exported classes; at any call depth) every positional and keyword argument
is snapshotted - Tensor: digest of data bytes + struct, slices, hfs, mfs, trans, config; MPS/PEPS/environment
objects: recursively their members; containers: keys, order, elements - and snapshotted again after return or
raise.  Exempt: the receiver (first argument) of the documented in-place API (names ending in '_', set_block,
item assignment, _fill_tensor, Lattice.move_to_patch/apply_patch) and the two documented accumulators.
Lazily filled members of environment objects (None -> value, new cache keys) are not an observable change.
Copy independence is checked by explicit histories (copy/clone, then documented in-place edits on either side).
"""
from __future__ import annotations

import numpy as np

from vmon import dense as D
from vmon import groups as G
from vmon import immut as IM
from vmon import workloads as W
from vmon.bundle import Bundle

PROP = "C15"
RULE = ("case = random operation program / other property's generator case / copy-independence history / API probe / "
        "(thorough) repository test file, all executed under the operand-digest monitor; distinct = hash of program or "
        "(scenario kind, symmetry, structure parameters); non-trivial = at least one argument snapshot was compared in it")
ASSUMPTIONS = ["public API = callables re-exported by yastn, yastn.tn.mps, yastn.tn.fpeps(.gates,.envs), yastn.operators and public methods of exported classes",
               "in-place exemption table: " + ", ".join(sorted(IM.INPLACE_NAMES)) + ", names ending in '_' (receiver only); accumulators: "
               + ", ".join(sorted({a for a, _ in IM.ACCUMULATORS})),
               "SHA-1 digests of array bytes; environment-object memoisation (None->value, added keys) tolerated"]
MONITORS = ("immut",)

_B = {"bundle": None, "ctx": None}
HIST_KINDS = ("tensor-copy", "mps-copy", "peps-copy", "probe-product_peps", "probe-generator", "probe-from_dict",
              "env-copy", "mps-algos", "tensor-linalg", "peps-sample", "mps-readonly", "dpt-copy")


def _report(key, what, witness=None):
    _B["ctx"].violation(key, what, witness)


def ensure(ctx):
    _B["ctx"] = ctx
    if _B["bundle"] is None:
        _B["bundle"] = Bundle(_report, immut=True).install()
    return _B["bundle"]


def layout(tier):
    seg = []
    if tier == "thorough":
        seg += [("suite", len(W.test_files())), ("prog", 4000), ("hist", 1500)]
        per = 200
    else:
        seg += [("prog", 300), ("hist", 240)]
        per = 25
    for name in W.foreign_modules():
        if tier != "thorough" and name not in W.TENSOR_LEVEL:
            continue      # MPS/PEPS generators are driven in the thorough tier only (seconds per case under the monitors)
        seg.append(("foreign:" + name, per if name in ("c01", "c03", "c04", "c05", "c13", "c14", "c17") else max(4, per // 6)))
    return seg


def locate(tier, idx):
    for kind, n in layout(tier):
        if idx < n:
            return kind, idx
        idx -= n
    raise IndexError


def plan(tier):
    n = sum(k for _, k in layout(tier))
    if tier == "thorough":
        return {"cases": n, "shards": 16, "budget_s": 3300, "hard_timeout_s": 5400}
    return {"cases": n, "shards": 8, "budget_s": 300}


def floors(tier):
    if tier == "thorough":
        return {"snapshotted_calls": 500000, "exempt_inplace_calls": 5000, "copy_histories": 500, "suite_files_run": 80,
                "dpt_source_with_swaps": 30, "mps_readonly_with_central_block": 30}
    return {"snapshotted_calls": 20000, "exempt_inplace_calls": 100, "copy_histories": 40, "dpt_source_with_swaps": 5,
            "mps_readonly_with_central_block": 5, "svdvals_operand_with_row_or_column_block": 3}


# ------------------------------------------------------------------ copy-independence histories

def _same(ctx, key, what, s0, obj):
    d = IM.diff(s0, IM.snapshot(obj))
    if d:
        ctx.violation(key, f"{what}: changed at {d[0]}: {d[1]}", {"path": d[0], "change": d[1]})
        return False
    return True


def hist_tensor_copy(ctx, rng, nprng):
    sym = rng.choice(G.ALL_SYMS)
    h = D.gen_tensor(rng, nprng, sym, rank=rng.randint(1, 4), density=1.0, nmode="fit")
    if not h.blocks:
        return ("tensor-copy", sym, "empty")
    a = h.to_yastn()
    if rng.random() < 0.5 and a.ndim >= 2:
        p = list(range(a.ndim)); rng.shuffle(p)
        a = a.transpose(tuple(p))
    how = rng.choice(("copy", "clone"))
    b = getattr(a, how)()
    sb = IM.snapshot(b)
    # documented in-place edits of the source
    def logical_block(t, i):
        c = t.consume_transpose()          # block keys and shapes in the logical order of legs
        return c.struct.t[i], c.struct.D[i]
    key, shp = logical_block(a, 0)
    a[key] = a[key] * 0 + 7.0
    a.set_block(ts=key, Ds=shp, val="ones")
    _same(ctx, f"copy-not-independent:Tensor.{how}", f"Tensor.{how}() changed after in-place edit of its source", sb, b)
    sa = IM.snapshot(a)
    key, shp = logical_block(b, -1)
    b.set_block(ts=key, Ds=shp, val="zeros")
    b._data[...] = 3.0 if b.size else 0   # raw storage write on the copy must not reach the source either
    _same(ctx, f"copy-not-independent:Tensor.{how}:reverse", f"source changed after in-place edit of its Tensor.{how}()", sa, a)
    ctx.count("copy_histories")
    ctx.count("copy_histories:tensor")
    return ("tensor-copy", sym, how, h.sig())


def _ops(rng, which=None):
    import yastn
    fam = which or rng.choice(("Spin12:dense", "Spin12:Z2", "Spin12:U1", "Spin1:Z3", "Spin1:U1", "SpinlessFermions:U1",
                               "SpinlessFermions:Z2", "SpinfulFermions:U1xU1", "SpinfulFermions:Z2"))
    cls, sym = fam.split(":")
    return getattr(yastn.operators, cls)(sym=sym), fam


def _rand_mps(rng, ops, N, D_total=6, mpo=False):
    import yastn.tn.mps as mps
    ops.config.backend.random_seed(rng.randrange(2 ** 31))
    I = mps.product_mpo(ops.I(), N)
    if mpo:
        return mps.random_mpo(I, D_total=D_total)
    sym = G.sym_name(ops.config.sym)
    space = ops.space()
    for _ in range(8):
        # an admissible total charge: sum of one local charge per site
        n = G.add(sym, [rng.choice(space.t) for _ in range(N)]) if sym != "dense" else None
        try:
            return mps.random_mps(I, D_total=D_total, n=n)
        except Exception as e:
            if type(e).__name__ != "YastnError":
                raise
    from vmon.harness import CaseSkip
    raise CaseSkip


def hist_mps_copy(ctx, rng, nprng):
    import yastn.tn.mps as mps
    ops, fam = _ops(rng)
    N = rng.randint(2, 5)
    psi = _rand_mps(rng, ops, N, mpo=rng.random() < 0.3)
    if rng.random() < 0.5:
        psi.canonize_(to="first" if rng.random() < 0.5 else "last")
    central = rng.random() < 0.5
    if central:    # leave a central block in place (the state between orthogonalize_site_ and absorb_central_)
        psi.orthogonalize_site_(rng.randrange(N), to=rng.choice(("first", "last")))
        ctx.count("mps_copy_with_central_block", int(psi.pC is not None))
    how = rng.choice(("copy", "clone", "shallow_copy"))
    phi = getattr(psi, how)()
    s_phi = IM.snapshot(phi)
    s_psi = IM.snapshot(psi)
    # documented idiom: in-place algorithms on one side leave the other unchanged (also for shallow_copy)
    edit = rng.choice(("canonize_", "truncate_", "setitem", "orth", "factor"))
    if central and edit in ("orth", "truncate_", "canonize_"):
        edit = rng.choice(("absorb", "setitem", "factor"))   # a second central block is rejected by documentation
    tgt, other, s_other, side = (psi, phi, s_phi, "source") if rng.random() < 0.5 else (phi, psi, s_psi, "copy")
    if edit == "canonize_":
        tgt.canonize_(to=rng.choice(("first", "last")), normalize=rng.random() < 0.5)
    elif edit == "truncate_":
        tgt.canonize_(to="last")
        tgt.truncate_(to="first", opts_svd={"D_total": 2})
    elif edit == "setitem":
        n = rng.randrange(N)
        tgt[n] = tgt[n] * 2.0
    elif edit == "orth":
        tgt.orthogonalize_site_(rng.randrange(N), to=rng.choice(("first", "last")))
        tgt.absorb_central_(to=rng.choice(("first", "last")))
    elif edit == "absorb":
        tgt.absorb_central_(to=rng.choice(("first", "last")))
    else:
        tgt.factor = 3.0 * tgt.factor
    _same(ctx, f"copy-not-independent:Mps.{how}:{edit}", f"in-place {edit} on the {side} changed the other side of Mps.{how}()", s_other, other)
    if how != "shallow_copy":
        # deep in-place write into a site tensor of one side
        key = rng.choice(sorted(tgt.A, key=str))      # any stored tensor, the central block included
        s_other = IM.snapshot(other)
        t = tgt.A[key]
        if t.size:
            t._data[...] = 1.25
        _same(ctx, f"copy-not-independent:Mps.{how}:site-data", f"writing into a site tensor of the {side} changed the other side of Mps.{how}()", s_other, other)
    ctx.count("copy_histories")
    ctx.count("copy_histories:mps")
    return ("mps-copy", fam, N, how, edit, side)


def _small_peps(rng, which=None):
    import yastn
    import yastn.tn.fpeps as fpeps
    ops, fam = _ops(rng, which or rng.choice(("SpinlessFermions:U1", "SpinlessFermions:Z2", "Spin12:dense", "Spin12:Z2")))
    geo = rng.choice((fpeps.SquareLattice(dims=(2, 2), boundary="obc"), fpeps.CheckerboardLattice(),
                      fpeps.SquareLattice(dims=(1, 3), boundary="obc"), fpeps.SquareLattice(dims=(2, 2), boundary="infinite")))
    if fam.startswith("Spinless"):
        vecs = {s: (ops.vec_n(val=rng.randint(0, 1))) for s in geo.sites()}
    else:
        vecs = {s: ops.vec_z(val=rng.choice((-1, 1))) for s in geo.sites()} if hasattr(ops, "vec_z") else {s: ops.I() for s in geo.sites()}
    return ops, fam, geo, vecs


def hist_peps_copy(ctx, rng, nprng):
    import yastn.tn.fpeps as fpeps
    ops, fam, geo, vecs = _small_peps(rng)
    psi = fpeps.product_peps(geo, dict(vecs))
    how = rng.choice(("copy", "clone", "shallow_copy"))
    phi = getattr(psi, how)()
    tgt, other, side = (psi, phi, "source") if rng.random() < 0.5 else (phi, psi, "copy")
    s_other = IM.snapshot(other)
    site = rng.choice(list(geo.sites()))
    edit = rng.choice(("setitem", "gate"))
    if edit == "setitem":
        tgt[site] = tgt[site] * 2.0
    else:
        tgt[site] = (tgt[site] * (-1.0))
    _same(ctx, f"copy-not-independent:Peps.{how}:{edit}", f"in-place {edit} on the {side} changed the other side of Peps.{how}()", s_other, other)
    if how != "shallow_copy":
        s_other = IM.snapshot(other)
        t = tgt[site]
        if hasattr(t, "_data") and t.size:
            t._data[...] = 0.5
        _same(ctx, f"copy-not-independent:Peps.{how}:site-data", f"writing into a site tensor of the {side} changed the other side of Peps.{how}()", s_other, other)
    ctx.count("copy_histories")
    ctx.count("copy_histories:peps")
    return ("peps-copy", fam, type(geo).__name__, how, edit, side)


def hist_env_copy(ctx, rng, nprng):
    import yastn.tn.fpeps as fpeps
    ops, fam, geo, vecs = _small_peps(rng, rng.choice(("SpinlessFermions:U1", "Spin12:dense")))
    psi = fpeps.product_peps(geo, dict(vecs))
    kind = rng.choice(("EnvCTM", "EnvBP"))
    env = getattr(fpeps, kind)(psi)
    how = rng.choice(("copy", "clone"))
    env2 = getattr(env, how)()
    s2 = IM.snapshot(env2)
    opts = {"D_total": 2}
    if kind == "EnvCTM":
        env.update_(opts_svd=dict(opts))
    else:
        env.update_()
    # env2 may lazily fill caches, nothing more
    d = IM.diff(s2, IM.snapshot(env2), memo_ok=True)
    if d:
        ctx.violation(f"copy-not-independent:{kind}.{how}", f"{kind}.{how}() changed after update_ of its source at {d[0]}: {d[1]}")
    ctx.count("copy_histories")
    ctx.count("copy_histories:env")
    return ("env-copy", fam, type(geo).__name__, kind, how)


def probe_product_peps(ctx, rng, nprng):
    import yastn.tn.fpeps as fpeps
    ops, fam, geo, vecs = _small_peps(rng)
    fpeps.product_peps(geo, vecs)            # the caller's dict is an argument like any other
    one = next(iter(vecs.values()))
    fpeps.product_peps(geo, one)
    ctx.count("api_probes")
    return ("probe-product_peps", fam, type(geo).__name__)


def probe_generator(ctx, rng, nprng):
    import yastn.tn.mps as mps
    ops, fam = _ops(rng, rng.choice(("SpinlessFermions:U1", "SpinfulFermions:U1xU1", "Spin12:Z2")))
    N = rng.randint(2, 4)
    params = {"t": 0.7, "mu": -0.2, "rangeN": list(range(N)), "rangeNN": [(i, i + 1) for i in range(N - 1)]}
    gen = mps.Generator(N, ops, parameters=params)
    if fam.startswith("SpinlessFermions"):
        gen.mpo_from_latex(r"\sum_{i,j \in rangeNN} t (cp_{i} c_{j} + cp_{j} c_{i}) + \sum_{j \in rangeN} mu n_{j}", parameters={})
    gen.random_seed(rng.randrange(1000))
    gen.random_mps(D_total=4)
    ctx.count("api_probes")
    return ("probe-generator", fam, N)


def probe_from_dict(ctx, rng, nprng):
    import yastn
    sym = rng.choice(("U1", "Z2", "dense", "Z3"))
    h = D.gen_tensor(rng, nprng, sym, rank=rng.randint(1, 3), density=1.0, nmode="fit")
    a = h.to_yastn()
    level = rng.choice((0, 1, 2))
    d = a.to_dict(level=level)
    mode = rng.choice(("v2", "v1-no-trans", "split"))
    if mode == "v1-no-trans":
        d["dict_ver"] = 1
        del d["trans"]
        yastn.Tensor.from_dict(d)
        yastn.from_dict(d)
    elif mode == "v2":
        yastn.Tensor.from_dict(d)
        yastn.from_dict(d, config=a.config)
        # a compatible but different config object as override (other fusion default / contraction policy): the caller's
        # dictionary still describes the original afterwards
        cfg2 = D.make_cfg(sym, False, default_fusion=rng.choice(("meta", "hard")), tensordot_policy=rng.choice(("no_fusion", "fuse_contracted")))
        yastn.Tensor.from_dict(d, config=cfg2)
        yastn.from_dict(d, config=cfg2)
        ctx.count("from_dict_with_other_config")
    else:
        data, meta = yastn.split_data_and_meta(d)
        yastn.from_dict(yastn.combine_data_and_meta(data, meta))
    ctx.count("api_probes")
    return ("probe-from_dict", sym, level, mode, h.sig())


def hist_mps_algos(ctx, rng, nprng):
    """In-place MPS algorithms: every argument except the evolved/optimised state must stay untouched."""
    import yastn.tn.mps as mps
    ops, fam = _ops(rng, rng.choice(("Spin12:Z2", "Spin12:U1", "SpinlessFermions:U1", "Spin12:dense")))
    N = rng.randint(3, 5)
    I = mps.product_mpo(ops.I(), N)
    if fam.startswith("Spinless"):
        up, dn, z = ops.cp(), ops.c(), ops.n()
    else:
        up, dn, z = ops.sp(), ops.sm(), ops.sz()
    terms = []
    for i in range(N - 1):
        J = rng.uniform(0.3, 1.0)
        terms += [mps.Hterm(J, (i, i + 1), (up, dn)), mps.Hterm(J, (i + 1, i), (up, dn))]
    terms += [mps.Hterm(rng.uniform(-1, 1), (i,), (z,)) for i in range(N)]
    H = mps.generate_mpo(I, terms)
    psi = _rand_mps(rng, ops, N, D_total=4)
    which = rng.choice(("dmrg", "tdvp", "compression", "zipper", "measure", "multiply", "add"))
    opts_svd = {"D_total": 4, "tol": 1e-12}
    if which == "dmrg":
        proj = [_rand_mps(rng, ops, N, D_total=2)] if rng.random() < 0.4 else None
        try:
            mps.dmrg_(psi, H, project=proj, method=rng.choice(("1site", "2site")), max_sweeps=2, opts_svd=opts_svd,
                      opts_eigs={"hermitian": True, "ncv": 3, "which": "SR"})
        except Exception as e:
            if type(e).__name__ != "YastnError":
                raise
            ctx.count("mps_algo_rejected")
    elif which == "tdvp":
        psi.canonize_(to="last").canonize_(to="first")
        for _ in mps.tdvp_(psi, H, times=(0, 0.05), dt=0.05, method=rng.choice(("1site", "2site", "12site")), opts_svd=opts_svd,
                           opts_expmv={"hermitian": True, "ncv": 4, "tol": 1e-10}):
            pass
    elif which == "compression":
        phi = _rand_mps(rng, ops, N, D_total=3)
        try:
            mps.compression_(phi, [H, psi], method=rng.choice(("1site", "2site")), max_sweeps=2, opts_svd=opts_svd)
        except Exception as e:
            if type(e).__name__ != "YastnError":
                raise
            ctx.count("mps_algo_rejected")
    elif which == "zipper":
        mps.zipper(H, psi, opts_svd=opts_svd)
    elif which == "measure":
        mps.measure_overlap(psi, psi)
        mps.measure_mpo(psi, H, psi)
        psi.norm()
        psi.get_entropy()
        psi.get_Schmidt_values()
        psi.get_bond_dimensions()
    elif which == "multiply":
        (H @ psi)
        (H @ H)
        (2.5 * psi)
    else:
        phi = _rand_mps(rng, ops, N, D_total=3)
        try:
            mps.add(psi, phi, amplitudes=[0.5, -2.0])
        except Exception as e:
            if type(e).__name__ != "YastnError":
                raise
            ctx.count("mps_algo_rejected")
    ctx.count("mps_algo_histories")
    return ("mps-algos", fam, N, which)


def hist_tensor_linalg(ctx, rng, nprng):
    import yastn
    sym = rng.choice(G.ALL_SYMS)
    l1, l2 = D.gen_leg(rng, sym, dmax=3), D.gen_leg(rng, sym, dmax=3)
    h = D.gen_tensor(rng, nprng, sym, legs=[l1, l2, l1.conj(), l2.conj()], n=G.zero(sym), density=1.0)
    a = h.to_yastn()
    if rng.random() < 0.5:
        a = a.transpose((1, 0, 3, 2))
    which = rng.choice(("svd_trunc", "eigh", "eigh_trunc", "eig", "qr", "mask", "entropy", "block", "krylov", "svdvals", "svdvals"))
    if which == "svdvals":
        # values-only decompositions of operands in their natural stored order (no pending permutation, axes in order): the
        # merge step may hand the operand's own buffer to LAPACK; row / column blocks (a dimension-one sector on one side)
        k1 = D.gen_leg(rng, sym, dmax=1)
        k2 = D.gen_leg(rng, sym, dmax=4)
        pair = [k1, k2] if rng.random() < 0.5 else [k2, k1]
        for legs in (pair, [k1, l2, k2]):
            g = D.gen_tensor(rng, nprng, sym, legs=legs, density=1.0, nmode="fit")
            if not g.blocks:
                continue
            b = g.to_yastn()
            ax = (0, 1) if len(legs) == 2 else rng.choice(((0, (1, 2)), ((0, 1), 2)))
            yastn.svd(b, axes=ax, compute_uv=False)
            b.svd(axes=ax, compute_uv=False)
            yastn.linalg.svd(b, axes=ax, compute_uv=False, sU=-1)
            ctx.count("svdvals_on_natural_order_operand")
            if any(1 in blk.shape and max(blk.shape) > 1 for blk in g.blocks.values()):
                ctx.count("svdvals_operand_with_row_or_column_block")
    elif which == "svd_trunc":
        opts = {"D_total": 3, "tol": 1e-10, "D_block": {t: 2 for t in l1.ts} if rng.random() < 0.3 else 2}
        yastn.svd_with_truncation(a, axes=((0, 1), (2, 3)), **opts)
        U, S, V = yastn.svd(a, axes=((0, 1), (2, 3)))
        yastn.truncation_mask(S, **opts)
        yastn.linalg.truncation_mask_multiplets(S, D_total=3)
    elif which in ("eigh", "eigh_trunc", "eig"):
        b = a + a.conj().transpose((2, 3, 0, 1))
        if which == "eigh":
            yastn.eigh(b, axes=((0, 1), (2, 3)))
        elif which == "eigh_trunc":
            yastn.eigh_with_truncation(b, axes=((0, 1), (2, 3)), D_total=3)
        else:
            yastn.eig(b, axes=((0, 1), (2, 3)))
    elif which == "qr":
        yastn.qr(a, axes=((0, 1), (2, 3)))
    elif which == "mask":
        _, S, _ = yastn.svd(a, axes=((0, 1), (2, 3)))
        m = S > float(np.median(S._data)) if S.size else S
        m.apply_mask(S, axes=0)
        S.broadcast(S, axes=0)
    elif which == "entropy":
        yastn.entropy(abs(yastn.svd(a, axes=((0, 1), (2, 3)))[1]))
    elif which == "block":
        yastn.block({(0, 0): a, (1, 1): a}, common_legs=(1, 3))
    else:
        v = yastn.rand(a.config, legs=[a.get_legs(2).conj(), a.get_legs(3).conj()], n=G.zero(sym))   # matches a also when a is lazily transposed
        if v.size:
            f = lambda x: yastn.tensordot(a, x, axes=((2, 3), (0, 1)))
            yastn.expmv(f, v, t=0.1, tol=1e-8, ncv=3)
            yastn.eigs(f, v, k=1, ncv=3)
    ctx.count("tensor_linalg_histories")
    return ("tensor-linalg", sym, which, h.sig())


def hist_peps_sample(ctx, rng, nprng):
    """env.sample with projectors given per site as nested containers of vectors: the caller's containers must survive."""
    import yastn
    import yastn.tn.fpeps as fpeps
    ops = yastn.operators.SpinlessFermions(sym=rng.choice(("U1", "Z2")))
    geo = fpeps.SquareLattice(dims=rng.choice(((2, 2), (1, 3), (2, 3))), boundary="obc")
    ops.config.backend.random_seed(rng.randrange(2 ** 31))
    vecs = {s: ops.vec_n(val=rng.randint(0, 1)) for s in geo.sites()}
    psi = fpeps.product_peps(geo, vecs)
    for b in list(geo.bonds())[:2]:
        psi.apply_gate_(fpeps.gates.gate_nn_hopping(1.0, 0.3, ops.I(), ops.c(), ops.cp(), bond=b))
    kind = rng.choice(("EnvBoundaryMPS", "EnvCTM", "EnvBP"))
    if kind == "EnvBoundaryMPS":
        env = fpeps.EnvBoundaryMPS(psi, opts_svd={"D_total": 8}, setup="lr")
    elif kind == "EnvCTM":
        env = fpeps.EnvCTM(psi, init="dl")
        env.expand_outward_()
    else:
        env = fpeps.EnvBP(psi)
        env.iterate_(max_sweeps=3)
    form = rng.choice(("site-dict-of-dicts", "site-dict-of-lists", "lattice-of-dicts", "common-dict", "common-list"))
    v0, v1 = ops.vec_n(val=0), ops.vec_n(val=1)
    if form == "site-dict-of-dicts":
        proj = {s: {0: v0, 1: v1} for s in geo.sites()}
    elif form == "site-dict-of-lists":
        proj = {s: [v0, v1] for s in geo.sites()}
    elif form == "lattice-of-dicts":
        proj = fpeps.Lattice(geo, objects={s: {"e": v0, "o": v1} for s in geo.sites()})
    elif form == "common-dict":
        proj = {0: v0, 1: v1}
    else:
        proj = [v0, v1]
    try:
        env.sample(proj, number=2)
    except Exception as e:
        if type(e).__name__ != "YastnError":
            raise
        ctx.count("sample_rejected")
    ctx.count("peps_sample_histories")
    return ("peps-sample", kind, form, tuple(geo.dims))


def hist_mps_readonly(ctx, rng, nprng):
    """Every reading / serialising / deriving method of an MPS or MPO, called on a state that may carry a central block
    (mid-sweep) and a non-unit factor: the immutability monitor snapshots self around each call."""
    import yastn
    import yastn.tn.mps as mps
    ops, fam = _ops(rng)
    N = rng.randint(2, 5)
    mpo = rng.random() < 0.3
    psi = _rand_mps(rng, ops, N, mpo=mpo)
    if rng.random() < 0.5:
        psi.canonize_(to="first" if rng.random() < 0.5 else "last")
    if rng.random() < 0.4:
        psi.factor = rng.choice((2.0, -0.5, 0.0))
    central = rng.random() < 0.6
    if central:
        psi.orthogonalize_site_(rng.randrange(N), to=rng.choice(("first", "last")))
        ctx.count("mps_readonly_with_central_block", int(psi.pC is not None))
    s0 = IM.snapshot(psi)
    calls = [("save_to_dict", lambda: psi.save_to_dict()), ("to_dict", lambda: psi.to_dict(level=rng.choice((0, 1, 2)))),
             ("get_bond_dimensions", psi.get_bond_dimensions), ("get_bond_charges_dimensions", psi.get_bond_charges_dimensions),
             ("get_virtual_legs", psi.get_virtual_legs), ("get_physical_legs", psi.get_physical_legs),
             ("get_entropy", psi.get_entropy), ("get_Schmidt_values", psi.get_Schmidt_values),
             ("norm", psi.norm), ("conj", psi.conj), ("reverse_sites", psi.reverse_sites),
             ("shallow_copy", psi.shallow_copy), ("copy", psi.copy), ("clone", psi.clone),
             ("mul", lambda: 2.0 * psi), ("neg", lambda: -psi), ("add", lambda: psi + psi),
             ("measure_overlap", lambda: mps.measure_overlap(psi, psi)), ("vdot", lambda: mps.vdot(psi, psi)),
             ("virtual_leg", lambda: psi.virtual_leg("first")), ("config", lambda: psi.config), ("len", lambda: len(psi)),
             ("sweep", lambda: list(psi.sweep(to="last"))), ("to_tensor", lambda: psi.to_tensor() if N <= 4 else None)]
    if mpo:
        calls += [("T", lambda: psi.T), ("H", lambda: psi.H), ("matmul", lambda: psi @ psi), ("to_matrix", lambda: psi.to_matrix() if N <= 3 else None)]
    else:
        calls += [("measure_1site", lambda: mps.measure_1site(psi, ops.I(), psi)), ("rdm", lambda: mps.rdm(psi, 0))]
    rng.shuffle(calls)
    for name, f in calls[:rng.randint(6, 14)]:
        try:
            f()
            ctx.count("mps_readonly_calls")
        except Exception as e:      # noqa: BLE001
            if type(e).__name__ not in ("YastnError", "AttributeError"):
                raise
            ctx.count("mps_readonly_rejected")
        # the monitor judges the public call; this is the end-to-end restatement on the whole object
        if not _same(ctx, f"operand-modified:Mps.{name}", f"{name} on an MPS/MPO{' with a central block' if central else ''} changed it", s0, psi):
            break
    ctx.count("mps_readonly_histories")
    return ("mps-readonly", fam, N, mpo, central)


def hist_dpt_copy(ctx, rng, nprng):
    """DoublePepsTensor: objects derived from one that already carries charge swaps / an operator stay independent of it."""
    from yastn.tn.fpeps import DoublePepsTensor
    ops, fam, geo, vecs = _small_peps(rng)
    import yastn.tn.fpeps as fpeps
    psi = fpeps.product_peps(geo, vecs)
    site = rng.choice(list(geo.sites()))
    A = psi[site]
    if A.ndim == 3:
        A = A.unfuse_legs(axes=(0, 1))
    T = DoublePepsTensor(bra=A, ket=A)
    sym = G.sym_name(ops.config.sym)
    zero = ops.config.sym.zero()
    charges = [t for t in ops.space().t if t != zero] or [zero]
    axes_all = ['b0', 'b1', 'b2', 'b3', 'b4', 'k0', 'k1', 'k2', 'k3', 'k4']
    pre = rng.random() < 0.75
    if pre:                       # the source already holds swaps when it is copied
        for ax in rng.sample(axes_all, rng.randint(1, 3)):
            T.add_charge_swaps_(rng.choice(charges), ax)
        ctx.count("dpt_source_with_swaps", int(bool(T.swaps)))
    if rng.random() < 0.3:
        T.set_operator_(ops.I())
    how = rng.choice(("copy", "clone", "conj", "flip_signature", "transpose", "shallow"))
    if how == "transpose":
        U = T.transpose(rng.choice(((0, 1, 2, 3), (1, 2, 3, 0), (2, 3, 0, 1), (3, 0, 1, 2))))   # cyclic ones are supported
    elif how == "shallow":
        import copy as _copy
        U = T.copy()
        how = "copy"
    else:
        U = getattr(T, how)()
    s_T, s_U = IM.snapshot(T), IM.snapshot(U)
    tgt, other, s_other, side = (T, U, s_U, "source") if rng.random() < 0.5 else (U, T, s_T, "derived")
    edit = rng.choice(("add_charge_swaps_", "add_charge_swaps_", "del_charge_swaps_", "set_operator_", "del_operator_"))
    if edit == "add_charge_swaps_":
        tgt.add_charge_swaps_(rng.choice(charges), rng.sample(axes_all, rng.randint(1, 2)))
    elif edit == "del_charge_swaps_":
        tgt.del_charge_swaps_()
    elif edit == "set_operator_":
        tgt.set_operator_(ops.I())
    else:
        tgt.del_operator_()
    _same(ctx, f"copy-not-independent:DoublePepsTensor.{how}:{edit}",
          f"{edit} on the {side} changed the other side of DoublePepsTensor.{how}()", s_other, other)
    ctx.count("copy_histories")
    ctx.count("copy_histories:dpt")
    return ("dpt-copy", fam, how, edit, side, pre)


HIST = {"peps-sample": hist_peps_sample, "tensor-copy": hist_tensor_copy, "mps-copy": hist_mps_copy, "peps-copy": hist_peps_copy, "env-copy": hist_env_copy,
        "probe-product_peps": probe_product_peps, "probe-generator": probe_generator, "probe-from_dict": probe_from_dict,
        "mps-algos": hist_mps_algos, "tensor-linalg": hist_tensor_linalg,
        "mps-readonly": hist_mps_readonly, "dpt-copy": hist_dpt_copy}


def run_case(ctx, idx):
    b = ensure(ctx)
    before = b.im.args_checked
    kind, k = locate(ctx.tier, idx)
    if kind == "prog":
        prog, pool, cfg = W.program_case(ctx, k)
        ctx.case(prog.sig(), b.im.args_checked > before, {"kind": "program", **prog.desc()} if k < 2 else None)
    elif kind == "hist":
        name = HIST_KINDS[k % len(HIST_KINDS)]
        rng, nprng = ctx.rng(idx, "hist"), ctx.nprng(idx, "hist")
        sig = HIST[name](ctx, rng, nprng)
        ctx.count("hist:" + name)
        ctx.case(sig, b.im.args_checked > before, {"kind": "history", "scenario": list(map(str, sig))[:6]} if k < 18 and k % 9 == 1 else None)
    elif kind.startswith("foreign:"):
        W.foreign_case(ctx, kind.split(":")[1], k)
        ctx.case(("foreign", kind, k), b.im.args_checked > before)
    else:
        f = W.test_files()[k]
        t0 = ctx.counters.get("snapshotted_calls", 0)
        W.suite_case(ctx, f, MONITORS)
        ctx.case(("suite", f), ctx.counters.get("snapshotted_calls", 0) > t0, {"kind": "suite-file", "file": f})


def end_shard(ctx):
    b = _B["bundle"]
    if b is not None:
        b.flush(ctx)
        ctx.count("nonpublic_calls_not_judged", b.im.nonpublic_skipped)


def canaries(ctx):
    """A function that writes into its operand, and a 'copy' that shares storage, must both be caught."""
    import yastn
    from vmon.interpose import Event
    cfg = yastn.make_config(sym="U1")
    l = yastn.Leg(cfg, s=1, t=(0, 1), D=(2, 2))
    a = yastn.rand(cfg, legs=[l, l.conj()])
    fired = []
    m = IM.ImmutMonitor(lambda k, w, x=None: fired.append(k))

    def bad_mul(t, x):
        t._data *= x
        return t
    ev = Event("yastn.tensor._algebra.__mul__", bad_mul, (a, 2.0), {}, 0, None, "function", True)
    tok = m.before(ev)
    bad_mul(a, 2.0)
    m.after(ev, tok, a, None)
    ctx.canary("in-place-write-detected", any(k.startswith("operand-modified") for k in fired))
    fired.clear()
    ev = Event("yastn.tensor._single.transpose", None, (a,), {"opts": {"x": 1}}, 0, None, "function", True)
    tok = m.before(ev)
    ev.kwargs["opts"]["y"] = 2
    m.after(ev, tok, a, None)
    ctx.canary("dict-argument-extended", any(k.startswith("operand-modified") for k in fired))
    fired.clear()
    ev = Event("yastn.tensor._initialize.set_block", None, (a,), {}, 0, None, "function", True)
    tok = m.before(ev)
    a._data[0] += 1
    m.after(ev, tok, a, None)
    ctx.canary("documented-inplace-exempt", not fired)
    # structural change only (no data change) is also seen
    s0 = IM.snapshot(a)
    a._trans = (1, 0)
    ctx.canary("structure-change-seen", IM.diff(s0, IM.snapshot(a)) is not None)
    a._trans = (0, 1)
    # shallow copy shares storage: the history oracle must notice
    b = a.shallow_copy()
    sb = IM.snapshot(b)
    a._data[...] = 5.0
    ctx.canary("shared-storage-seen", IM.diff(sb, IM.snapshot(b)) is not None)


def finalize(cov, merged):
    c = merged["counters"]
    if c.get("monitor_errors", 0):
        cov["inconclusive_reasons"].append("monitor raised internally %d times" % c["monitor_errors"])
    cov["history_scenarios"] = {k[5:]: v for k, v in c.items() if k.startswith("hist:")}
